"""Dependencies between properties: the obligations of the data structure a primitive is built on are obligations of that primitive too."""
import importlib

from facts import AnalysisBroken


def depend(ctx, P, pid, rule, what, why, select=None):
    """Evaluate property `pid`'s rules in a sub-context and report the first failing obligation accepted by `select(ob)` under `rule`."""
    import check as _chk
    if getattr(ctx, "nested", False):
        return          # evaluated as somebody's dependency: that property's own dependencies are reported where it is checked itself
    mod = importlib.import_module("props." + pid.lower())
    sub = _chk.Ctx(pid, ctx.tier, ctx.seed)
    sub._progs = ctx._progs
    sub.config = ctx.config
    sub.nested = True
    broken = None
    try:
        mod.run(sub)
    except AnalysisBroken as e:
        broken = "dependency %s: %s" % (pid, e)
        if not getattr(ctx, "deferred_broken", None):
            ctx.deferred_broken = broken
    o = ctx.ob(rule, "", "%s satisfies the %s rules it is checked against" % (what, pid), why)
    sel = select or (lambda x: True)
    fails = [x for x in sub.obs if x.status == "fail" and sel(x)]
    if fails:
        x = fails[0]
        o.fail("%s.%s%s: %s" % (pid, x.rule, (" in " + x.fn) if x.fn else "", x.found), site=x.sites[0] if x.sites else None, witness=x.witness,
               construct="%s dependency: %s" % (pid, x.construct or x.rule))
    elif broken:
        o.ok("(dependency not fully analysable: %s)" % broken)
    else:
        o.ok("%d %s obligations discharged" % (len([x for x in sub.obs if sel(x)]), pid))
