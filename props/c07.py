"""C07 — read/write lock: writers exclusive, readers shared, every release admits waiters (structural part)."""
import itertools

from core import strip, is_field, key_str, key_mentions
from facts import AnalysisBroken
from rules import (writer_kind, field_load, check_init, nodeset, ev, Unevaluable, atom_from, ret_const)
from props import c01
from props import deps
from symword import Machine
import stale

EXPLANATION = (
    "All eight functions have one shape: snapshot the packed 64-bit state, edit the bit-fields of a private copy, CAS the copy "
    "back, act.  Each function is interpreted (locals and bit-fields only, branch conditions folded) for every snapshot of an "
    "enumerated set of legal states, which yields its transition rows (snapshot -> installed word, action taken on CAS "
    "success, behaviour on CAS failure).  Policy-independent conditions are checked on every row: the CAS compares the whole "
    "snapshot against the lock's own word and a failed CAS re-snapshots; a row that makes a writer the owner starts from a "
    "free lock or transfers ownership at release; a row that adds a reader starts from a word that is not write-locked; no "
    "installed word has waiters while nobody holds the lock; a waiting count goes up exactly with a park on the matching "
    "list and down exactly with ownership transfer in the same word plus a wake of that many fibers on the matching list; "
    "the try variants never park and cannot reach a context switch, succeed only with acquisition and fail without touching "
    "the word.  Exclusion and progress over interleavings are not decided.")
NOT_DECIDED = ["exclusion / progress over all interleavings of the CAS protocol"]
ASSUMPTIONS = ["callers of rdunlock hold a read lock, callers of wrunlock hold the write lock (preconditions used to pick legal snapshots)", "the packed 21-bit counter fields do not overflow: fewer than 2^21 concurrent read holders, waiting readers and waiting writers (hunt/H05 findings 1 and 3 -- not decided by these rules)"]
ST = "fiber_rwlock_state_t::state"
UN = "fiber_rwlock_state_t"
WAITQ = "fiber_manager_wait_in_mpsc_queue"
WAKEQ = "fiber_manager_wake_from_mpsc_queue"
FIELDS = ("write_locked", "reader_count", "waiting_readers", "waiting_writers")


class Word:
    def __init__(self, P):
        self.f = {}
        for f in P.record(ST)["fields"]:
            self.f[f["name"]] = (f["off_bits"], f["bits"])
        if set(self.f) != set(FIELDS):
            raise AnalysisBroken("rwlock state fields changed: %s" % sorted(self.f))

    def enc(self, wl, rc, wr, ww):
        v = 0
        for name, val in zip(FIELDS, (wl, rc, wr, ww)):
            off, w = self.f[name]
            v |= (val & ((1 << w) - 1)) << off
        return v

    def dec(self, v):
        return tuple((v >> self.f[n][0]) & ((1 << self.f[n][1]) - 1) for n in FIELDS)


def legal(wl, rc, wr, ww):
    if wl and rc:
        return False
    if (wr or ww) and not (wl or rc):
        return False
    return True


def queue_field(fn, arg):
    k = fn.key(arg, resolve=True)
    if k[0] == "&":
        k = k[1]
    if is_field(k, "fiber_rwlock", ("read_waiters", "write_waiters")) and k[3] == ("*", ("var", fn.params[0]["name"], fn.params[0]["did"])):
        return k[2]
    return None


def rows(P, fn, W, snapshots):
    """For each snapshot: dict(S, cas(bool), expected, desired, actions[(kind, queue, count)], ret, fail_resnap)"""
    is_blob = lambda n: field_load("blob", UN)(n) and n.k == "ImplicitCastExpr" and Machine(fn, P).locate(n.kids[0]) is None
    blob_loads = [n for n in fn.nodes if is_blob(n)]
    is_cas = lambda n: n.k == "CallExpr" and (n.callee or "").startswith("__sync_bool_compare_and_swap")
    out = []
    for S in snapshots:
        row = {"S": S}
        m = Machine(fn, P, atom_from([(is_blob, S)]))
        try:
            hit = m.run("entry", is_cas)
        except Unevaluable as e:
            raise AnalysisBroken("%s: cannot interpret the path for snapshot %s (%s)" % (fn.name, W.dec(S), e))
        if hit is None:
            row["cas"] = False
            row["actions"] = actions(fn, m)
            row["ret"] = None
            out.append(row)
            continue
        row["cas"] = True
        a = fn.args(hit)
        row["target_ok"] = is_field((fn.key(a[0], True)[1] if fn.key(a[0], True)[0] == "&" else ("?",)), UN, "blob") and \
            key_mentions(fn.key(a[0], True), lambda x: x[0] == "var" and x[2] == fn.params[0]["did"])
        try:
            row["expected"] = m.eval(a[1]) & ((1 << 64) - 1)
            row["desired"] = m.eval(a[2]) & ((1 << 64) - 1)
        except Unevaluable as e:
            raise AnalysisBroken("%s: cannot evaluate CAS operands (%s)" % (fn.name, e))
        # success continuation
        ms = Machine(fn, P, atom_from([(is_blob, S), (lambda n, hit=hit: n is hit, 1)]))
        ms.vals = dict(m.vals)
        try:
            stop = ms.run(hit, lambda n: is_cas(n) or is_blob(n))
        except Unevaluable as e:
            raise AnalysisBroken("%s: cannot interpret the success continuation (%s)" % (fn.name, e))
        row["success_loops"] = stop is not None
        row["actions"] = actions(fn, ms)
        # failure continuation: must re-snapshot before anything else
        mf = Machine(fn, P, atom_from([(is_blob, S), (lambda n, hit=hit: n is hit, 0)]))
        mf.vals = dict(m.vals)
        try:
            stop = mf.run(hit, lambda n: is_cas(n) or is_blob(n))
        except Unevaluable:
            stop = "?"
        row["fail_resnap"] = stop is not None and stop != "?" and is_blob(stop) and not actions(fn, mf)
        out.append(row)
    return out


def actions(fn, m):
    acts = []
    for c in m.trace:
        if c.callee in (WAITQ, WAKEQ):
            q = queue_field(fn, fn.args(c)[1])
            cnt = None
            if c.callee == WAKEQ:
                try:
                    cnt = m.eval(fn.args(c)[2])
                except Unevaluable:
                    cnt = "?"
            acts.append(("wait" if c.callee == WAITQ else "wake", q, cnt))
        elif c.callee and c.callee != "fiber_manager_get" and not c.callee.startswith("__sync_"):
            acts.append(("call", c.callee, None))
    return acts


def reachable_ret(fn, P, S, W, cas_result):
    return None


def check_fn(ctx, P, W, name, kind):
    fn = P.fn(name)
    is_try = name.startswith("fiber_rwlock_try")
    snaps = []
    for wl, rc, wr, ww in itertools.product((0, 1), (0, 1, 2, 5), (0, 1, 3), (0, 1, 2)):
        if not legal(wl, rc, wr, ww):
            continue
        if kind == "rdunlock" and not (rc > 0 and not wl):
            continue
        if kind == "wrunlock" and not (wl and rc == 0):
            continue
        snaps.append(W.enc(wl, rc, wr, ww))
    rs = rows(P, fn, W, snaps)
    o = ctx.ob("rows." + kind, fn, ROW_REQ[kind], ROW_WHY)
    bad = None
    for r in rs:
        wl, rc, wr, ww = W.dec(r["S"])
        tag = "snapshot (write_locked=%d readers=%d waiting_readers=%d waiting_writers=%d)" % (wl, rc, wr, ww)
        acts = [a for a in r["actions"] if a[0] in ("wait", "wake")]
        other = [a for a in r["actions"] if a[0] == "call" and a[1] not in ("fiber_manager_get",)]
        if not r["cas"]:
            if not is_try:
                bad = bad or "%s: no CAS is attempted" % tag
            elif acts:
                bad = bad or "%s: a try variant parks/wakes" % tag
            elif kind == "tryrdlock" and not wl and not ww and not wr:
                bad = bad or "%s: tryrdlock fails although nothing holds or awaits the lock" % tag
            elif kind == "trywrlock" and r["S"] == 0:
                bad = bad or "%s: trywrlock fails on a free lock" % tag
            continue
        if not r.get("target_ok"):
            bad = bad or "%s: the CAS does not act on this lock's state word" % tag
        if r["expected"] != r["S"]:
            bad = bad or "%s: the CAS expects %#x, not the snapshot %#x" % (tag, r["expected"], r["S"])
        if not r["fail_resnap"]:
            bad = bad or "%s: after a failed CAS the function does not take a fresh snapshot first" % tag
        if r["success_loops"]:
            bad = bad or "%s: after a successful CAS the function loops again" % tag
        nwl, nrc, nwr, nww = W.dec(r["desired"])
        ntag = tag + " -> (write_locked=%d readers=%d waiting_readers=%d waiting_writers=%d)" % (nwl, nrc, nwr, nww)
        # I1 exclusion
        if nwl and nrc:
            bad = bad or ntag + ": a writer and readers hold the lock together"
        # I2 nobody stranded
        if (nwr or nww) and not (nwl or nrc):
            bad = bad or ntag + ": waiters remain while nobody holds the lock"
        # I3 waiting counts <-> actions
        want = []
        if nww == ww + 1:
            want.append(("wait", "write_waiters", None))
        elif nww == ww - 1:
            want.append(("wake", "write_waiters", 1))
            if not nwl:
                bad = bad or ntag + ": a waiting writer is released without being made the owner"
        elif nww != ww:
            bad = bad or ntag + ": waiting_writers changes by more than one"
        if nwr == wr + 1:
            want.append(("wait", "read_waiters", None))
        elif nwr < wr:
            want.append(("wake", "read_waiters", wr))
            if nwr != 0:
                bad = bad or ntag + ": only some waiting readers are released"
        elif nwr != wr:
            bad = bad or ntag + ": waiting_readers grows by more than one"
        if sorted(map(str, acts)) != sorted(map(str, want)):
            bad = bad or ntag + ": action %s, expected %s" % (acts or "none", want or "none")
        if is_try and acts:
            bad = bad or ntag + ": a try variant parks"
        # I4 own effect
        if kind in ("rdlock", "tryrdlock"):
            if nrc == rc + 1 and (nwl, nwr, nww) == (wl, wr, ww):
                if wl:
                    bad = bad or ntag + ": a reader is admitted while a writer holds the lock"
            elif kind == "rdlock" and (nwl, nrc, nwr, nww) == (wl, rc, wr + 1, ww):
                if not (wl or ww or wr):
                    bad = bad or ntag + ": a reader queues although it could not be woken by anybody (lock is free)"
            else:
                bad = bad or ntag + ": neither 'reader admitted' nor 'reader queued'"
        elif kind in ("wrlock", "trywrlock"):
            if (nwl, nrc, nwr, nww) == (1, rc, wr, ww) and not wl:
                if r["S"] != 0:
                    bad = bad or ntag + ": a writer is admitted although the lock is not free"
            elif kind == "wrlock" and (nwl, nrc, nwr, nww) == (wl, rc, wr, ww + 1):
                if r["S"] == 0:
                    bad = bad or ntag + ": a writer queues on a free lock (nobody will wake it)"
            else:
                bad = bad or ntag + ": neither 'writer admitted' nor 'writer queued'"
        elif kind == "rdunlock":
            handed_w = nww == ww - 1
            handed_r = nwr < wr
            if handed_w:
                if not (nwl == 1 and nrc == rc - 1 == 0 and nwr == wr):
                    bad = bad or ntag + ": hand-off to a writer although readers remain / wrong word"
            elif handed_r:
                if not (rc - 1 == 0 and nrc == wr and nwl == 0 and nww == ww == 0):
                    bad = bad or ntag + ": hand-off to readers with a wrong reader count or past a waiting writer"
            else:
                if (nwl, nrc, nwr, nww) != (0, rc - 1, wr, ww):
                    bad = bad or ntag + ": a plain read-unlock must only decrement the reader count"
        elif kind == "wrunlock":
            handed_w = nww == ww - 1
            handed_r = nwr < wr
            if handed_w:
                if not (nwl == 1 and nrc == 0 and nwr == wr):
                    bad = bad or ntag + ": hand-off to a writer with a wrong word"
            elif handed_r:
                if not (nwl == 0 and nrc == wr and nww == ww == 0):
                    bad = bad or ntag + ": hand-off to readers with a wrong word"
            else:
                if (nwl, nrc, nwr, nww) != (0, 0, wr, ww):
                    bad = bad or ntag + ": a plain write-unlock must only clear write_locked"
        if other:
            bad = bad or ntag + ": unexpected call %s" % other[0][1]
    if is_try and fn.name in stale.may_switch(P):
        bad = bad or "the try variant can reach a context switch"
    # return values of the try variants
    if is_try:
        for r in fn.returns():
            pass
    o.check(bad is None, "%d snapshots interpreted" % len(rs), bad, site=fn.loc, construct="rwlock rows " + kind)
    return len(rs)


ROW_REQ = {
    "rdlock": "rdlock: every row either admits the reader (reader_count+1, only from a word that is not write-locked) or queues it (waiting_readers+1 with a park on read_waiters, only when somebody can wake it)",
    "wrlock": "wrlock: every row either makes the writer the owner (only from the all-zero word) or queues it (waiting_writers+1 with a park on write_waiters, never on a free lock)",
    "tryrdlock": "tryrdlock: never parks; succeeds exactly by reader_count+1 from a word that is not write-locked; otherwise fails without CAS",
    "trywrlock": "trywrlock: never parks; succeeds exactly by taking the all-zero word; otherwise fails without CAS",
    "rdunlock": "rdunlock: reader_count-1; the last reader hands the lock to one waiting writer (write_locked=1, waiting_writers-1, wake 1 on write_waiters) or "
                "to all waiting readers (reader_count=waiting_readers, waiting_readers=0, wake that many on read_waiters) in the same CAS",
    "wrunlock": "wrunlock: releases write_locked; hands over to one waiting writer or to all waiting readers in the same CAS, as rdunlock",
}
ROW_WHY = ("a row that removes waiters from the waiting counts without transferring ownership (or wakes the wrong list / count) leaves fibers blocked "
           "on a lock nobody holds; a row that admits a writer next to readers breaks exclusion")


def run(ctx):
    P = ctx.prog()
    c01.core_dependency(ctx, P, "core.dep", ('fiber_manager_wait_in_mpsc_queue', 'fiber_manager_wait_in_mpsc_queue_and_unlock', 'fiber_manager_wake_from_mpsc_queue'),
                        "the rwlock's sleep/wake path (wait_in_mpsc_queue / wake_from_mpsc_queue)",
                        'a reader or writer resumed early enters the critical section without the lock word saying so')
    deps.depend(ctx, P, 'C15', 'queue.dep', "the rwlock's waiter queues (mpsc_fifo)",
                'a reader or writer that the queue drops waits for ever', lambda x: x.rule.startswith(("mpsc.", "mpsc_fifo.")) or x.fn == "mpsc_fifo_init")
    W = Word(P)
    o = ctx.ob("layout", "", "the four bit-fields cover one 64-bit word exactly (1+21+21+21) and `blob` overlays them", "")
    u = {f["name"]: f for f in P.record(UN)["fields"]}
    ok = P.record(UN)["size"] == 8 and u["blob"]["off_bits"] == 0 and u["state"]["off_bits"] == 0 and \
        sorted(W.f.values()) == [(0, 1), (1, 21), (22, 21), (43, 21)]
    o.check(ok, "layout ok", "unexpected layout %s" % sorted(W.f.items()), site=UN, construct="rwlock layout")
    o = ctx.ob("writers", "", "the state word is modified only by the CASes of these functions (and zeroed by init)", "")
    bad = None
    for fn in P.unique_functions():
        for s in fn.stores():
            k = fn.target_key(s.target)
            if is_field(k, UN, "blob") or is_field(k, ST, FIELDS):
                if Machine(fn, P).locate(s.target) is not None:
                    continue
                kind = writer_kind(s)
                if not ((fn.name == "fiber_rwlock_init" and kind == "assign") or (fn.name.startswith("fiber_rwlock_") and kind == "cas")):
                    bad = bad or ("`%s` in %s" % (s.node.text, fn.name), s.node)
    o.check(bad is None, "CAS-only", "unexpected writer " + (bad[0] if bad else ""), site=bad[1] if bad else None, construct="rwlock state writer")
    total = 0
    for name, kind in (("fiber_rwlock_rdlock", "rdlock"), ("fiber_rwlock_wrlock", "wrlock"), ("fiber_rwlock_tryrdlock", "tryrdlock"),
                       ("fiber_rwlock_trywrlock", "trywrlock"), ("fiber_rwlock_rdunlock", "rdunlock"), ("fiber_rwlock_wrunlock", "wrunlock")):
        total += check_fn(ctx, P, W, name, kind)
    ctx.derived["snapshots_interpreted"] = total
    check_init(ctx, P, "fiber_rwlock_init", [("fiber_rwlock_state_t", "blob", 0)], calls=[("mpsc_fifo_init", 2)])
