"""C01 — a fiber runs on one kernel thread at a time and is resumed only from a saved state.

One idea applied at every wait site: the old fiber becomes reachable to a waker only after
fiber_context_swap has returned on the new fiber, or the waker is held off until then.  Every wait
site and every schedule site is classified into one of the hold-off mechanisms and that
mechanism's obligations are checked on all paths.
"""
from core import strip, is_field, key_str, key_mentions, order_ge
from facts import AnalysisBroken
from rules import (through_local, nodeset, callpred, field_of, ev, Unevaluable, forced_edges, atom_from, one, some,
                   base_var, macro_of, truth_table)
import stale

EXPLANATION = (
    "Classifies every wait site (store of WAITING / SAVING_STATE_TO_WAIT to the running fiber) and every schedule site "
    "into the four hold-off mechanisms of the runtime (deferred publish through a manager slot; SAVING mark + skip in "
    "the run queue + guarded WAITING->READY flip; ready-to-wake marker spun on by raisers; lock released by the "
    "successor) and checks, on every CFG path, the obligations that make each mechanism work: who may call "
    "fiber_context_swap and what follows it, who writes each deferred slot and that a yield follows with no other "
    "switch in between, publication order inside each wait function, the guards of each waker, the state-writer table, "
    "stale per-thread manager use after a possible migration, use of a woken fiber (or of a node living on its stack) "
    "after it was scheduled, and the done-fiber reclamation hand-over.  These are necessary conditions; that the "
    "mechanisms together exclude every bad interleaving is a protocol argument that is not machine-checked.")
NOT_DECIDED = ["that the mechanisms together exclude every interleaving in which a fiber runs twice (protocol proof)",
               "owner/thief races inside the deque (C02)"]
ASSUMPTIONS = ["user code reached through run_function may block or yield (treated as may-switch)",
               "libc entry points reached through dlsym()'d pointers never re-enter the fiber scheduler"]

RUNNING, READY, WAITING, DONE, SAVING = 1, 2, 3, 4, 5
STATE_NAME = {1: "RUNNING", 2: "READY", 3: "WAITING", 4: "DONE", 5: "SAVING_STATE_TO_WAIT"}
YIELD = "fiber_manager_yield"
SCHED = ("fiber_manager_schedule", "fiber_scheduler_schedule")
PUSHB = "wsd_work_stealing_deque_push_bottom"
PUBLISH_CALLS = SCHED + (PUSHB, "mpmc_fifo_push", "mpsc_fifo_push", "dist_fifo_push")
UNLOCKS = ("fiber_spinlock_unlock", "fiber_mutex_unlock", "fiber_mutex_unlock_internal")

# wait sites: function -> mechanism
WAIT = {
    "fiber_manager_wait_in_mpmc_queue": 1,
    "fiber_manager_set_and_wait": 1,
    "fiber_manager_wait_in_mpsc_queue": 2,
    "fiber_manager_thread_func": 2,
    "fiber_signal_wait": 3,
    "fiber_multi_signal_wait": 3,
    "fiber_wait_for_event": 4,
    "fiber_sleep": 4,
    "fiber_multi_channel_internal_wait": 4,
}
# schedule sites: function -> mechanism of the fiber it schedules (0 = trivially safe)
WAKE = {
    "fiber_manager_do_maintenance": 0, "fiber_create": 0, "fiber_manager_schedule": 0,
    "fiber_scheduler_schedule": 0, "fiber_scheduler_next": 0, "fiber_scheduler_load_balance": 0,
    "fiber_manager_wake_from_mpmc_queue": 1, "fiber_mark_completed": 1, "fiber_join": 1, "fiber_tryjoin": 1,
    "fiber_detach": 1,
    "fiber_manager_wake_from_mpsc_queue": 2,
    "fiber_signal_raise": 3, "fiber_multi_signal_raise": 3, "fiber_multi_signal_raise_strict": 3,
    "fiber_event_wake_waiters": 4, "fiber_event_wake_sleepers": 4, "fiber_multi_channel_internal_wake": 4,
}
SLOTS = {
    "to_schedule": ({"fiber_manager_switch_to"}, None),
    "mpmc_to_push": ({"fiber_manager_wait_in_mpmc_queue"}, YIELD),
    "mpsc_to_push": (set(), YIELD),
    "mutex_to_unlock": ({"fiber_manager_wait_in_mpsc_queue_and_unlock", "fiber_multi_channel_internal_wait"}, YIELD),
    "spinlock_to_unlock": ({"fiber_wait_for_event", "fiber_sleep"}, YIELD),
    "set_wait_location": ({"fiber_manager_set_and_wait", "fiber_signal_wait", "fiber_multi_signal_wait"}, YIELD),
    "set_wait_value": ({"fiber_manager_set_and_wait", "fiber_signal_wait", "fiber_multi_signal_wait"}, YIELD),
    "done_fiber": ({"fiber_join_routine"}, YIELD),
}
MAINT = "fiber_manager_do_maintenance"


def state_stores(fn):
    out = []
    for s in fn.stores_to("fiber", "state"):
        v = None
        if s.value is not None:
            vv = strip(s.value)
            v = vv.cv if vv is not None and vv.cv is not None else (s.value.cv)
        out.append((s, v))
    return out


def is_state_load(fn):
    ids = {l.node.id for l in fn.loads_of("fiber", "state")}
    return lambda n: n.id in ids


def mentions_field(key, rec, field):
    return key_mentions(key, lambda x: x[0] == "f" and (rec is None or x[1] == rec) and x[2] == field)


def is_current_fiber(fn, key):
    """key denotes <something>->state where <something> resolves to manager->current_fiber"""
    if key[0] != "f":
        return False
    b = key[3]
    return mentions_field(b, "fiber_manager", "current_fiber") or mentions_field(b, "fiber_manager", "maintenance_fiber")


def check_infra(ctx, P):
    """low-level infrastructure every rule leans on: the per-thread manager really is per thread, and the functions the order rules accept as
    compiler / full fences really are fences"""
    from rules import COMPILER_FENCE_CALLS, FULL_FENCE_CALLS
    g = P.fn("fiber_manager_get")
    o = ctx.ob("infra.tls", g, "fiber_manager_get() returns a thread-local variable (one manager per kernel thread) and does nothing else",
               "a manager pointer shared by all kernel threads makes every thread push onto one deque and consume one set of deferred-publication slots")
    bad = None
    rets = [r for r in g.returns() if r.kids]
    if not rets:
        raise AnalysisBroken("fiber_manager_get: no return value")
    for r in rets:
        v = g.resolve(r.kids[0])
        if not (v is not None and v.k == "DeclRefExpr" and v.dk == "global"):
            bad = bad or ("returns `%s`, not a thread-local variable" % r.kids[0].text, r)
        elif not v.tls:
            bad = bad or ("`%s` is not declared __thread / _Thread_local" % v.name, r)
    side = [c for c in g.calls() if c.callee != "__assert_fail" and not (c.callee or "").startswith("__builtin")] + [s_.node for s_ in g.stores()]
    if side:
        bad = bad or ("the accessor has a side effect (`%s`): a thread the runtime did not start must get NULL, not a manager of its own making "
                      "(it would act as a second owner of some kernel thread's run queue)" % side[0].text[:60], side[0])
    o.check(bad is None, "thread-local", bad[0] if bad else None, site=bad[1] if bad else None, construct="manager pointer not thread-local")
    o = ctx.ob("infra.fences", "", "write_barrier / load_load_barrier / cpu_relax are compiler barriers (volatile asm with a memory clobber); store_load_barrier is a "
               "full fence (locked RMW or mfence, memory clobber)",
               "the order rules accept a call of these functions as a fence: an empty or clobber-less definition lets the compiler move the accesses they separate")
    bad = None
    n = 0
    for name in sorted(COMPILER_FENCE_CALLS | FULL_FENCE_CALLS):
        if not P.has_fn(name):
            continue
        f = P.fn(name)
        n += 1
        asms = f.all(k="GCCAsmStmt")
        okc = [a for a in asms if a.d.get("asmvolatile") and "memory" in (a.d.get("clobbers") or [])]
        if not okc:
            bad = bad or ("%s has no volatile asm with a memory clobber" % name, f.loc)
        elif name in FULL_FENCE_CALLS and not any(("lock" in a.d["asm"] or "mfence" in a.d["asm"]) for a in okc):
            bad = bad or ("%s is not a locked instruction / mfence" % name, f.loc)
    if n < 3:
        raise AnalysisBroken("fence functions: only %d found" % n)
    o.check(bad is None, "%d fence functions" % n, bad[0] if bad else None, site=bad[1] if bad else None, construct="fence function is not a fence")


def rtw(P):
    """the value of FIBER_SIGNAL_READY_TO_WAKE (the marker a sleeper's successor stores into its scratch): read from the macro, not assumed"""
    from rules import macro_constant
    v, bad, site = macro_constant(P, "FIBER_SIGNAL_READY_TO_WAKE")
    if bad or v is None:
        raise AnalysisBroken("FIBER_SIGNAL_READY_TO_WAKE: %s" % (bad or "no value"))
    return v


def check_swap(ctx, P):
    sw = P.fn("fiber_manager_switch_to")
    o = ctx.ob("swap.callers", "", "fiber_context_swap is called only from fiber_manager_switch_to",
               "any other switch bypasses the post-switch maintenance: the suspended fiber's deferred publications "
               "(queue push, unlock, wake marker) never happen or happen before its context is saved")
    cs = P.callers_of(stale.SWAP)
    bad = [(f, c) for f, c in cs if f.name != "fiber_manager_switch_to"]
    ctx.expect_count("callers of fiber_context_swap", len(cs), 1)
    o.check(not bad, "%d call site(s), all in switch_to" % len(cs),
            "called from %s" % (bad[0][0].name if bad else ""), site=bad[0][1] if bad else None,
            construct="swap caller " + (bad[0][0].name if bad else ""))
    swap = one(sw.calls(stale.SWAP), "context swap call", sw)
    o = ctx.ob("swap.maintenance", sw, "the first call after fiber_context_swap on every path is fiber_manager_do_maintenance, "
               "and switch_to publishes nothing itself (no schedule / queue push / unlock call)",
               "maintenance is the only place where the old fiber's publications are performed, after the swap; doing "
               "them before the swap lets a waker resume the old fiber while it is still running")
    anycall = lambda n: n.k == "CallExpr" and n.callee != MAINT
    w = sw.find_path(swap, "exit", barrier=callpred(MAINT))
    w2 = sw.find_path(swap, anycall, barrier=callpred(MAINT))
    pub = sw.calls(PUBLISH_CALLS + UNLOCKS)
    if w is not None:
        o.fail("a path from the swap to the function exit skips fiber_manager_do_maintenance", site=swap, witness=w,
               construct="swap without maintenance")
    elif w2 is not None:
        o.fail("another call runs between the swap and the maintenance", site=swap, witness=w2, construct="call between swap and maintenance")
    elif pub:
        o.fail("switch_to itself calls `%s`" % pub[0].text, site=pub[0], construct="publication inside switch_to")
    else:
        o.ok("swap at %s followed by maintenance" % swap.loc, [swap])
    # maintenance runs only as the first thing after a switch
    o = ctx.ob("swap.maintenance.sites", "", "fiber_manager_do_maintenance is called only as the first call after fiber_context_swap in switch_to and as the "
               "first call of a fresh context (fiber_go_function)",
               "maintenance consumes manager->old_fiber and the deferred-publication slots, which describe the fiber that was just switched away from; "
               "called anywhere else it acts on a stale old_fiber (marking it WAITING although it runs again elsewhere: resumed twice)")
    bad = None
    sites = P.callers_of(MAINT)
    for f, c in sites:
        if f.name == "fiber_manager_switch_to":
            if f.dominated_by(c, nodeset([swap])) is not None or f.find_path(swap, lambda n: n is c, barrier=lambda n: n.k == "CallExpr" and n is not c) is None:
                bad = bad or ("in switch_to, not directly behind the swap", c)
        elif f.name == "fiber_go_function":
            if f.find_path("entry", lambda n: n is c, barrier=lambda n: n.k == "CallExpr" and n is not c and not (n.callee or "").startswith("__builtin")) is None:
                bad = bad or ("in fiber_go_function, not the first call", c)
        else:
            bad = bad or ("called from %s" % f.name, c)
    ctx.expect_count("callers of fiber_manager_do_maintenance", len(sites), 1)
    o.check(bad is None, "%d call sites" % len(sites), "fiber_manager_do_maintenance " + (bad[0] if bad else ""), site=bad[1] if bad else None,
            construct="maintenance outside a switch")
    # bookkeeping of switch_to: READY only when the old fiber was RUNNING, to_schedule set in the same branch
    o = ctx.ob("swap.requeue", sw, "the old fiber is marked READY and put in to_schedule only when its state is still RUNNING "
               "(a fiber that declared itself WAITING/SAVING/DONE must not be re-queued by the switch)",
               "re-queuing a fiber that registered itself as a waiter makes it runnable twice: once from the run queue and "
               "once from the waker")
    isst = is_state_load(sw)
    bad = None
    for s, v in state_stores(sw):
        if v == READY:
            def cp(leaf, pol):
                if not any(isst(m) for m in leaf.walk()):
                    return False
                try:
                    return truth_table(sw, leaf, pol, [isst], [range(1, 6)]) == {(RUNNING,)}
                except Unevaluable:
                    return False
            w = sw.guarded(s.node, cp)
            if w is not None:
                bad = ("`%s` is not guarded by state == RUNNING" % s.node.text, s.node, w)
    for s in sw.stores_to("fiber_manager", "to_schedule"):
        def cp2(leaf, pol):
            if not any(isst(m) for m in leaf.walk()):
                return False
            try:
                return truth_table(sw, leaf, pol, [isst], [range(1, 6)]) == {(RUNNING,)}
            except Unevaluable:
                return False
        w = sw.guarded(s.node, cp2)
        if w is not None:
            bad = bad or ("`%s` is not guarded by state == RUNNING" % s.node.text, s.node, w)
    if bad:
        o.fail(bad[0], site=bad[1], witness=bad[2], construct="unguarded re-queue in switch_to")
    else:
        o.ok("guarded by old_fiber->state == RUNNING")
    # fresh contexts
    go = P.fn("fiber_go_function")
    o = ctx.ob("swap.fresh", go, "a fresh context performs the post-switch maintenance before running user code",
               "a new fiber's first instruction is reached by a swap from some old fiber whose publications are pending")
    ind = [c for c in go.calls() if c.indirect]
    ctx.expect_count("indirect run_function call", len(ind), 1)
    w = go.dominated_by(ind[0], callpred(MAINT))
    o.check(w is None, "maintenance precedes run_function", "run_function reachable before maintenance", site=ind[0],
            witness=w, construct="run_function before maintenance")


def check_slots(ctx, P):
    mt = P.fn(MAINT)
    ms = stale.may_switch(P)
    for slot, (setters, follow) in SLOTS.items():
        o = ctx.ob("slots." + slot, "", "`%s` is written only by {%s} (set) and %s (consume+clear); every setter is followed on "
                   "all paths by the yield with no other may-switch call in between, on a manager that is not stale"
                   % (slot, ", ".join(sorted(setters)) or "-", MAINT),
                   "a deferred action recorded on a manager and then not followed by this fiber's own switch is executed by "
                   "an unrelated successor — for the wrong fiber, or while the recording fiber is still running")
        bad = None
        n = 0
        for fn in P.unique_functions():
            for s in fn.stores():
                k = fn.target_key(s.target)
                if not mentions_field(k, "fiber_manager", slot):
                    continue
                n += 1
                if fn.name == MAINT:
                    continue
                if fn.name not in setters:
                    bad = bad or ("`%s` in %s" % (s.node.text, fn.name), s.node, None, "%s writer %s" % (slot, fn.name))
                    continue
                if follow:
                    ycalls = callpred(YIELD, "fiber_manager_wait_in_mpsc_queue")
                    w = fn.always_followed_by(s.node, ycalls)
                    if w is not None:
                        bad = bad or ("after `%s` a path reaches the function exit without yielding" % s.node.text, s.node, w,
                                      "%s set without yield in %s" % (slot, fn.name))
                    other = lambda n: n.k == "CallExpr" and ((n.callee in ms) or n.indirect) and not ycalls(n)
                    w = fn.find_path(s.node, other, barrier=ycalls)
                    if w is not None:
                        bad = bad or ("between `%s` and the yield another call may switch" % s.node.text, s.node, w,
                                      "%s switch before yield in %s" % (slot, fn.name))
        ctx.expect_count("writers of slot " + slot, n, 1)
        # consumed and cleared in maintenance
        clears = [s for s in mt.stores() if mentions_field(mt.target_key(s.target), "fiber_manager", slot)]
        if not clears:
            bad = bad or ("%s never clears `%s`" % (MAINT, slot), mt.loc, None, "slot %s not cleared" % slot)
        if bad:
            o.fail("unexpected or unsafe write: " + bad[0], site=bad[1], witness=bad[2], construct=bad[3])
        else:
            o.ok("%d write sites" % n)
    # what maintenance does with each slot
    o = ctx.ob("slots.consume", mt, "maintenance performs each deferred action exactly when its slot is set: schedule(to_schedule), "
               "mpmc push, mutex unlock, spinlock unlock, *set_wait_location = set_wait_value, destroy(done_fiber)",
               "a slot that is cleared without its action strands the suspended fiber (never woken / lock never released)")
    need = {
        "to_schedule": lambda: [c for c in mt.calls(SCHED) if any(mentions_field(mt.key(a, True), "fiber_manager", "to_schedule") for a in mt.args(c))],
        "mpmc_to_push": lambda: [c for c in mt.calls("mpmc_fifo_push") if any(mentions_field(mt.key(a, True), "fiber_manager", "mpmc_to_push") for a in mt.args(c))],
        "mutex_to_unlock": lambda: [c for c in mt.calls("fiber_mutex_unlock_internal") if any(mentions_field(mt.key(a, True), "fiber_manager", "mutex_to_unlock") for a in mt.args(c))],
        "spinlock_to_unlock": lambda: [c for c in mt.calls("fiber_spinlock_unlock") if any(mentions_field(mt.key(a, True), "fiber_manager", "spinlock_to_unlock") for a in mt.args(c))],
        "done_fiber": lambda: [c for c in mt.calls("fiber_destroy") if any(mentions_field(mt.key(a, True), "fiber_manager", "done_fiber") for a in mt.args(c))],
        "set_wait_location": lambda: [s.node for s in mt.stores() if mt.target_key(s.target)[0] == "*" and mentions_field(mt.target_key(s.target), "fiber_manager", "set_wait_location")
                                      and s.value is not None and mentions_field(mt.key(s.value, True), "fiber_manager", "set_wait_value")],
    }
    missing = [k for k, f in need.items() if not f()]
    o.check(not missing, "all six actions present", "missing action for slot(s) %s" % missing, site=mt.loc,
            construct="maintenance action missing %s" % missing)


def yield_of(fn):
    return some(fn.calls(YIELD), "call to fiber_manager_yield", fn)


def check_wait_sites(ctx, P):
    found = {}
    for fn in P.unique_functions():
        for s, v in state_stores(fn):
            if v in (WAITING, SAVING) and fn.name != MAINT:
                found.setdefault(fn.name, []).append((fn, s, v))
    ctx.derived["wait_sites"] = sorted(found)
    unknown = sorted(set(found) - set(WAIT))
    o = ctx.ob("wait.census", "", "every store of WAITING/SAVING to a fiber's state is one of the classified wait sites",
               "an unclassified wait site has no checked hold-off mechanism")
    if unknown:
        fn, s, v = found[unknown[0]][0]
        o.fail("unclassified wait site in %s: `%s`" % (unknown[0], s.node.text), site=s.node, construct="unclassified wait site " + unknown[0])
    else:
        o.ok("%d wait sites: %s" % (len(found), ", ".join(sorted(found))))
    missing = sorted(set(WAIT) - set(found) - ({"fiber_multi_channel_internal_wait"} if not P.has_fn("fiber_multi_channel_internal_wait") else set()))
    # a marker-mechanism wait may delegate "WAITING + set_wait slot + yield" to fiber_manager_set_and_wait (same three
    # actions, checked there as a mechanism-1 site): it is then judged on its publication order alone
    delegated = [n for n in missing if WAIT[n] == 3 and P.has_fn(n) and P.fn(n).calls("fiber_manager_set_and_wait")]
    for n in delegated:
        check_marker_site_delegated(ctx, P, P.fn(n))
    missing = [n for n in missing if n not in delegated]
    if missing:
        raise AnalysisBroken("wait site(s) vanished: %s" % missing)

    for name, mech in sorted(WAIT.items()):
        if name not in found:
            continue
        fn, s, v = found[name][0]
        tk = fn.target_key(s.target)
        if name == "fiber_manager_thread_func":
            continue  # handled by the maintenance-fiber exemption rule (stale.exempt)
        o = ctx.ob("wait.%d" % mech, fn, MECH_REQ[mech], MECH_WHY[mech])
        bad = None
        cur = is_current_fiber(fn, (tk[0], tk[1], tk[2], fn.key(strip(s.target.kids[0]), resolve=True))) if s.target.k == "MemberExpr" else False
        if not cur:
            bad = ("`%s`: the fiber put to sleep is not the manager's current fiber" % s.node.text, s.node, None, "wait on non-current fiber")
        ys = yield_of(fn)
        isy = nodeset(ys)
        selfpub = [c for c in fn.calls(SCHED + (PUSHB,))]
        if selfpub:
            bad = bad or ("wait function schedules a fiber itself: `%s`" % selfpub[0].text, selfpub[0], None, "self schedule in wait site")
        if mech == 1:
            if v != WAITING:
                bad = bad or ("state stored is %s" % STATE_NAME.get(v), s.node, None, "mech1 state value")
            pubs = fn.calls(("mpmc_fifo_push", "mpsc_fifo_push"))
            if pubs:
                bad = bad or ("deferred-publish site pushes itself: `%s`" % pubs[0].text, pubs[0], None, "direct push in deferred-publish site")
            slot = "mpmc_to_push" if "mpmc" in name else "set_wait_location"
            slots = [x.node for x in fn.stores() if mentions_field(fn.target_key(x.target), "fiber_manager", slot)]
            for y in ys:
                for need, what in ((nodeset([s.node]), "the WAITING store"), (nodeset(slots), "the %s store" % slot)):
                    w = fn.dominated_by(y, need)
                    if w is not None:
                        bad = bad or ("the yield is reachable without %s" % what, y, w, "mech1 yield without " + what)
            if name == "fiber_manager_set_and_wait":
                # no direct write through `location`
                lp = {p["name"]: p["did"] for p in fn.params}.get("location")
                direct = [x for x in fn.stores() if fn.target_key(x.target) == ("*", ("var", "location", lp))]
                if direct:
                    bad = bad or ("set_and_wait writes *location itself: `%s`" % direct[0].node.text, direct[0].node, None, "direct publish of join_info")
        elif mech == 2:
            if v != SAVING:
                bad = bad or ("the direct-push wait site stores %s, not SAVING_STATE_TO_WAIT" % STATE_NAME.get(v), s.node, None, "mech2 state value")
            pushes = some(fn.calls("mpsc_fifo_push"), "mpsc push", fn)
            for p in pushes:
                w = fn.dominated_by(p, nodeset([s.node]))
                if w is not None:
                    bad = bad or ("the fiber is pushed (poppable) before it is marked SAVING", p, w, "push before SAVING mark")
                w = fn.always_followed_by(p, isy)
                if w is not None:
                    bad = bad or ("after the push a path returns without yielding", p, w, "push without yield")
        elif mech == 3:
            if v != WAITING:
                bad = bad or ("state stored is %s" % STATE_NAME.get(v), s.node, None, "mech3 state value")
            pubs = [x for x in fn.stores() if x.aop == "cas" and is_field(fn.target_key(x.target), "fiber_signal", "waiter")]
            pubs = [x.node for x in pubs] + fn.calls("compare_and_swap2")
            if not pubs:
                raise AnalysisBroken("%s: publishing CAS not found" % name)
            clr = [x.node for x in fn.stores_to("fiber", "scratch") if x.value is not None and strip(x.value).cv == 0]
            for p in pubs:
                w = fn.dominated_by(p, nodeset(clr))
                if w is not None:
                    bad = bad or ("the CAS that publishes the fiber is reachable without scratch having been cleared", p, w, "publish before scratch clear")
            locs = [x for x in fn.stores_to("fiber_manager", "set_wait_location")]
            vals = [x for x in fn.stores_to("fiber_manager", "set_wait_value")]
            okloc = [x.node for x in locs if x.value is not None and mentions_field(fn.key(x.value, True), "fiber", "scratch")]
            okval = [x.node for x in vals if x.value is not None and strip(x.value).cv == rtw(P)]
            for y in ys:
                for need, what in ((nodeset([s.node]), "the WAITING store"), (nodeset(okloc), "set_wait_location = &scratch"),
                                   (nodeset(okval), "set_wait_value = READY_TO_WAKE")):
                    w = fn.dominated_by(y, need)
                    if w is not None:
                        bad = bad or ("the yield is reachable without %s" % what, y, w, "mech3 yield without " + what)
                # the sleep only after winning the CAS
                pubp = nodeset(pubs)
                w = fn.guarded(y, lambda leaf, pol: pubp(through_local(fn, leaf)) and pol is True)
                if w is not None:
                    bad = bad or ("the fiber goes to sleep without having won the publishing CAS", y, w, "sleep without CAS success")
        elif mech == 4:
            if v != WAITING:
                bad = bad or ("state stored is %s" % STATE_NAME.get(v), s.node, None, "mech4 state value")
            unl = fn.calls(UNLOCKS)
            if unl:
                bad = bad or ("the wait site releases a lock itself: `%s`" % unl[0].text, unl[0], None, "unlock before switch in wait site")
            slotst = [x for x in fn.stores() if mentions_field(fn.target_key(x.target), "fiber_manager", "spinlock_to_unlock")
                      or mentions_field(fn.target_key(x.target), "fiber_manager", "mutex_to_unlock")]
            if not slotst:
                bad = bad or ("no lock is handed to the successor (neither spinlock_to_unlock nor mutex_to_unlock is set)", s.node, None, "no deferred unlock")
            locks = fn.calls(("fiber_spinlock_lock", "fiber_mutex_lock"))
            if name != "fiber_multi_channel_internal_wait":
                if not locks:
                    bad = bad or ("registration is not done under a lock", s.node, None, "no lock in wait site")
                else:
                    lk = fn.key(fn.args(locks[0])[0], resolve=True)
                    for x in slotst:
                        if x.value is None or fn.key(x.value, True) != lk:
                            bad = bad or ("the lock handed to the successor (`%s`) is not the one taken (`%s`)"
                                          % (x.value.text if x.value else "?", key_str(lk)), x.node, None, "deferred unlock of another lock")
                    w = fn.dominated_by(s.node, nodeset(locks))
                    if w is not None:
                        bad = bad or ("WAITING is stored without the lock held", s.node, w, "WAITING outside lock")
            actions = [s.node] + [x.node for x in slotst] + locks
            for y in ys:
                if not any(fn.find_path(a_, lambda n, y=y: n is y) is not None for a_ in actions):
                    continue      # a plain yield on a path that takes no lock, registers nothing and stores no state (e.g. a zero-length sleep)
                for need, what in ((nodeset([s.node]), "the WAITING store"), (nodeset([x.node for x in slotst]), "the deferred-unlock slot")):
                    w = fn.dominated_by(y, need)
                    if w is not None:
                        bad = bad or ("the yield is reachable without %s" % what, y, w, "mech4 yield without " + what)
        if bad:
            o.fail(bad[0], site=bad[1], witness=bad[2], construct=bad[3])
        else:
            o.ok("mechanism %d obligations hold" % mech, [s.node])

    # multi-channel: the caller holds the channel mutex at every call of internal_wait / internal_wake
    for helper in ("fiber_multi_channel_internal_wait", "fiber_multi_channel_internal_wake"):
        if not P.has_fn(helper):
            continue
        cs = P.callers_of(helper)
        o = ctx.ob("wait.4.caller", helper, "every caller holds the channel mutex: the call is dominated by fiber_mutex_lock(&channel->lock) "
                   "with no unlock of it in between", "the waiter list is protected only by that mutex; the deferred unlock releases it")
        bad = None
        for fn, c in cs:
            locks = [l for l in fn.calls("fiber_mutex_lock")]
            unl = fn.calls(("fiber_mutex_unlock", "fiber_mutex_unlock_internal"))
            w = fn.dominated_by(c, nodeset(locks))
            if w is not None:
                bad = bad or ("`%s` in %s reachable without the channel lock" % (c.text, fn.name), c, w)
            for u in unl:
                w = fn.find_path(u, lambda n: n is c, barrier=nodeset(locks))
                if w is not None:
                    bad = bad or ("`%s` in %s reachable after the lock was released" % (c.text, fn.name), c, w)
        ctx.expect_count("callers of " + helper, len(cs), 1)
        if bad:
            o.fail(bad[0], site=bad[1], witness=bad[2], construct=helper + " without lock")
        else:
            o.ok("%d call sites under the lock" % len(cs))


def check_marker_site_delegated(ctx, P, fn):
    o = ctx.ob("wait.3", fn, MECH_REQ[3] + " (here: the last three through fiber_manager_set_and_wait(manager, &scratch, READY_TO_WAKE))", MECH_WHY[3])
    bad = None
    pubs = [x.node for x in fn.stores() if x.aop == "cas" and is_field(fn.target_key(x.target), "fiber_signal", "waiter")] + fn.calls("compare_and_swap2")
    if not pubs:
        raise AnalysisBroken("%s: publishing CAS not found" % fn.name)
    clr = [x.node for x in fn.stores_to("fiber", "scratch") if x.value is not None and strip(x.value).cv == 0]
    for p in pubs:
        w = fn.dominated_by(p, nodeset(clr))
        if w is not None:
            bad = bad or ("the CAS that publishes the fiber is reachable without scratch having been cleared: a stale READY_TO_WAKE value left by an "
                          "earlier wake-up (the fd-close wake stores -1 there) lets a raiser schedule the fiber before it has switched away", p, w, "publish before scratch clear")
    pubp = nodeset(pubs)
    for c in fn.calls("fiber_manager_set_and_wait"):
        a = fn.args(c)
        if not mentions_field(fn.key(a[1], True), "fiber", "scratch") or strip(a[2]).cv != rtw(P):
            bad = bad or ("the delegated sleep does not publish READY_TO_WAKE into the fiber's scratch: `%s`" % c.text, c, None, "delegated marker arguments")
        w = fn.guarded(c, lambda leaf, pol: pubp(through_local(fn, leaf)) and pol is True)
        if w is not None:
            bad = bad or ("the fiber goes to sleep without having won the publishing CAS", c, w, "sleep without CAS success")
    if bad:
        o.fail(bad[0], site=bad[1], witness=bad[2], construct=bad[3])
    else:
        o.ok("publication order holds; sleep delegated to set_and_wait")


MECH_REQ = {
    1: "deferred publish: WAITING and the manager slot are stored before the yield on every path, and the function never pushes "
       "or publishes the fiber itself",
    2: "SAVING mark: the state is SAVING_STATE_TO_WAIT (not WAITING) before the fiber is pushed on the waiter queue, and a yield follows the push",
    3: "ready-to-wake marker: scratch is cleared before the CAS that publishes the fiber; after winning it: WAITING, "
       "set_wait_location=&scratch, set_wait_value=READY_TO_WAKE, then yield",
    4: "lock released after the switch: registration and WAITING happen with the lock held, the same lock is handed to the successor "
       "through the *_to_unlock slot before the yield, and the function never unlocks it itself",
}
MECH_WHY = {
    1: "pushing the fiber onto the waiter queue before its context is saved lets a waker on another kernel thread pop and resume it "
       "while it still runs here",
    2: "a fiber pushed while marked WAITING is flipped to READY by the waker and popped by any thread before it switched away; SAVING "
       "makes the run queue skip it until the successor's maintenance flips it",
    3: "a raiser that observes the waiter must not schedule it until the marker is set by the successor's maintenance",
    4: "releasing the lock before the switch lets the poller/peer wake the fiber while it is still running on this thread",
}


def held_lock_ok(fn, node, lock_calls, unlock_calls):
    w = fn.dominated_by(node, nodeset(lock_calls))
    if w is not None:
        return w
    for u in unlock_calls:
        w = fn.find_path(u, lambda n: n is node, barrier=nodeset(lock_calls))
        if w is not None:
            return w
    return None


def check_wake_sites(ctx, P):
    sites = []
    for fn in P.unique_functions():
        for c in fn.calls(SCHED + (PUSHB,)):
            sites.append((fn, c))
    ctx.derived["schedule_sites"] = sorted("%s@%s" % (f.name, c.loc) for f, c in sites)
    ctx.expect_count("schedule sites", len(sites), 15)
    unknown = sorted({f.name for f, c in sites} - set(WAKE))
    o = ctx.ob("wake.census", "", "every schedule site is in a classified function", "an unclassified waker has no checked hold-off")
    if unknown:
        f0, c0 = [(f, c) for f, c in sites if f.name in unknown][0]
        o.fail("schedule site in %s, which is not a classified waker: `%s`" % (f0.name, c0.text), site=c0,
               construct="unclassified schedule site in " + f0.name)
    else:
        o.ok("%d schedule sites in %d functions" % (len(sites), len({f.name for f, c in sites})))

    # mechanism 1: who may push onto an mpmc waiter queue / write join_info
    o = ctx.ob("wake.1.publishers", "", "mpmc_fifo_push is called only from the post-switch maintenance; fiber.join_info is never "
               "assigned directly (only NULL at creation, the deferred set_wait slot, and exchange(NULL) by the waker)",
               "a fiber that becomes poppable from a waiter queue before its context is saved can be resumed twice")
    bad = None
    for fn, c in P.callers_of("mpmc_fifo_push"):
        if fn.name != MAINT:
            bad = bad or ("mpmc_fifo_push called from %s" % fn.name, c, "mpmc_fifo_push caller " + fn.name)
    for fn in P.unique_functions():
        for s in fn.stores_to("fiber", "join_info"):
            v = strip(s.value) if s.value is not None else None
            if not (v is not None and v.cv == 0):
                bad = bad or ("`%s` in %s" % (s.node.text, fn.name), s.node, "join_info writer " + fn.name)
    if bad:
        o.fail(bad[0], site=bad[1], construct=bad[2])
    else:
        o.ok("only maintenance publishes")

    # mechanism 2: the flip
    wk = P.fn("fiber_manager_wake_from_mpsc_queue")
    o = ctx.ob("wake.2.flip", wk, "the mpsc waker stores READY only when the state it read is WAITING (it never overwrites SAVING)",
               "overwriting SAVING with READY makes fiber_scheduler_next hand out a fiber whose context is not saved yet")
    isst = is_state_load(wk)
    bad = None
    n = 0
    for s, v in state_stores(wk):
        n += 1
        if v != READY:
            bad = bad or ("waker stores %s" % STATE_NAME.get(v, v), s.node, None)
            continue

        def cp(leaf, pol):
            if not any(isst(m) for m in leaf.walk()):
                return False
            try:
                return truth_table(wk, leaf, pol, [isst], [range(1, 6)]) == {(WAITING,)}
            except Unevaluable:
                return False
        w = wk.guarded(s.node, cp)
        if w is not None:
            bad = bad or ("`%s` is not guarded by state == WAITING" % s.node.text, s.node, w)
    ctx.expect_count("state stores in mpsc waker", n, 1)
    if bad:
        o.fail(bad[0], site=bad[1], witness=bad[2], construct="unguarded READY in mpsc waker")
    else:
        o.ok("guarded flip")

    # skip in the scheduler
    nx = P.fn("fiber_scheduler_next")
    o = ctx.ob("skip", nx, "fiber_scheduler_next never returns a fiber whose state is SAVING_STATE_TO_WAIT; it re-queues it",
               "returning it resumes a fiber whose registers are not saved yet: it runs on two threads at once")
    isst = is_state_load(nx)
    bad = None
    rets = [r for r in nx.returns() if r.kids and not (strip(r.kids[0]).cv == 0)]
    ctx.expect_count("non-null returns of fiber_scheduler_next", len(rets), 1)
    for S in range(1, 6):
        atom = atom_from([(isst, S)])
        e = forced_edges(nx, atom)
        reach = any(nx.find_path("entry", lambda n, r=r: n is r, edge_ok=e) is not None for r in rets)
        if S == SAVING and reach:
            bad = bad or ("a fiber in state SAVING can be returned", rets[0])
        if S in (READY,) and not reach:
            bad = bad or ("a READY fiber can never be returned", rets[0])
        if S == SAVING:
            if nx.find_path("entry", callpred(PUSHB, "dist_fifo_push"), edge_ok=e) is None:
                bad = bad or ("a SAVING fiber is dropped instead of re-queued", rets[0])
    if bad:
        o.fail(bad[0], site=bad[1], construct="SAVING skip")
    else:
        o.ok("state table 1..5")

    # mechanism 3: raisers spin on the marker
    for name in ("fiber_signal_raise", "fiber_multi_signal_raise", "fiber_multi_signal_raise_strict"):
        fn = P.fn(name)
        o = ctx.ob("wake.3.marker", fn, "the woken fiber is made READY and scheduled only after its scratch was seen equal to READY_TO_WAKE",
                   "the sleeper published itself before switching; scheduling it before the marker is set resumes it while it still runs")
        isscr = nodeset([l.node for l in fn.loads_of("fiber", "scratch")])
        bad = None
        acts = [s.node for s, v in state_stores(fn)] + fn.calls(SCHED)
        if not acts:
            raise AnalysisBroken(name + ": no wake action found")

        def cp(leaf, pol):
            if not any(isscr(m) for m in leaf.walk()):
                return False
            try:
                mk = rtw(P)
                return truth_table(fn, leaf, pol, [isscr], [tuple(sorted({mk, -1, 0, 4096}))]) == {(mk,)}
            except Unevaluable:
                return False
        for a in acts:
            w = fn.guarded(a, cp)
            if w is not None:
                bad = bad or ("`%s` reachable without having seen scratch == READY_TO_WAKE" % a.text, a, w)
        for s, v in state_stores(fn):
            if v != READY:
                bad = bad or ("raiser stores %s" % STATE_NAME.get(v, v), s.node, None)
        if bad:
            o.fail(bad[0], site=bad[1], witness=bad[2], construct="wake without marker")
        else:
            o.ok("%d actions behind the marker spin" % len(acts))

    # mechanism 4: wake under the same lock
    ww = P.fn("fiber_event_wake_waiters")
    o = ctx.ob("wake.4.waiters", ww, "every caller of fiber_event_wake_waiters holds the fd's spinlock around the call",
               "the waiter registered under that lock and it is released only after its switch; waking without it races with registration")
    bad = None
    cs = P.callers_of("fiber_event_wake_waiters")
    for fn, c in cs:
        w = held_lock_ok(fn, c, fn.calls("fiber_spinlock_lock"), fn.calls("fiber_spinlock_unlock"))
        if w is not None:
            bad = bad or ("`%s` in %s without the spinlock" % (c.text, fn.name), c, w)
        w = fn.always_followed_by(c, callpred("fiber_spinlock_unlock"))
        if w is not None:
            bad = bad or ("the spinlock is not released after waking in %s" % fn.name, c, w)
    ctx.expect_count("callers of fiber_event_wake_waiters", len(cs), 2)
    if bad:
        o.fail(bad[0], site=bad[1], witness=bad[2], construct="wake_waiters without lock")
    else:
        o.ok("%d call sites" % len(cs))
    ws = P.fn("fiber_event_wake_sleepers")
    o = ctx.ob("wake.4.sleepers", ws, "sleepers are removed and scheduled with sleep_spinlock held, released on every exit",
               "the sleeper inserted itself under that lock, released only after its switch")
    bad = None
    locks = [c for c in ws.calls("fiber_spinlock_lock") if mentions_glob(ws, ws.args(c)[0], "sleep_spinlock")]
    unl = [c for c in ws.calls("fiber_spinlock_unlock") if mentions_glob(ws, ws.args(c)[0], "sleep_spinlock")]
    for c in ws.calls(SCHED) + ws.calls("waiter_remove_less_than"):
        w = held_lock_ok(ws, c, locks, unl)
        if w is not None:
            bad = bad or ("`%s` without sleep_spinlock" % c.text, c, w)
    for l in locks:
        w = ws.always_followed_by(l, nodeset(unl))
        if w is not None:
            bad = bad or ("sleep_spinlock not released on a path", l, w)
    if not locks:
        bad = ("sleep_spinlock is not taken", ws.loc, None)
    if bad:
        o.fail(bad[0], site=bad[1], witness=bad[2], construct="wake_sleepers lock discipline")
    else:
        o.ok("lock/unlock pair around the wake loop")

    # wakers store READY before scheduling, and only READY
    o = ctx.ob("wake.ready", "", "every waker stores READY (and nothing else) into the fiber it schedules, before the schedule call",
               "a fiber scheduled while still marked WAITING is re-registered by switch_to bookkeeping / trips the RUNNING test")
    bad = None
    for fn, c in sites:
        if WAKE.get(fn.name, 0) == 0:
            continue
        a = fn.args(c)[1] if len(fn.args(c)) > 1 else None
        if a is None:
            continue
        ak = fn.key(a)
        rs = [s.node for s, v in state_stores(fn) if v == READY and fn.target_key(s.target)[3] == ("*", ak)]
        if not rs:
            bad = bad or ("%s schedules `%s` without storing READY into it" % (fn.name, a.text), c, None)
            continue
        if WAKE[fn.name] == 2:
            continue  # the flip is conditional by design (wake.2.flip): a SAVING fiber is left for maintenance to flip
        w = fn.dominated_by(c, nodeset(rs))
        if w is not None:
            bad = bad or ("%s: schedule reachable without the READY store" % fn.name, c, w)
    if bad:
        o.fail(bad[0], site=bad[1], witness=bad[2], construct="schedule without READY")
    else:
        o.ok("all wakers")


def mentions_glob(fn, n, name):
    return key_mentions(fn.key(n, True), lambda x: x[0] == "glob" and x[1] == name)


def check_states(ctx, P):
    allowed_fn = {
        RUNNING: {"fiber_manager_switch_to", "fiber_create_from_thread"},
        DONE: {"fiber_mark_completed"},
        SAVING: {"fiber_manager_wait_in_mpsc_queue", "fiber_manager_thread_func"},
        WAITING: set(WAIT) | {MAINT},
    }
    o = ctx.ob("states", "", "fiber.state is written only with constants, RUNNING only by switch_to/create_from_thread, DONE only by "
               "fiber_mark_completed, SAVING only by the direct-push wait sites, WAITING only by wait sites on the current fiber and by "
               "the guarded SAVING->WAITING flip in maintenance; wakers write READY only",
               "a waker that writes anything but READY, or a second writer of RUNNING, breaks the state machine every hold-off relies on")
    bad = None
    n = 0
    for fn in P.unique_functions():
        for s, v in state_stores(fn):
            n += 1
            if v is None:
                bad = bad or ("non-constant state store `%s` in %s" % (s.node.text, fn.name), s.node, None, "non-constant state store")
            elif v in allowed_fn and fn.name not in allowed_fn[v]:
                bad = bad or ("%s stored by %s" % (STATE_NAME[v], fn.name), s.node, None, "%s stored by %s" % (STATE_NAME[v], fn.name))
            elif v not in STATE_NAME:
                bad = bad or ("unknown state value %s" % v, s.node, None, "unknown state")
    mt = P.fn(MAINT)
    isst = is_state_load(mt)
    for s, v in state_stores(mt):
        if v == WAITING:
            def cp(leaf, pol):
                if not any(isst(m) for m in leaf.walk()):
                    return False
                try:
                    return truth_table(mt, leaf, pol, [isst], [range(1, 6)]) == {(SAVING,)}
                except Unevaluable:
                    return False
            w = mt.guarded(s.node, cp)
            if w is not None:
                bad = bad or ("maintenance stores WAITING without having seen SAVING", s.node, w, "unguarded flip in maintenance")
        elif v is not None:
            bad = bad or ("maintenance stores %s" % STATE_NAME.get(v), s.node, None, "maintenance state store")
    ctx.expect_count("stores to fiber.state", n, 20)
    if bad:
        o.fail(bad[0], site=bad[1], witness=bad[2], construct=bad[3])
    else:
        o.ok("%d stores" % n)


def stack_resident_types(P):
    """Type spellings of locals whose address escapes before a may-switch call of the same function."""
    out = {}
    for fn in P.unique_functions():
        sw = stale.switch_calls(P, fn)
        if not sw:
            continue
        for did, info in fn.local_by_did.items():
            if info.get("param") or not info.get("rec"):
                continue
            for e in fn.defs().get(did, []):
                if e[0] != "addr":
                    continue
                if any(fn.find_path(e[1], lambda n, c=c: n is c) is not None for c in sw):
                    out[info["t"].replace("const ", "").strip()] = "%s in %s" % (info["name"], fn.name)
    return out


def check_notouch(ctx, P):
    sr = stack_resident_types(P)
    ctx.derived["stack_resident_types"] = sr
    ctx.expect_count("stack-resident types", len(sr), 1)
    n_sites = 0
    for fn in P.unique_functions():
        calls = fn.calls(SCHED)
        if not calls or fn.name in ("fiber_manager_schedule",):
            continue
        o = ctx.ob("notouch", fn, "after a fiber is scheduled, neither it nor any object living on its stack is dereferenced again "
                   "(until the local is re-assigned)",
                   "the scheduled fiber may already be running on another kernel thread: it may return from the blocking call and "
                   "reuse the stack frame that holds the node, or finish and be freed")
        bad = None
        for c in calls:
            n_sites += 1
            a = fn.args(c)[1] if len(fn.args(c)) > 1 else None
            if a is None:
                continue
            fk = fn.key(a)
            watch = []  # (did, why)
            if fk[0] == "var":
                watch.append((fk[2], "the scheduled fiber `%s`" % fk[1]))
            for did, info in fn.local_by_did.items():
                t = (info.get("t") or "").replace("const ", "").strip()
                if t.endswith("*") and t[:-1].strip() in sr:
                    watch.append((did, "`%s`, a node on the stack of a sleeping fiber (%s)" % (info["name"], sr[t[:-1].strip()])))
            for did, why in watch:
                kills = nodeset([e[1] for e in fn.defs().get(did, []) if e[0] in ("init", "assign")])
                for n in fn.nodes:
                    # a dereference through the watched local: x->f, *x, x[i]
                    if n.k == "MemberExpr" and n.arrow:
                        b = strip(n.kids[0])
                    elif n.k == "UnaryOperator" and n.op == "*":
                        b = strip(n.kids[0])
                    elif n.k == "ArraySubscriptExpr":
                        b = strip(n.kids[0])
                    else:
                        continue
                    if b is None or b.k != "DeclRefExpr" or b.did != did:
                        continue
                    # the base pointer is loaded at `b`: is it the stale value?
                    w = fn.find_path(c, lambda m: m is b, barrier=kills)
                    if w is not None:
                        bad = bad or ("`%s` dereferences %s after `%s`" % (n.text, why, c.text), n, w,
                                      "deref of %s after schedule" % fn.local_by_did[did]["name"])
        if bad:
            o.fail(bad[0], site=bad[1], witness=bad[2], construct=bad[3])
        else:
            o.ok("%d schedule call(s)" % len(calls), calls)
    ctx.expect_count("schedule calls examined by notouch", n_sites, 12)


def check_done(ctx, P):
    jr = P.fn("fiber_join_routine")
    mt = P.fn(MAINT)
    mc = P.fn("fiber_mark_completed")
    o = ctx.ob("done.handover", jr, "a finished fiber parks itself in done_fiber after fiber_mark_completed and then yields; nothing "
               "but that yield follows; it is destroyed only by the successor's maintenance",
               "a fiber cannot free the stack it is running on; freeing before the switch is a use-after-free of the live stack")
    bad = None
    ds = jr.stores_to("fiber_manager", "done_fiber")
    if len(ds) != 1:
        bad = ("done_fiber stored %d times" % len(ds), jr.loc, None)
    else:
        s = ds[0]
        w = jr.dominated_by(s.node, callpred("fiber_mark_completed"))
        if w is not None:
            bad = ("done_fiber set before the fiber was marked completed", s.node, w)
        pd = {p["did"] for p in jr.params}
        v = strip(s.value)
        if not (v.k == "DeclRefExpr" and v.did in pd):
            bad = bad or ("done_fiber is not the finishing fiber itself", s.node, None)
        w = jr.always_followed_by(s.node, callpred(YIELD))
        if w is not None:
            bad = bad or ("no yield after done_fiber was set", s.node, w)
        if jr.calls(("fiber_destroy", "fiber_context_destroy", "free")):
            bad = bad or ("the finishing fiber frees something itself", jr.loc, None)
    if bad:
        o.fail(bad[0], site=bad[1], witness=bad[2], construct="done hand-over")
    else:
        o.ok("mark_completed -> done_fiber -> yield")
    o = ctx.ob("done.destroy", "", "fiber_destroy is called only from maintenance (on done_fiber, cleared afterwards) and from start-up/"
               "shutdown code; fiber_context_destroy only from fiber_destroy",
               "destroying a fiber from anywhere else frees a stack that may still be executing")
    allowed = {MAINT, "fiber_manager_create", "fiber_manager_destroy", "fiber_shutdown"}
    bad = None
    cs = P.callers_of("fiber_destroy")
    for fn, c in cs:
        if fn.name not in allowed:
            bad = bad or ("fiber_destroy called from %s" % fn.name, c, None, "fiber_destroy caller " + fn.name)
    for fn, c in P.callers_of("fiber_context_destroy"):
        if fn.name != "fiber_destroy":
            bad = bad or ("fiber_context_destroy called from %s" % fn.name, c, None, "fiber_context_destroy caller " + fn.name)
    dcs = [c for c in mt.calls("fiber_destroy")]
    clr = [s.node for s in mt.stores_to("fiber_manager", "done_fiber")]
    for c in dcs:
        w = mt.always_followed_by(c, nodeset(clr))
        if w is not None:
            bad = bad or ("done_fiber not cleared after the destroy", c, w, "done_fiber not cleared")
    ctx.expect_count("callers of fiber_destroy", len(cs), 3)
    if bad:
        o.fail(bad[0], site=bad[1], witness=bad[2], construct=bad[3])
    else:
        o.ok("%d destroy call sites" % len(cs))
    o = ctx.ob("done.last", mc, "in fiber_mark_completed the DONE store is the last action: no hand-shake call (set_and_wait, clear_or_wait, "
               "schedule) can follow it", "a fiber marked DONE may be destroyed by whoever switches next; it must not block afterwards")
    dn = [s.node for s, v in state_stores(mc) if v == DONE]
    ctx.expect_count("DONE stores", len(dn), 1)
    hs = callpred("fiber_manager_set_and_wait", "fiber_manager_clear_or_wait", *SCHED)
    w = mc.find_path(dn[0], hs)
    o.check(w is None, "DONE is last", "a hand-shake call is reachable after the DONE store", site=dn[0], witness=w, construct="handshake after DONE")


def run(ctx):
    P = ctx.prog()
    check_infra(ctx, P)
    check_swap(ctx, P)
    check_slots(ctx, P)
    check_wait_sites(ctx, P)
    check_wake_sites(ctx, P)
    check_states(ctx, P)
    stale.check_stale(ctx, P, rule="stale")
    check_notouch(ctx, P)
    check_done(ctx, P)


CORE_PREFIXES = ("infra.", "swap.", "slots.", "states", "skip", "wake.ready", "wake.census", "wait.census", "done.")


def core_dependency(ctx, P, rule, fns, what, why, prefixes=()):
    """The C01 obligations on the context-switch core and on the blocking / waking functions `fns` a primitive is built on are
    obligations of that primitive's property too: they are evaluated here and a failure is reported under `rule`."""
    import check as _chk
    if getattr(ctx, "nested", False):
        return          # evaluated as somebody's dependency: C01 is reported where the dependent property is checked itself
    sub = _chk.Ctx("C01", ctx.tier, ctx.seed)
    sub._progs = ctx._progs
    sub.config = ctx.config
    try:
        run(sub)
    except AnalysisBroken as e:
        ctx.deferred_broken = "dependency C01: %s" % e
    o = ctx.ob(rule, "", "the context-switch core (maintenance directly behind every switch, deferred-publication slots, state discipline) and the "
               "hand-off of %s satisfy the C01 rules" % what, why)
    pre = CORE_PREFIXES + tuple(prefixes)
    fails = [x for x in sub.obs if x.status == "fail" and (x.rule.startswith(pre) or x.fn in fns)]
    if getattr(ctx, "deferred_broken", None) and not fails:
        o.ok("(dependency not fully analysable: %s)" % ctx.deferred_broken)
        return
    if fails:
        x = fails[0]
        o.fail("C01.%s%s: %s" % (x.rule, (" in " + x.fn) if x.fn else "", x.found), site=x.sites[0] if x.sites else None, witness=x.witness,
               construct="C01 dependency: " + (x.construct or x.rule))
    else:
        o.ok("%d C01 obligations on the core and on %d functions discharged" % (len([x for x in sub.obs if x.rule.startswith(pre) or x.fn in fns]), len(fns)))


def thorough(ctx):
    """the libev event engine (selectable with -DFIBER_USE_NATIVE_EVENTS=OFF; not built by the pinned configuration):
    its two wait sites use mechanism 4 on the loop spinlock, and its wake callbacks run only inside ev_run(), which is
    called only with that lock held"""
    P = ctx.prog("pinned", siblings=True)
    EV = "src/fiber_event_ev.c"
    if EV + ":fiber_sleep" not in P.functions and not any(f.relfile == EV for f in P.fn_list):
        return {}
    ctx.config = "pinned+libev-sibling"
    by = {f.name: f for f in P.fn_list if f.relfile == EV}
    for name in ("fiber_wait_for_event", "fiber_sleep"):
        fn = by.get(name)
        if fn is None:
            raise AnalysisBroken("libev sibling: %s not found" % name)
        o = ctx.ob("wait.4@ev", fn, MECH_REQ[4], MECH_WHY[4])
        bad = None
        locks = [c for c in fn.calls("fiber_spinlock_lock")]
        ys = fn.calls(YIELD)
        wst = [s_.node for s_, v in state_stores(fn) if v == WAITING]
        slots = [x for x in fn.stores_to("fiber_manager", "spinlock_to_unlock")]
        reg = fn.calls(("ev_io_start", "ev_timer_start"))
        if not locks or not ys or not wst or not slots or not reg:
            bad = "shape not recognised"
        else:
            lk = fn.key(fn.args(locks[0])[0], resolve=True)
            if fn.calls(UNLOCKS):
                bad = "the wait site releases a lock itself"
            for x in slots:
                if fn.key(x.value, True) != lk:
                    bad = bad or "the lock handed to the successor is not the one taken"
            for n in wst + reg + [x.node for x in slots]:
                if fn.dominated_by(n, nodeset(locks)) is not None:
                    bad = bad or "`%s` happens without the loop lock" % n.text[:40]
                if any(fn.dominated_by(y, nodeset([n])) is not None for y in ys):
                    bad = bad or "the yield is reachable without `%s`" % n.text[:40]
        o.check(bad is None, "mechanism 4 on fiber_loop_spinlock", bad, site=fn.loc, construct="libev wait site " + name)
    o = ctx.ob("wake.4@ev", "", "ev_run (which invokes the wake callbacks fd_ready / timer_trigger) is called only with fiber_loop_spinlock held, "
               "and the callbacks mark the fiber READY before scheduling it and do not touch its stack-resident watcher afterwards",
               "the watcher lives on the sleeping fiber's stack")
    bad = None
    for fn in by.values():
        for c in fn.calls("ev_run"):
            lk = fn.calls(("fiber_spinlock_lock", "fiber_spinlock_trylock"))
            un = fn.calls("fiber_spinlock_unlock")
            if held_lock_ok(fn, c, lk, un) is not None:
                bad = bad or "ev_run in %s without the loop lock" % fn.name
    for name in ("fd_ready", "timer_trigger"):
        fn = by.get(name)
        if fn is None:
            bad = bad or name + " missing"
            continue
        sc = fn.calls(SCHED)
        rd = [s_.node for s_, v in state_stores(fn) if v == READY]
        if not sc or not rd or fn.dominated_by(sc[0], nodeset(rd)) is not None:
            bad = bad or "%s schedules before READY" % name
        wp = fn.params[1]["did"]
        for n in fn.nodes:
            if n.k == "MemberExpr" and n.arrow and strip(n.kids[0]).k == "DeclRefExpr" and strip(n.kids[0]).did == wp and sc:
                if fn.find_path(sc[0], lambda m: m is strip(n.kids[0])) is not None:
                    bad = bad or "%s reads the watcher after scheduling its fiber" % name
    o.check(bad is None, "ev_run under lock; callbacks READY -> schedule", bad, site=EV, construct="libev wake discipline")
    ctx.config = "pinned"
    return {}
