"""C08 — shimmed descriptor I/O behaves like the blocking POSIX call it replaces (structural part)."""
import itertools

from core import strip, is_field, key_str, key_mentions
from facts import AnalysisBroken
from rules import (field_load, nodeset, callpred, ev, Unevaluable, forced_edges, atom_from, one, some, base_var,
                   is_param_load, is_var_load, is_global_load, is_errno, summary_value, reachable_returns)
from props import c01

EXPLANATION = (
    "Decides, from the source of fiber_io.c / fiber_event_native.c: (bounds) no caller-supplied descriptor value outside "
    "[0, max_fd) can reach a subscript of the per-fd tables fd_info[] / wait_info[], followed inter-procedurally from the "
    "libc shims through fiber_fd_closed / fiber_wait_for_event, with assert() not counting (NDEBUG build); (block.table) "
    "should_block() enumerated over flag word x thread lock x descriptor class equals the specification table; (mode) "
    "F_SETFL and FIONBIO move the BLOCKING bit as a function of the non-blocking request in both directions; (template) "
    "all retrying shims agree on one template, checked by forcing the evaluable branch conditions under enumerated "
    "scenarios of (real result, errno, MSG_DONTWAIT, should_block, wait result): EAGAIN on a blocking descriptor is "
    "always followed by a wait and a retry, never returned; non-blocking requests never reach the wait; other errors are "
    "returned; a failed wait returns -1; the wait direction matches the call; arguments are forwarded unchanged; (fdcmp) "
    "descriptor 0 returned by the kernel is set up like any other; (fnptr) no call through an unresolved shim pointer; "
    "(close/event) close wakes the waiters with an error under the fd lock before the real close, the poller re-arms the "
    "remaining interest under the lock.  Byte-stream equality with a blocking run and epoll liveness are not decided.")
NOT_DECIDED = ["data arrives complete / in order / unduplicated (kernel behaviour + runtime values)",
               "a blocked fiber is always resumed when the descriptor becomes ready (epoll liveness, timing)",
               "multi-fiber readiness races beyond the structural lock rules"]
ASSUMPTIONS = ["a descriptor returned by a successful real socket/accept/pipe/socketpair/epoll_wait is in [0, RLIMIT_NOFILE)",
               "EWOULDBLOCK == EAGAIN on Linux"]

MAXFD = 10
BAD_FDS = [-1, -2147483648, MAXFD, MAXFD + 5, 2147483647]
GOOD_FDS = [0, MAXFD - 1]
TABLES = ("fd_info", "wait_info")
WAIT = "fiber_wait_for_event"

READ_SHIMS = {"read": "fd", "readv": "fd", "recv": "fd", "recvfrom": "sockfd", "recvmsg": "sockfd"}
WRITE_SHIMS = {"write": "fd", "writev": "fd", "send": "sockfd", "sendto": "sockfd", "sendmsg": "sockfd"}


def macro_values(P):
    out = {}
    for fn in P.unique_functions():
        if not fn.relfile.endswith(("fiber_io.c", "fiber_event_native.c")):
            continue
        for n in fn.nodes:
            if n.m and n.cv is not None and n.m not in out:
                out[n.m] = n.cv
    for need in ("EAGAIN", "MSG_DONTWAIT", "O_NONBLOCK", "F_SETFL", "FIONBIO", "FIBER_POLL_IN", "FIBER_POLL_OUT",
                 "IO_FLAG_BLOCKING", "IO_FLAG_WAITABLE", "EINPROGRESS"):
        if need not in out:
            raise AnalysisBroken("constant %s not found in the I/O units" % need)
    return out


def is_flags_load(n):
    return (n.k == "ImplicitCastExpr" and n.ck == "LValueToRValue" and strip(n) is not None
            and strip(n).k == "MemberExpr" and strip(n).field == "flags_")


def is_table_ptr_load(n):
    return (n.k == "ImplicitCastExpr" and n.ck == "LValueToRValue" and strip(n) is not None
            and strip(n).k == "DeclRefExpr" and strip(n).dk == "global" and strip(n).name in TABLES)


class Env:
    """Atoms shared by all evaluations: tables allocated, max_fd = MAXFD, event engine initialised."""

    def __init__(self, P, thread_locked=0, flags=3):
        self.P = P
        self.tl = thread_locked
        self.flags = flags

    def base(self, fn, extra):
        P = self.P
        env = self

        def atom(n):
            for p, v in extra:
                if p(n):
                    return v
            if is_table_ptr_load(n):
                return 1
            if n.k == "ImplicitCastExpr" and n.ck == "LValueToRValue":
                m = strip(n)
                if m is not None and m.k == "DeclRefExpr" and m.dk == "global":
                    if m.name == "max_fd":
                        return MAXFD
                    if m.name == "thread_locked":
                        return env.tl
                    if m.name == "event_fd":
                        return 3
            if is_flags_load(n):
                return env.flags
            if n.k == "CallExpr" and n.callee == "should_block":
                try:
                    v = ev(fn, fn.args(n)[0], atom)
                except Unevaluable:
                    return None
                return env.should_block(v)
            return None
        return atom

    def should_block(self, fdval):
        sb = self.P.fn("should_block")
        a = self.base(sb, [(is_param_load(sb, sb.params[0]["name"]), fdval)])
        return summary_value(sb, a)


def subscripts(P):
    out = []
    for fn in P.unique_functions():
        for n in fn.all(k="ArraySubscriptExpr"):
            b = strip(n.kids[0])
            if b is not None and b.k == "DeclRefExpr" and b.dk == "global" and b.name in TABLES:
                out.append((fn, n, b.name))
    return out


def param_index_of(fn, expr):
    """(param name) if expr's value is a parameter of fn (directly or through a single-def local)."""
    e = fn.resolve(expr)
    if e is not None and e.k == "DeclRefExpr" and e.dk == "param":
        return e.name
    return None


def unguarded_values(P, fn, target, pname, tls=(0, 1)):
    """Bad descriptor values of parameter `pname` under which `target` stays reachable (with witness)."""
    res = []
    for tl in tls:
        env = Env(P, thread_locked=tl)
        for v in BAD_FDS:
            atom = env.base(fn, [(is_param_load(fn, pname), v)])
            w = fn.find_path("entry", lambda n: n is target, edge_ok=forced_edges(fn, atom))
            if w is not None:
                res.append((v, tl, w))
    return res


def is_shim_entry(fn):
    return fn.relfile.endswith("src/fiber_io.c") and not fn.d.get("static")


def trace(P, fn, target, pname, depth, chain):
    """Return a violation (message, site, witness) if a bad value of fn's parameter reaches target through
    some entry point, else None.  `chain` describes the path through the call graph so far."""
    ug = unguarded_values(P, fn, target, pname)
    if not ug:
        return None
    v, tl, w = ug[0]
    here = "%s(%s=%d)" % (fn.name, pname, v)
    if is_shim_entry(fn):
        return ("%s%s reaches `%s` with no range check (thread_locked=%d)" % (here, "".join(" -> " + c for c in chain), chain_target_text(chain, target), tl),
                target, w, fn.name)
    if depth <= 0:
        return None
    idx = [i for i, p in enumerate(fn.params) if p["name"] == pname][0]
    callers = P.callers_of(fn.name)
    for g, c in callers:
        a = g.args(c)[idx]
        q = param_index_of(g, a)
        if q is None:
            continue  # value not derived from a caller-supplied parameter: kernel-provided descriptor
        r = trace(P, g, c, q, depth - 1, [fn.name] + chain)
        if r:
            return r
    return None


def chain_target_text(chain, target):
    return target.text if target is not None else "?"


def check_bounds(ctx, P):
    subs = subscripts(P)
    ctx.expect_count("subscripts of fd_info/wait_info", len(subs), 8)
    trusted = []
    for fn, n, tab in subs:
        o = ctx.ob("bounds", fn, "the subscript `%s` of %s[] is unreachable for caller-supplied descriptor values outside [0, max_fd) "
                   "(two-sided check, in the function or at every call site up to the libc shims; assert() does not count)" % (n.text, tab),
                   "a negative or too large fd indexes the calloc()ed table out of bounds: wild read/write or SIGSEGV instead of EBADF")
        p = param_index_of(fn, n.kids[1])
        if p is None:
            trusted.append("%s: %s" % (fn.name, n.text))
            o.ok("index `%s` is not caller-supplied (kernel-provided descriptor: assumption)" % n.kids[1].text, [n])
            continue
        r = trace(P, fn, n, p, 3, [])
        if r:
            o.fail(r[0], site=n, witness=r[2], construct="unchecked fd index %s[%s] via %s" % (tab, p, r[3]))
        else:
            o.ok("guarded for all out-of-range values %s" % BAD_FDS, [n])
    ctx.derived["trusted_indices"] = trusted


def check_block_table(ctx, P, MV):
    sb = P.fn("should_block")
    B, W = MV["IO_FLAG_BLOCKING"], MV["IO_FLAG_WAITABLE"]
    o = ctx.ob("block.table", sb, "should_block(fd) is 1 exactly when the thread is not I/O-locked, fd is in range, and the descriptor is "
               "both managed (WAITABLE) and in blocking mode (BLOCKING)",
               "any-of instead of both: a descriptor switched to O_NONBLOCK (BLOCKING cleared, WAITABLE set) still suspends the "
               "caller instead of returning EAGAIN; an unmanaged descriptor would be waited on although it is not non-blocking underneath")
    bad = None
    cases = 0
    for flags, tl, fd in itertools.product((0, B, W, B | W), (0, 1), GOOD_FDS + BAD_FDS):
        env = Env(P, thread_locked=tl, flags=flags)
        got = env.should_block(fd)
        want = 1 if (flags == (B | W) and tl == 0 and 0 <= fd < MAXFD) else 0
        cases += 1
        if got is None:
            sbf = P.fn("should_block")
            a0 = env.base(sbf, [(is_param_load(sbf, sbf.params[0]["name"]), fd)])
            if not reachable_returns(sbf, a0) and want == 0:
                continue  # debug configuration: assert(fd >= 0) aborts instead of returning - it does not report 'block'
            raise AnalysisBroken("should_block: result not a unique constant for flags=%d tl=%d fd=%d" % (flags, tl, fd))
        if got != want:
            bad = bad or "flags=%s thread_locked=%d fd=%d: should_block returns %d, specification says %d" % (
                {0: "0", B: "BLOCKING", W: "WAITABLE", B | W: "BLOCKING|WAITABLE"}[flags], tl, fd, got, want)
    if bad:
        o.fail(bad, site=sb.loc, construct="should_block table")
    else:
        o.ok("%d cases" % cases)


def check_mode(ctx, P, MV):
    B = MV["IO_FLAG_BLOCKING"]
    NB = MV["O_NONBLOCK"]
    for name, kind in (("fcntl", "F_SETFL"), ("ioctl", "FIONBIO")):
        fn = P.fn(name)
        o = ctx.ob("mode", fn, "%s(%s) clears the BLOCKING bit when non-blocking mode is requested and sets it when it is not — for every "
                   "argument value, not just the bare flag" % (name, kind),
                   "a descriptor whose mode cannot be switched back (or is switched only for one exact argument value) blocks when it "
                   "must return EAGAIN, or returns EAGAIN although the user asked for blocking mode")
        clr = [s.node for s in fn.stores() if s.aop in ("fetch_and",) and is_field(fn.target_key(s.target), None, "flags_")]
        st = [s.node for s in fn.stores() if s.aop in ("fetch_or",) and is_field(fn.target_key(s.target), None, "flags_")]
        bad = None
        if name == "fcntl":
            vals = [(0, False), (NB, True), (NB | 0o2000, True), (0o2000, False)]  # O_APPEND = 02000
            isval = is_var_load(_vaarg_local(fn))
            for v, nonblock in vals:
                env = Env(P)
                atom = env.base(fn, [(is_param_load(fn, "cmd"), MV["F_SETFL"]), (isval, v), (is_param_load(fn, "fd"), 3)])
                e = forced_edges(fn, atom)
                rc = any(fn.find_path("entry", lambda n, c=c: n is c, edge_ok=e) for c in clr)
                rs = any(fn.find_path("entry", lambda n, c=c: n is c, edge_ok=e) for c in st)
                if nonblock and not rc:
                    bad = bad or "F_SETFL with val=%#o (O_NONBLOCK set): the BLOCKING bit is not cleared" % v
                if nonblock and rs:
                    bad = bad or "F_SETFL with val=%#o (O_NONBLOCK set): the BLOCKING bit is set" % v
                if not nonblock and not rs:
                    bad = bad or "F_SETFL with val=%#o (O_NONBLOCK clear): the BLOCKING bit is never set again" % v
                if not nonblock and rc:
                    bad = bad or "F_SETFL with val=%#o (O_NONBLOCK clear): the BLOCKING bit is cleared" % v
        else:
            # *(int*)val: the pointed-to request
            isreq = lambda n: (n.k == "ImplicitCastExpr" and n.ck == "LValueToRValue" and strip(n) is not None
                               and strip(n).k == "UnaryOperator" and strip(n).op == "*")
            isvalp = is_var_load(_vaarg_local(fn))
            for v, nonblock in ((0, False), (1, True), (5, True)):
                env = Env(P)
                atom = env.base(fn, [(is_param_load(fn, "request"), MV["FIONBIO"]), (isreq, v), (isvalp, 4096), (is_param_load(fn, "d"), 3)])
                e = forced_edges(fn, atom)
                rc = any(fn.find_path("entry", lambda n, c=c: n is c, edge_ok=e) for c in clr)
                rs = any(fn.find_path("entry", lambda n, c=c: n is c, edge_ok=e) for c in st)
                if nonblock and (not rc or rs):
                    bad = bad or "FIONBIO with *arg=%d: BLOCKING bit not cleared" % v
                if not nonblock and (not rs or rc):
                    bad = bad or "FIONBIO with *arg=%d: BLOCKING bit not set" % v
        if bad:
            o.fail(bad, site=fn.loc, construct="%s mode table" % name)
        else:
            o.ok("both directions")


def real_calls(fn, name):
    out = []
    for c in fn.calls():
        if c.indirect:
            k = fn.key(c.kids[0])
            if k == ("glob", "fibershim_" + name):
                out.append(c)
    return out


def shim_atoms(P, fn, real, fdname, MV, ret, errno, flags, sb, w, tl=0):
    # the variable that receives the real call's result
    rv = None
    for c in real:
        p = c.parent
        while p is not None and p.k in ("ImplicitCastExpr", "ParenExpr", "CStyleCastExpr"):
            p = p.parent
        if p is not None and p.k == "DeclStmt":
            rv = p.d["decls"][0]["did"]
        elif p is not None and p.k == "BinaryOperator" and p.op == "=":
            t = strip(p.kids[0])
            if t.k == "DeclRefExpr":
                rv = t.did
    if rv is None:
        raise AnalysisBroken("%s: result variable of the real call not found" % fn.name)
    extra = [(is_var_load(rv), ret), (is_errno, errno),
             (lambda n: n.k == "CallExpr" and n.callee == "should_block", sb),
             (lambda n: n.k == "CallExpr" and n.callee == WAIT, w)]
    if any(p["name"] == "flags" for p in fn.params):
        extra.append((is_param_load(fn, "flags"), flags))
    env = Env(P, thread_locked=tl)
    return env.base(fn, extra), rv


def check_template(ctx, P, MV):
    EAGAIN, DONTWAIT = MV["EAGAIN"], MV["MSG_DONTWAIT"]
    IN, OUT = MV["FIBER_POLL_IN"], MV["FIBER_POLL_OUT"]
    shims = [(n, f, IN) for n, f in READ_SHIMS.items()] + [(n, f, OUT) for n, f in WRITE_SHIMS.items()] + [("accept", "sockfd", IN)]
    for name, fdname, direction in shims:
        fn = P.fn(name)
        real = real_calls(fn, name)
        waits = fn.calls(WAIT)
        o = ctx.ob("template", fn, "retry template: EAGAIN on a descriptor that should block is never returned — every real call that fails "
                   "with EAGAIN is followed by a wait and another real call; MSG_DONTWAIT / non-blocking descriptors never reach the wait; "
                   "other errors are returned without retrying; a failed wait returns -1; wait direction = %s; arguments forwarded unchanged"
                   % ("IN" if direction == IN else "OUT"),
                   "a shim that retries once (`if`) returns EAGAIN from a blocking descriptor when a second fiber consumed the event; one "
                   "that waits although MSG_DONTWAIT/O_NONBLOCK was requested blocks a non-blocking call")
        if not real or not waits:
            o.fail("shim shape not recognised: %d real call(s), %d wait(s)" % (len(real), len(waits)), site=fn.loc, construct="no real call / wait")
            continue
        isreal, iswait = nodeset(real), nodeset(waits)
        both = lambda n: isreal(n) or iswait(n)
        bad = None
        hasflags = any(p["name"] == "flags" for p in fn.params)
        # R1: EAGAIN on a blocking fd
        atom, rv = shim_atoms(P, fn, real, fdname, MV, -1, EAGAIN, 0, 1, 1)
        e = forced_edges(fn, atom)
        for rc in real:
            w = fn.find_path(rc, "exit", barrier=both, edge_ok=e)
            if w is not None:
                bad = bad or ("the real call at %s failing with EAGAIN on a blocking descriptor can return to the caller without waiting and retrying" % rc.loc,
                              rc, w, "EAGAIN returned from blocking fd")
        for wc in waits:
            w = fn.find_path(wc, "exit", barrier=isreal, edge_ok=e)
            if w is not None:
                bad = bad or ("after a successful wait the call is not retried", wc, w, "no retry after wait")
        # success returns the real result
        atom2, _ = shim_atoms(P, fn, real, fdname, MV, 5, 0, 0, 1, 1)
        e2 = forced_edges(fn, atom2)
        for rc in real:
            if fn.find_path(rc, "exit", barrier=both, edge_ok=e2) is None:
                bad = bad or ("a successful real call at %s cannot return" % rc.loc, rc, None, "success does not return")
        for r in fn.returns():
            v = strip(r.kids[0]) if r.kids else None
            if v is None:
                continue
            if v.k == "DeclRefExpr" and v.did == rv:
                continue
            if r.kids[0].cv == -1 or v.cv == -1:
                continue
            bad = bad or ("`%s` returns neither the real call's result nor -1" % r.text, r, None, "foreign return value")
        # R2: non-blocking requests never wait
        scen = [("should_block()==0", (-1, EAGAIN, 0, 0, 1))]
        if hasflags:
            scen.append(("MSG_DONTWAIT", (-1, EAGAIN, DONTWAIT, 1, 1)))
        for label, (ret, er, fl, sb, wv) in scen:
            a, _ = shim_atoms(P, fn, real, fdname, MV, ret, er, fl, sb, wv)
            w = fn.find_path("entry", iswait, edge_ok=forced_edges(fn, a))
            if w is not None:
                bad = bad or ("with %s the shim still reaches fiber_wait_for_event" % label, waits[0], w, "wait on non-blocking request (%s)" % label)
            # and EAGAIN is returned, not retried for ever
            for rc in real:
                w = fn.find_path(rc, isreal, barrier=None, edge_ok=forced_edges(fn, a))
                if w is not None and name not in ("accept",):
                    bad = bad or ("with %s the real call is retried in a loop" % label, rc, w, "busy retry (%s)" % label)
        # other errors are returned
        a, _ = shim_atoms(P, fn, real, fdname, MV, -1, 9, 0, 1, 1)  # EBADF
        for rc in real:
            w = fn.find_path(rc, both, edge_ok=forced_edges(fn, a))
            if w is not None:
                bad = bad or ("an error other than EAGAIN (errno=EBADF) is followed by a wait/retry", rc, w, "retry on hard error")
        # R4: failed wait returns -1
        a, _ = shim_atoms(P, fn, real, fdname, MV, -1, EAGAIN, 0, 1, 0)
        e4 = forced_edges(fn, a)
        for wc in waits:
            w = fn.find_path(wc, isreal, edge_ok=e4)
            if w is not None:
                bad = bad or ("after a failed wait (descriptor closed) the real call is issued again", wc, w, "real call after failed wait")
            for r in fn.returns():
                if fn.find_path(wc, lambda n, r=r: n is r, barrier=both, edge_ok=e4) is not None:
                    if not (r.kids and (r.kids[0].cv == -1 or strip(r.kids[0]).cv == -1)):
                        bad = bad or ("a failed wait leads to `%s`, not to return -1" % r.text, r, None, "failed wait not -1")
        # R3: direction and descriptor
        for wc in waits:
            a0, a1 = fn.args(wc)
            if a1.cv != direction:
                bad = bad or ("waits for %s, the call needs %s" % ("IN" if a1.cv == IN else "OUT" if a1.cv == OUT else a1.text,
                                                                  "IN" if direction == IN else "OUT"), wc, None, "wrong wait direction")
            if param_index_of(fn, a0) != fdname:
                bad = bad or ("waits on `%s`, not on the call's descriptor" % a0.text, wc, None, "wait on other descriptor")
        # R5: arguments forwarded unchanged
        pn = [p["name"] for p in fn.params]
        for rc in real:
            an = [param_index_of(fn, a) for a in fn.args(rc)]
            if an != pn:
                bad = bad or ("real call arguments %s differ from the shim's parameters %s" % (an, pn), rc, None, "arguments not forwarded")
        # should_block is asked about the call's own descriptor
        for c in fn.calls("should_block"):
            if param_index_of(fn, fn.args(c)[0]) != fdname:
                bad = bad or ("should_block(%s) asks about another descriptor" % fn.args(c)[0].text, c, None, "should_block other fd")
        if bad:
            o.fail(bad[0], site=bad[1], witness=bad[2], construct=bad[3])
        else:
            o.ok("%d real call(s), %d wait(s)" % (len(real), len(waits)), real)

    # connect: EINPROGRESS template
    fn = P.fn("connect")
    o = ctx.ob("template.connect", fn, "connect: EINPROGRESS on a blocking descriptor waits for OUT once and then reports SO_ERROR; a non-blocking "
               "descriptor returns EINPROGRESS unchanged; a failed wait returns -1",
               "returning EINPROGRESS from a blocking connect, or success without reading SO_ERROR, misreports the connection state")
    real = real_calls(fn, "connect")
    waits = fn.calls(WAIT)
    bad = None
    if not real or not waits:
        bad = ("shape not recognised", fn.loc, None, "connect shape")
    else:
        iswait = nodeset(waits)
        a, rv = shim_atoms(P, fn, real, "sockfd", MV, -1, MV["EINPROGRESS"], 0, 1, 1)
        e = forced_edges(fn, a)
        if fn.find_path(real[0], "exit", barrier=iswait, edge_ok=e) is not None:
            bad = ("EINPROGRESS on a blocking descriptor is returned without waiting", real[0], None, "connect no wait")
        gs = fn.calls("getsockopt")
        if not gs or fn.find_path(waits[0], "exit", barrier=nodeset(gs), edge_ok=e) is not None:
            bad = bad or ("after the wait the result is reported without reading SO_ERROR", waits[0], None, "connect no SO_ERROR")
        a, _ = shim_atoms(P, fn, real, "sockfd", MV, -1, MV["EINPROGRESS"], 0, 0, 1)
        if fn.find_path("entry", iswait, edge_ok=forced_edges(fn, a)) is not None:
            bad = bad or ("a non-blocking connect waits", waits[0], None, "connect waits on non-blocking")
        if fn.args(waits[0])[1].cv != MV["FIBER_POLL_OUT"]:
            bad = bad or ("connect waits for IN", waits[0], None, "connect direction")
        # EAGAIN: the kernel's answer to a non-blocking AF_UNIX connect whose listener has a full backlog (a blocking connect would wait)
        a, rv = shim_atoms(P, fn, real, "sockfd", MV, -1, MV["EAGAIN"], 0, 1, 1)
        e = forced_edges(fn, a)
        susp = nodeset(waits + fn.calls(("fiber_sleep", "fiber_yield", "fiber_manager_yield")))
        for rc_ in real:
            if fn.find_path(rc_, "exit", barrier=lambda n: susp(n) or (n is not rc_ and any(n is x for x in real)), edge_ok=e) is not None:
                bad = bad or ("the real connect failing with EAGAIN on a blocking descriptor (full backlog of an AF_UNIX listener) is returned to the caller "
                              "instead of suspending the fiber and retrying", rc_, None, "connect EAGAIN passed on")
    if bad:
        o.fail(bad[0], site=bad[1], witness=bad[2], construct=bad[3])
    else:
        o.ok("EINPROGRESS template")


def check_fdcmp(ctx, P, MV):
    for name in ("socket", "accept"):
        fn = P.fn(name)
        real = real_calls(fn, name)
        setups = fn.calls("setup_socket")
        o = ctx.ob("fdcmp", fn, "every descriptor >= 0 returned by the real %s is set up (non-blocking underneath, flags recorded), including 0" % name,
                   "a one-sided `> 0` test leaves descriptor 0 unmanaged: blocking I/O on it stalls the whole kernel thread")
        if not real or not setups:
            o.fail("shape not recognised", site=fn.loc, construct="no setup")
            continue
        bad = None
        for v in (0, 1, 7):
            a, rv = shim_atoms(P, fn, real, "sockfd", MV, v, 0, 0, 1, 1)
            if not any(fn.find_path(real[-1], lambda n, s=s: n is s, edge_ok=forced_edges(fn, a)) for s in setups):
                bad = bad or "descriptor %d returned by the kernel is not passed to setup_socket" % v
        a, rv = shim_atoms(P, fn, real, "sockfd", MV, -1, 9, 0, 1, 1)
        if any(fn.find_path(real[-1], lambda n, s=s: n is s, barrier=nodeset(real), edge_ok=forced_edges(fn, a)) for s in setups):
            bad = bad or "setup_socket is reached with the error result -1"
        if bad:
            o.fail(bad, site=setups[0], construct="fd comparison in " + name)
        else:
            o.ok("0, 1, 7 set up; -1 not")


def check_fnptr(ctx, P):
    n = 0
    inits = {}
    for fn in P.unique_functions():
        if not fn.name.endswith("_init"):
            continue
        for s in fn.stores():
            k = fn.target_key(s.target)
            if k[0] == "glob" and k[1].startswith("fibershim_"):
                inits.setdefault((fn.relfile, k[1]), []).append((fn, s))
    for fn in P.unique_functions():
        ind = [c for c in fn.calls() if c.indirect and fn.key(c.kids[0])[0] == "glob" and fn.key(c.kids[0])[1].startswith("fibershim_")]
        for c in ind:
            n += 1
            g = fn.key(c.kids[0])[1]
            o = ctx.ob("fnptr", fn, "the call through `%s` cannot be reached with the pointer still NULL: a store to it, or a non-NULL test of it, "
                       "lies on every path (or the pointer is set unconditionally by the unit's init function)" % g,
                       "the shims can be entered before fiber_io_init (any libc call in a static constructor): a NULL function pointer call crashes")
            stores = nodeset([s.node for s in fn.stores() if fn.target_key(s.target) == ("glob", g)])

            def edge_ok(b, idx, fn=fn, g=g):
                ec = fn.edge_cond(b, idx)
                if ec is None:
                    return True
                leaf, pol = ec
                l = strip(leaf)
                if l.k == "DeclRefExpr" and l.name == g and pol is True:
                    return False
                return True
            w = fn.find_path("entry", lambda m: m is c, barrier=stores, edge_ok=edge_ok)
            if w is None:
                o.ok("lazy resolution dominates the call", [c])
            elif (fn.relfile, g) in inits and _behind_init_flag(P, fn, c, g, inits[(fn.relfile, g)][0][0]):
                # guarded by the unit's "initialised" flag (event_fd >= 0), which the init function stores only after the pointer
                o.ok("reached only with event_fd >= 0, which %s stores after resolving the pointer" % inits[(fn.relfile, g)][0][0].name, [c])
            elif (fn.relfile, g) in inits and fn.d.get("static"):
                # an internal helper of the unit whose init function resolves the pointer; the libc
                # overrides themselves can be entered before any init and must resolve lazily
                o.ok("internal helper; pointer set by %s" % inits[(fn.relfile, g)][0][0].name, [c])
            else:
                o.fail("`%s` can be reached while `%s` is still NULL" % (c.text, g), site=c, witness=w, construct="call through unresolved " + g)
    ctx.expect_count("calls through fibershim_* pointers", n, 20)


def _behind_init_flag(P, fn, call, g, initfn, flag="event_fd"):
    """the call is unreachable while the unit's init flag still has its initial value (-1), and the init function stores the flag on every
    path only after it stored the function pointer `g`"""
    isflag = lambda n: n.k == "ImplicitCastExpr" and n.ck == "LValueToRValue" and strip(n) is not None and strip(n).k == "DeclRefExpr" and strip(n).dk == "global" and strip(n).name == flag
    if not any(isflag(n) for n in fn.nodes):
        return False
    if fn.find_path("entry", lambda m: m is call, edge_ok=forced_edges(fn, atom_from([(isflag, -1)]))) is not None:
        return False
    fl = [s_.node for s_ in initfn.stores() if initfn.target_key(s_.target) == ("glob", flag)]
    ps = [s_.node for s_ in initfn.stores() if initfn.target_key(s_.target) == ("glob", g)]
    if not fl or not ps:
        return False
    return all(initfn.dominated_by(f_, nodeset(ps)) is None for f_ in fl)


def check_close_event(ctx, P, MV):
    cl = P.fn("close")
    real = real_calls(cl, "close")
    o = ctx.ob("close.order", cl, "close() tells the event engine (fiber_fd_closed) before the real close and clears the descriptor's flag byte",
               "closing first lets the kernel reuse the number while waiters of the old descriptor are still registered; stale flags make "
               "the next owner of the number inherit a wrong mode")
    fc = cl.calls("fiber_fd_closed")
    clr = [s.node for s in cl.stores() if is_field(cl.target_key(s.target), None, "flags_") and s.value is not None and strip(s.value).cv == 0]
    bad = None
    if not real or not fc:
        bad = ("close does not call fiber_fd_closed / the real close", cl.loc, None)
    else:
        # for an in-range descriptor the notification must precede the real close — whatever mode the descriptor is in
        # *now* (waiters may have registered while it was still in blocking mode) and whether or not this thread is I/O-locked
        for flags in (0, MV["IO_FLAG_BLOCKING"], MV["IO_FLAG_WAITABLE"], MV["IO_FLAG_BLOCKING"] | MV["IO_FLAG_WAITABLE"]):
            for tl in (0, 1):
                env = Env(P, thread_locked=tl, flags=flags)
                atom = env.base(cl, [(is_param_load(cl, "fd"), 3)])
                e = forced_edges(cl, atom)
                w = cl.find_path("entry", nodeset(real), barrier=nodeset(fc), edge_ok=e)
                if w is not None:
                    bad = bad or ("the real close is reachable without fiber_fd_closed for a valid descriptor (flag word %d, thread_locked=%d): fibers that "
                                  "registered earlier are never woken and the stale epoll registration is inherited by the next owner of the number" % (flags, tl), real[0], w)
                if not clr or cl.find_path("entry", "exit", barrier=nodeset(clr), edge_ok=e) is not None:
                    bad = bad or ("the flag byte of a valid descriptor is not cleared on close (flag word %d)" % flags, cl.loc, None)
        for r in cl.returns():
            if not (r.kids and any(m in real for m in r.kids[0].walk())) and not (r.kids and strip(r.kids[0]).k == "DeclRefExpr"):
                pass
    if bad:
        o.fail(bad[0], site=bad[1], witness=bad[2], construct="close order")
    else:
        o.ok("fiber_fd_closed -> flags cleared -> real close")
    fd = P.fn("fiber_fd_closed")
    o = ctx.ob("close.wake", fd, "fiber_fd_closed removes the descriptor from epoll and wakes every waiter with an error result, under the fd spinlock",
               "a fiber blocked on a descriptor that is closed would otherwise sleep for ever")
    locks, unl = fd.calls("fiber_spinlock_lock"), fd.calls("fiber_spinlock_unlock")
    wk = fd.calls("fiber_event_wake_waiters")
    bad = None
    if not wk or not locks:
        bad = ("no wake / no lock", fd.loc, None)
    else:
        a = fd.args(wk[0])
        if len(a) < 3 or a[2].cv in (None, 0):
            bad = ("waiters are woken with result `%s`, which fiber_wait_for_event reads as success" % (a[2].text if len(a) > 2 else "?"), wk[0], None)
        w = fd.dominated_by(wk[0], nodeset(locks))
        if w is not None:
            bad = bad or ("waiters woken without the fd lock", wk[0], w)
        for l in locks:
            w = fd.always_followed_by(l, nodeset(unl))
            if w is not None:
                bad = bad or ("fd lock not released", l, w)
        env = Env(P)
        atom = env.base(fd, [(is_param_load(fd, "fd"), 3)])
        if fd.find_path("entry", "exit", barrier=nodeset(wk), edge_ok=forced_edges(fd, atom)) is not None:
            bad = bad or ("a path skips waking the waiters", fd.loc, None)
        dels = [c for c in fd.calls("epoll_ctl") if fd.args(c)[1].cv == 2]  # EPOLL_CTL_DEL
        if not dels:
            bad = bad or ("the descriptor is not removed from epoll", fd.loc, None)
    if bad:
        o.fail(bad[0], site=bad[1], witness=bad[2], construct="fd_closed wake")
    else:
        o.ok("DEL + wake(-1) under lock")
    # waiter result written before it is scheduled; wait reports it
    ww = P.fn("fiber_event_wake_waiters")
    o = ctx.ob("event.result", ww, "the wake result is stored in the waiter's scratch before it is scheduled; fiber_wait_for_event returns ERROR iff it is non-zero",
               "a result written after the schedule races with the woken fiber reading it")
    sc = ww.calls(("fiber_manager_schedule", "fiber_scheduler_schedule"))
    rs = [s for s in ww.stores_to("fiber", "scratch") if s.value is not None and param_index_of(ww, s.value) == "result"]
    bad = None
    if not sc or not rs:
        bad = ("result store / schedule not found", ww.loc, None)
    else:
        w = ww.dominated_by(sc[0], nodeset([s.node for s in rs]))
        if w is not None:
            bad = ("schedule reachable before the result is stored", sc[0], w)
        for s in ww.stores_to("fiber", "scratch"):
            if ww.find_path(rs[0].node, lambda n, s=s: n is s.node, barrier=nodeset(sc)) is not None and s is not rs[0]:
                bad = bad or ("the result is overwritten before the schedule", s.node, None)
    if bad:
        o.fail(bad[0], site=bad[1], witness=bad[2], construct="event result order")
    else:
        o.ok("result stored before schedule")
    # poller: re-arm remaining interest with ONESHOT under the lock
    pi = P.fn("fiber_poll_events_internal")
    o = ctx.ob("event.rearm", pi, "the poller clears the fired events from the descriptor's mask, re-arms the remaining interest (EPOLLONESHOT | mask) "
               "only if it is non-zero, and wakes the waiters, all under the fd spinlock",
               "with ONESHOT the descriptor is disarmed after one event: a reader and a writer waiting on one descriptor — the one whose "
               "event has not fired yet is never woken unless the remaining interest is re-armed")
    locks, unl = pi.calls("fiber_spinlock_lock"), pi.calls("fiber_spinlock_unlock")
    mods = [c for c in pi.calls("epoll_ctl")]
    wk = pi.calls("fiber_event_wake_waiters")
    bad = None
    if not locks or not mods or not wk:
        bad = ("shape not recognised", pi.loc, None)
    else:
        for c in mods + wk:
            w = pi.dominated_by(c, nodeset(locks))
            if w is not None:
                bad = bad or ("`%s` outside the fd lock" % c.text[:40], c, w)
        isev = field_load("events", "fd_wait_info")
        a0 = atom_from([(isev, 0)])
        a1 = atom_from([(isev, 1)])
        if any(pi.find_path(locks[0], lambda n, c=c: n is c, edge_ok=forced_edges(pi, a0)) for c in mods):
            bad = bad or ("re-arms although no interest remains", mods[0], None)
        if not any(pi.find_path(locks[0], lambda n, c=c: n is c, edge_ok=forced_edges(pi, a1)) for c in mods):
            bad = bad or ("does not re-arm the remaining interest", mods[0], None)
        oneshot = [n for n in pi.nodes if n.m == "EPOLLONESHOT"]
        if not oneshot:
            bad = bad or ("re-arm without EPOLLONESHOT", mods[0], None)
    if bad:
        o.fail(bad[0], site=bad[1], witness=bad[2], construct="poller re-arm")
    else:
        o.ok("mask update, guarded re-arm, wake — under the lock")
    we = P.fn(WAIT)
    o = ctx.ob("event.arm", we, "fiber_wait_for_event arms the descriptor (ADD first time, MOD afterwards) with EPOLLONESHOT and the requested direction "
               "after taking the fd lock, and reports ERROR iff the wake result is non-zero",
               "arming before registering under the lock loses an event that fires in between")
    locks = we.calls("fiber_spinlock_lock")
    ctl = we.calls("epoll_ctl")
    bad = None
    if not locks or len(ctl) < 2:
        bad = ("shape not recognised", we.loc, None)
    else:
        for c in ctl:
            w = we.dominated_by(c, nodeset(locks))
            if w is not None:
                bad = bad or ("epoll_ctl outside the fd lock", c, w)
        ops = sorted(we.args(c)[1].cv for c in ctl)
        if ops != [1, 3]:
            bad = bad or ("expected one EPOLL_CTL_ADD and one EPOLL_CTL_MOD, found ops %s" % ops, ctl[0], None)
        y = we.calls("fiber_manager_yield")
        w = we.dominated_by(y[0], nodeset(ctl)) if y else ["no yield"]
        if w is not None:
            bad = bad or ("the fiber sleeps without the descriptor having been armed", y[0] if y else we.loc, w)
    if bad:
        o.fail(bad[0], site=bad[1], witness=bad[2] if isinstance(bad[2], list) else None, construct="wait_for_event arm")
    else:
        o.ok("ADD/MOD under lock before yield")


def check_setup(ctx, P, MV):
    B, W = MV["IO_FLAG_BLOCKING"], MV["IO_FLAG_WAITABLE"]
    ss = P.fn("setup_socket")
    o = ctx.ob("setup", ss, "a descriptor created through the shims is made non-blocking underneath (real fcntl F_SETFL O_NONBLOCK) and recorded as managed and "
               "in blocking mode (BLOCKING|WAITABLE) — unless the thread is I/O-locked, in which case neither happens",
               "recorded as managed but still blocking underneath: the next read blocks the whole kernel thread and every fiber on it; made non-blocking "
               "but not recorded: blocking-mode calls return EAGAIN")
    bad = None
    ors = [x for x in ss.stores() if x.aop == "fetch_or" and is_field(ss.target_key(x.target), None, "flags_")]
    fc = [c for c in ss.calls() if c.indirect and ss.key(c.kids[0]) == ("glob", "fibershim_fcntl")]
    if len(ors) != 1 or len(fc) != 1:
        bad = "expected one flags_ |= and one real fcntl call"
    else:
        if strip(ors[0].value).cv != (B | W):
            bad = "flags recorded are `%s`" % ors[0].value.text
        if param_index_of(ss, strip(ors[0].target).kids[0].kids[1] if strip(ors[0].target).kids[0].k == "ArraySubscriptExpr" else ss.nodes[0]) != "sock":
            k = ss.target_key(ors[0].target)
            if not key_mentions(k, lambda x: x[0] == "var" and x[1] == "sock"):
                bad = bad or "the flags of another descriptor are set"
        a = ss.args(fc[0])
        if param_index_of(ss, a[0]) != "sock" or a[1].cv != MV["F_SETFL"] or a[2].cv != MV["O_NONBLOCK"]:
            bad = bad or "real fcntl arguments are `%s`" % fc[0].text
        for tl in (0, 1):
            env = Env(P, thread_locked=tl)
            atom = env.base(ss, [(is_param_load(ss, "sock"), 5)])
            e = forced_edges(ss, atom)
            r1 = ss.find_path("entry", lambda n: n is ors[0].node, edge_ok=e) is not None
            r2 = ss.find_path("entry", lambda n: n is fc[0], edge_ok=e) is not None
            if (r1, r2) != ((True, True) if tl == 0 else (False, False)):
                bad = bad or "thread_locked=%d: flags recorded=%s, made non-blocking=%s" % (tl, r1, r2)
        env = Env(P, thread_locked=0)
        atom = env.base(ss, [(is_param_load(ss, "sock"), 5)])
        e = forced_edges(ss, atom)
        if ss.find_path("entry", "exit", barrier=lambda n: n is fc[0], edge_ok=e) is not None:
            bad = bad or "a path returns without making the descriptor non-blocking"
        # a failing fcntl is reported
        isfc = lambda n: n is fc[0]
        for r in reachable_returns(ss, env.base(ss, [(is_param_load(ss, "sock"), 5), (isfc, -1)])):
            pass
    o.check(bad is None, "flags + real O_NONBLOCK", bad, site=ss.loc, construct="setup_socket")
    pp = P.fn("pipe")
    o = ctx.ob("setup.pipe", pp, "both ends of a pipe are made non-blocking underneath and recorded BLOCKING|WAITABLE", "as setup")
    bad = None
    ors = [x for x in pp.stores() if x.aop == "fetch_or" and is_field(pp.target_key(x.target), None, "flags_")]
    fc = [c for c in pp.calls() if c.indirect and pp.key(c.kids[0]) == ("glob", "fibershim_fcntl")]
    if len(ors) != 2 or len(fc) != 2:
        bad = "expected two flags_ |= and two real fcntl calls, found %d / %d" % (len(ors), len(fc))
    else:
        idx = sorted(key_str(pp.target_key(x.target, True)) for x in ors)
        if len(set(idx)) != 2 or any(strip(x.value).cv != (B | W) for x in ors):
            bad = "the two ends are not both recorded with BLOCKING|WAITABLE (%s)" % idx
        ends = sorted(key_str(pp.key(pp.args(c)[0], True)) for c in fc)
        if len(set(ends)) != 2 or any(pp.args(c)[1].cv != MV["F_SETFL"] or pp.args(c)[2].cv != MV["O_NONBLOCK"] for c in fc):
            bad = bad or "the two ends are not both set O_NONBLOCK (%s)" % ends
        for c in fc:
            for x in ors:
                pass
    o.check(bad is None, "two ends", bad, site=pp.loc, construct="pipe setup")
    we = P.fn(WAIT)
    o = ctx.ob("event.dir", we, "fiber_wait_for_event adds EPOLLIN to the descriptor's interest exactly for FIBER_POLL_IN and EPOLLOUT exactly for FIBER_POLL_OUT, "
               "and links the calling fiber into the descriptor's waiter list under the lock before it yields",
               "a reader registered for EPOLLOUT is woken when the socket is writable (at once) and spins; registered for nothing it sleeps for ever")
    bad = None
    sts = [x for x in we.stores_to("fd_wait_info", "events") if x.kind == "compound" and x.aop == "|="]
    EPIN = [n.cv for n in we.nodes if n.m == "EPOLLIN" and n.cv is not None]
    EPOUT = [n.cv for n in we.nodes if n.m == "EPOLLOUT" and n.cv is not None]
    if len(sts) != 2 or not EPIN or not EPOUT:
        bad = "interest updates not found"
    else:
        byv = {}
        for x in sts:
            byv[strip(x.value).cv if strip(x.value).cv is not None else x.value.cv] = x
        if set(byv) != {EPIN[0], EPOUT[0]}:
            bad = "interest bits are %s" % sorted(byv)
        else:
            for evv in (MV["FIBER_POLL_IN"], MV["FIBER_POLL_OUT"], MV["FIBER_POLL_IN"] | MV["FIBER_POLL_OUT"]):
                atom = atom_from([(is_param_load(we, "events"), evv)])
                e = forced_edges(we, atom)
                rin = we.find_path("entry", lambda n: n is byv[EPIN[0]].node, edge_ok=e) is not None
                rout = we.find_path("entry", lambda n: n is byv[EPOUT[0]].node, edge_ok=e) is not None
                if rin != bool(evv & MV["FIBER_POLL_IN"]) or rout != bool(evv & MV["FIBER_POLL_OUT"]):
                    bad = bad or "events=%d: registers EPOLLIN=%s EPOLLOUT=%s" % (evv, rin, rout)
    wl = [x for x in we.stores_to("fd_wait_info", "waiters")]
    ys = we.calls("fiber_manager_yield")
    locks = we.calls("fiber_spinlock_lock")
    if len(wl) != 1 or not ys or not locks:
        bad = bad or "waiter list push not found"
    else:
        if not key_mentions(we.key(wl[0].value, True), lambda x: x[0] == "f" and x[2] == "current_fiber"):
            bad = bad or "the fiber linked into the waiter list is not the calling fiber"
        if we.dominated_by(wl[0].node, nodeset(locks)) is not None or we.dominated_by(ys[0], nodeset([wl[0].node])) is not None:
            bad = bad or "the waiter list push is not between the lock and the yield"
        chain = [x for x in we.stores_to("fiber", "scratch") if x.value is not None and key_mentions(we.key(x.value, True), lambda y: y[0] == "f" and y[2] == "waiters")]
        if not chain or we.dominated_by(wl[0].node, nodeset([c.node for c in chain])) is not None:
            bad = bad or "the previous waiters are not chained behind the new one (they would be lost)"
    o.check(bad is None, "direction table + list push", bad, site=we.loc, construct="wait_for_event registration")


def _vaarg_local(fn):
    """the local that receives the variadic argument (`long val = va_arg(args, long)`)"""
    from rules import locals_defined_by
    ds = locals_defined_by(fn, lambda m: m.k == "VAArgExpr")
    if len(ds) != 1:
        raise AnalysisBroken("%s: the local holding the variadic argument was not found" % fn.name)
    return ds[0]


def check_event_batch(ctx, P):
    pi = P.fn("fiber_poll_events_internal")
    o = ctx.ob("event.batch", pi, "epoll_wait is asked for at most as many events as the array it is given holds", "the kernel writes maxevents entries: a larger "
               "count than the array overruns the poller's stack")
    import re
    bad = None
    n = 0
    for c in pi.calls("epoll_wait"):
        a = pi.args(c)
        arr = pi.resolve(a[1])
        m = re.search(r"\[(\d+)\]\s*$", (arr.t or "") if arr is not None else "")
        mx = a[2].cv
        n += 1
        if m is None or mx is None:
            bad = bad or ("cannot size `%s` / `%s`" % (a[1].text, a[2].text), c)
        elif mx > int(m.group(1)) or mx < 1:
            bad = bad or ("epoll_wait may return %d events into an array of %s" % (mx, m.group(1)), c)
    if n == 0:
        raise AnalysisBroken("fiber_poll_events_internal: no epoll_wait call")
    o.check(bad is None, "%d epoll_wait call(s)" % n, bad[0] if bad else None, site=bad[1] if bad else None, construct="epoll batch larger than its array")


def check_errno_fresh(ctx, P):
    """errno lives in the kernel thread; glibc declares __errno_location() `const`, so the compiler evaluates it once per function and keeps the
    address.  A shim whose fiber can resume on another kernel thread (after fiber_wait_for_event) must not test `errno` through an address
    obtained before the switch: every errno read that can follow a switch must sit in a function the compiler cannot merge with an earlier
    evaluation (a noinline helper)."""
    import stale as _st
    o = ctx.ob("errno.fresh", "", "in every shim, an `errno` read that can execute after a call that may switch kernel threads, while an earlier `errno` read can reach "
               "that call, goes through a noinline helper (the address of the previous thread's errno cannot be reused)",
               "after the fiber resumed on another thread the retry's EAGAIN is stored in the new thread's errno while the loop tests the old thread's: a blocking "
               "write/accept/send returns -1/EAGAIN to its caller (or keeps retrying on a real error)")
    bad = None
    n = 0
    for fn in P.unique_functions():
        if not fn.relfile.endswith("src/fiber_io.c"):
            continue
        sw = _st.switch_calls(P, fn)
        if not sw:
            continue
        reads = [m for m in fn.nodes if is_errno(m)]
        for r in reads:
            if r.d.get("inl_noinline"):
                continue
            for c in sw:
                if fn.find_path(c, lambda x, r=r: x is r) is None:
                    continue
                if any(e is not r and not e.d.get("inl_noinline") and fn.find_path(e, lambda x, c=c: x is c) is not None for e in reads) or fn.find_path(r, lambda x, c=c: x is c) is not None:
                    n += 1
                    bad = bad or ("%s: `errno` at %s can be read through the address computed before `%s` switched the fiber to another kernel thread" % (fn.name, r.loc, c.text[:40]), r)
    o.check(bad is None, "no errno read straddles a switch", bad[0] if bad else None, site=bad[1] if bad else None, construct="stale errno location")


def check_table_size(ctx, P, MV):
    o = ctx.ob("setup.size", "", "the per-descriptor tables and max_fd are sized by the hard RLIMIT_NOFILE limit (rlim_max), the largest value the soft "
               "limit can be raised to while the process runs",
               "sized by the soft limit, a later setrlimit lets the kernel hand out descriptors >= max_fd: setup_socket/pipe then write the flag "
               "word out of bounds and should_block() treats the descriptor as unmanaged, so EAGAIN reaches a blocking-mode caller")
    n, bad = 0, None
    for fn in P.unique_functions():
        for st in fn.stores():
            if fn.target_key(st.target) != ("glob", "max_fd"):
                continue
            n += 1
            v = strip(fn.resolve(st.value)) if st.value is not None else None
            ok = v is not None and v.k == "MemberExpr" and v.field == "rlim_max" and not v.arrow
            if ok:
                base = strip(v.kids[0])
                gl = [c for c in fn.calls("getrlimit") if any(strip(m).k == "DeclRefExpr" and strip(m).did == base.did for a in fn.args(c)[1:] for m in a.walk())]
                ok = bool(gl) and all(fn.args(c)[0].cv == MV.get("RLIMIT_NOFILE", 7) for c in gl) and all(fn.dominated_by(st.node, nodeset([c])) is None for c in gl)
            if not ok:
                bad = bad or ("`%s` in %s does not take the hard descriptor limit" % (st.node.text, fn.name), st.node)
    if n < 2:
        raise AnalysisBroken("max_fd writers: %d found, 2 expected" % n)
    o.check(bad is None, "%d writers of max_fd, all = getrlimit(RLIMIT_NOFILE).rlim_max" % n, bad[0] if bad else None, site=bad[1] if bad else None,
            construct="descriptor table sized below the hard limit")


def run(ctx):
    P = ctx.prog()
    c01.core_dependency(ctx, P, "core.dep", ('fiber_sleep', 'fiber_wait_for_event', 'fiber_event_wake_waiters', 'fiber_event_wake_sleepers', 'fiber_poll_events_internal'),
                        'the descriptor wait path (fiber_wait_for_event / fiber_event_wake_waiters)',
                        'a fiber blocked on a descriptor that is resumed early re-issues the call on a stale stack; one never scheduled hangs the shim')
    MV = macro_values(P)
    ctx.derived["constants"] = {k: MV[k] for k in ("EAGAIN", "MSG_DONTWAIT", "O_NONBLOCK", "F_SETFL", "FIONBIO")}
    check_bounds(ctx, P)
    check_block_table(ctx, P, MV)
    check_mode(ctx, P, MV)
    check_template(ctx, P, MV)
    check_fdcmp(ctx, P, MV)
    check_fnptr(ctx, P)
    check_close_event(ctx, P, MV)
    check_setup(ctx, P, MV)
    check_table_size(ctx, P, MV)
    check_event_batch(ctx, P)
    check_errno_fresh(ctx, P)
    from props import deps
    deps.depend(ctx, P, "C09", "poll.dep", "the idle loop's polling of the event engine", "a fiber blocked on a descriptor is resumed only by a poller",
                lambda x: x.rule.startswith("poll."))
