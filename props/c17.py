"""C17 — work queue: one worker at a time, each item handed out once, none stranded (structural part)."""
from core import strip, is_field, order_ge, key_str
from facts import AnalysisBroken
from props import deps
from rules import (field_load, through_local, check_init, nodeset, ev, Unevaluable, atom_from, reach, ret_const, is_var_load)

EXPLANATION = (
    "Decides the structure of the in/out counting protocol: push announces the item with one atomic add-and-fetch on in_count "
    "before it enqueues it and returns START_WORKING exactly when that result is 1; get_work reports EMPTY only when it has "
    "seen out_count == in_count and an atomic sub-and-fetch of everything it consumed returned 0, resets out_count before that "
    "subtraction (afterwards another worker may own it), counts an item only after a successful pop, and otherwise keeps "
    "polling without leaving.  Exactly-once hand-out over interleavings is not decided.")
NOT_DECIDED = ["each item handed out exactly once over all interleavings (history property)"]
ASSUMPTIONS = ["WORK_QUEUE_START_WORKING=1, QUEUED=0, MORE_WORK=1, EMPTY=0"]
W = "work_queue"


def fld(field):
    return field_load(field, W)


def run(ctx):
    P = ctx.prog()
    deps.depend(ctx, P, 'C15', 'queue.dep', "the work queue's item queue (mpsc_fifo)",
                'an item the queue drops is announced in in_count for ever: the worker never retires', lambda x: x.rule.startswith(("mpsc.", "mpsc_fifo.")) or x.fn == "mpsc_fifo_init")
    f = P.fn("work_queue_push")
    o = ctx.ob("push", f, "one atomic add-and-fetch(1) on in_count, before the item is pushed onto the fifo; START_WORKING exactly when the result is 1",
               "enqueueing before announcing lets the active worker see out == in, subtract and retire while the item is queued: it is "
               "stranded with no worker; two callers told to start working run the queue concurrently")
    ops = [s for s in f.stores_to(W, "in_count")]
    pushes = f.calls("mpsc_fifo_push")
    bad = None
    if len(ops) != 1 or ops[0].kind != "sync" or "add_and_fetch" not in ops[0].node.callee or ops[0].value.cv != 1 or len(pushes) != 1:
        bad = "expected one __sync_add_and_fetch(&in_count, 1) and one fifo push"
    else:
        op = ops[0]
        if f.dominated_by(pushes[0], nodeset([op.node])) is not None:
            bad = "the item is enqueued before it is announced in in_count"
        if f.find_path("entry", "exit", barrier=nodeset(pushes)) is not None:
            bad = bad or "a path returns without enqueueing the item"
        for v in (1, 2, 5, 2 ** 32 + 1, 2 ** 31, 2 ** 33 + 1, 2 ** 62 + 1):       # a backlog that is never drained keeps in_count growing past 2^32
            atom = atom_from([(lambda n: n is op.node, v)])
            for r in f.returns():
                if reach(f, [r], atom):
                    try:
                        rv = ev(f, r.kids[0], atom)
                    except Unevaluable:
                        rv = None
                        # `ret` is assigned on one branch only: resolve through the reachable definition
                        rv = path_value(f, r, atom)
                    if rv != (1 if v == 1 else 0):
                        bad = bad or "in_count became %d: push returns %s" % (v, rv)
    o.check(bad is None, "announce -> enqueue; result table", bad, site=f.loc, construct="work_queue_push")

    g = P.fn("work_queue_get_work")
    o = ctx.ob("get_work", g, "EMPTY only after out_count == in_count was seen and sub-and-fetch(in_count, consumed) returned 0; out_count is reset "
               "before the subtraction; out_count is incremented only after a successful pop; a failed pop with work announced retries",
               "retiring without the zero test strands items announced meanwhile; resetting out_count after the subtraction races with the next worker")
    pops = g.calls("mpsc_fifo_trypop")
    subs = [s for s in g.stores_to(W, "in_count")]
    outs = [s for s in g.stores_to(W, "out_count")]
    bad = None
    # the retire step may live in a helper (reset out_count, subtract it from in_count, return the result): every call
    # of such a helper is a subtraction event of this function
    helper_calls = []
    for c in g.calls():
        if c.callee and P.has_fn(c.callee) and c.callee not in ("mpsc_fifo_trypop", "cpu_relax"):
            h = P.fn(c.callee)
            hs = [s for s in h.stores_to(W, "in_count")]
            if hs:
                helper_calls.append((c, h, hs))
    if helper_calls and not subs:
        o2 = None
        c0, h, hs = helper_calls[0]
        hres = [s for s in h.stores_to(W, "out_count") if s.kind == "assign" and strip(s.value).cv == 0]
        if len(hs) != 1 or hs[0].kind != "sync" or "sub_and_fetch" not in hs[0].node.callee or len(hres) != 1 or \
                h.dominated_by(hs[0].node, nodeset([hres[0].node])) is not None:
            bad = "the retire helper %s does not reset out_count before one atomic subtraction" % h.name
        ispop = lambda n: n is pops[0] or (n.k == "BinaryOperator" and n.op == "=" and n.contains(pops[0]))
        again = lambda n: n is pops[0]
        for c, h_, hs_ in helper_calls:
            for (oc, ic, popv) in ((0, 0, 0), (2, 2, 0), (1, 3, 0), (65536, 65536, 4096), (5, 9, 4096)):
                atom = atom_from([(ispop, popv), (fld("out_count"), oc), (fld("in_count"), ic)])
                r = reach(g, [c], atom, start=pops[0], barrier=again)
                if r and not (popv == 0 and oc == ic):
                    bad = bad or ("the consumed count is subtracted from in_count (call of %s at %s) although the worker has %s: in_count can drop to 0 "
                                  "while this worker is still active, and the next push is told to start a second worker"
                                  % (h_.name, c.loc, "just popped an item" if popv else "not seen out_count == in_count"))
        if not bad:
            # EMPTY only behind a zero result of the helper
            for c, h_, hs_ in helper_calls:
                for res in (0, 1):
                    atom = atom_from([(ispop, 0), (fld("out_count"), 2), (fld("in_count"), 2), (lambda n, c=c: n is c, res)])
                    for r in g.returns():
                        if ret_const(g, r) == 0 and reach(g, [r], atom, start=pops[0], barrier=again) and res != 0:
                            bad = bad or "EMPTY returned although the subtraction left work announced"
        o.check(bad is None, "retire table (through helper %s)" % h.name, bad, site=g.loc, construct="work_queue_get_work")
        return
    if len(pops) != 1 or len(subs) != 1 or subs[0].kind != "sync" or "sub_and_fetch" not in subs[0].node.callee:
        bad = "shape not recognised"
    else:
        sub = subs[0]
        reset = [s for s in outs if s.kind == "assign" and s.value is not None and strip(s.value).cv == 0]
        inc = [s for s in outs if s not in reset]
        ispop = lambda n: n is pops[0] or (n.k == "BinaryOperator" and n.op == "=" and n.contains(pops[0]))
        again = lambda n: n is pops[0]
        if len(reset) != 1 or g.dominated_by(sub.node, nodeset([reset[0].node])) is not None:
            bad = "out_count is not reset before the subtraction"
        # the amount subtracted is the out_count read before the reset
        if reset and g.find_path(reset[0].node, lambda n: fld("out_count")(n) and sub.node.contains(n)) is not None:
            bad = bad or "the amount subtracted is read after out_count was reset"
        for (oc, ic, subres, popv) in ((0, 0, 0, 0), (2, 2, 0, 0), (2, 2, 1, 0), (1, 3, 0, 0), (0, 1, 0, 0)):
            atom = atom_from([(ispop, popv), (fld("out_count"), oc), (fld("in_count"), ic), (lambda n: n is sub.node, subres)])
            for r in g.returns():
                rc = ret_const(g, r)
                if rc == 0 and reach(g, [r], atom, start=pops[0], barrier=again):
                    if not (oc == ic and subres == 0):
                        bad = bad or "EMPTY returned with out_count=%d in_count=%d subtraction result=%d" % (oc, ic, subres)
            if not (oc == ic and subres == 0):
                if reach(g, ["exit"], atom, start=pops[0], barrier=again):
                    bad = bad or "a failed pop with work still announced (out=%d in=%d) leaves the function" % (oc, ic)
            if oc != ic and reach(g, [sub.node], atom, start=pops[0], barrier=again):
                bad = bad or "the subtraction is attempted although out_count != in_count"
        atom = atom_from([(ispop, 4096)])
        for r in g.returns():
            if reach(g, [r], atom, start=pops[0], barrier=again) and ret_const(g, r) != 1:
                bad = bad or "a successful pop returns %s" % ret_const(g, r)
        for s in inc:
            if reach(g, [s.node], atom_from([(ispop, 0)]), start=pops[0], barrier=again):
                bad = bad or "out_count is incremented although nothing was popped"
        for s in inc:
            if g.guarded(s.node, lambda leaf, pol: pol is True and (leaf.contains(pops[0]) or through_local(g, leaf).contains(pops[0]))) is not None:
                bad = bad or "out_count is incremented on a path that has not popped an item"
        if not inc or not reach(g, [s.node for s in inc], atom, start=pops[0], barrier=again):
            bad = bad or "a popped item is not counted in out_count"
    o.check(bad is None, "retire table", bad, site=g.loc, construct="work_queue_get_work")
    check_init(ctx, P, "work_queue_init", [("work_queue", "in_count", 0), ("work_queue", "out_count", 0)], calls=["mpsc_fifo_init"])

def path_value(f, r, atom):
    """value of a multiply-assigned local returned by r under forced edges: the last assignment on the forced path"""
    from rules import forced_edges
    v = strip(r.kids[0])
    if v.k != "DeclRefExpr" or not v.did:
        return None
    e = forced_edges(f, atom)
    best = None
    for kind, node, val in f.defs().get(v.did, []):
        if kind in ("init", "assign") and val is not None and f.find_path("entry", lambda n: n is node, edge_ok=e) is not None:
            others = nodeset([x[1] for x in f.defs()[v.did] if x[1] is not node])
            if f.find_path(node, lambda n: n is r, barrier=others, edge_ok=e) is not None:
                try:
                    best = ev(f, val, atom)
                except Unevaluable:
                    return None
    return best
