"""C16 — lock-free ring buffer: bounded, exactly-once, never overwrites an unread slot (structural part)."""
from core import is_atomic_load, strip, is_field, order_ge, key_str
from facts import AnalysisBroken
from rules import (field_load, through_local, nodeset, ev, Unevaluable, atom_from, reach, atomic_ops, ret_const, forced_edges)

EXPLANATION = (
    "Decides the claim/publish skeleton of lockfree_ring_buffer.h (and the same skeleton in the bounded channel, see C11): "
    "trypush loads `low` before `high`, claims by a CAS high -> high+1 that is reachable exactly when the indexed slot is "
    "NULL and high-low < size (enumerated table), and writes the slot at index high & mask only on the CAS-success edge; "
    "trypop loads `high` before `low`, reads the slot before the CAS, claims by a CAS low -> low+1 reachable exactly when the "
    "slot is non-NULL and high > low, clears that slot and returns the value read only on the success edge; create sets "
    "mask = size-1.  Exactly-once / order over interleavings (history properties) are not decided.")
NOT_DECIDED = ["exactly-once and push-order over all interleavings (history property)"]
ASSUMPTIONS = ["capacity is a power of two (asserted by create)"]
R = "lockfree_ring_buffer"


def fld_load(field, rec=R):
    return field_load(field, rec)


def slot_load(n):
    return (n.k == "ImplicitCastExpr" and n.ck == "LValueToRValue" and strip(n).k == "ArraySubscriptExpr"
            and strip(strip(n).kids[0]).k == "MemberExpr" and strip(strip(n).kids[0]).field == "buffer")


def _claim_table(fn, rec, mode, cnt, other, c, ld_c, ld_o, ops, out):
    """claim table for one CAS site `c`; appends the first problem to `out`"""
    from rules import is_var_load
    isC = nodeset([l.node for l in ld_c])
    isO = nodeset([l.node for l in ld_o])
    cvar = strip(c.expected)
    cv = strip(cvar.kids[0]).did if cvar.k == "UnaryOperator" and cvar.op == "&" else None
    isCv = (lambda n: isC(n) or is_var_load(cv)(n)) if cv else isC
    others = [x for x in ops if x is not c]
    # a CAS that fails writes the current counter value back into its `expected` variable: loads of that variable that
    # can follow a lost CAS see a newer value (somebody else advanced the counter by at least one)
    refreshed = set()
    if cv:
        varloads = [n for n in fn.nodes if is_var_load(cv)(n)]
        kills = nodeset([e[1] for e in fn.defs().get(cv, []) if e[0] in ("init", "assign")])
        for x in others:
            for n in varloads:
                if fn.find_path(x.node, lambda m, n=n: m is n, barrier=kills) is not None:
                    refreshed.add(n.id)
    isRef = lambda n: n.id in refreshed
    N = 4
    for H in (0, 1, 3, 4, 5, 8):
        for L in (0, 1, 4, 5):
            for V in (0, 4096):
                cur = H if mode == "push" else L
                pairs = [(isRef, cur + 1), (isCv, cur), (isO, L if mode == "push" else H), (slot_load, V),
                         (fld_load("size", rec), N), (fld_load("power_of_2_mod", rec), N - 1), (lambda n: n is c.node, 1)]
                pairs += [(lambda n, x=x: n is x.node, 0) for x in others]   # the other claim attempts lost
                atom = atom_from(pairs)
                # the position this CAS would claim is the refreshed one when the claim follows a lost CAS
                after_loss = bool(refreshed) and any(fn.find_path(x.node, lambda m: m is c.node) is not None for x in others)
                Hc, Lc = (H + 1, L) if (after_loss and mode == "push") else ((H, L + 1) if (after_loss and mode == "pop") else (H, L))
                diff = (Hc - Lc) % (2 ** 64)
                want = (V == 0 and diff < N) if mode == "push" else (V != 0 and Hc > Lc)
                got = reach(fn, [c.node], atom)
                if got and not want:
                    out.append("with %s=%d (%d after the lost CAS refreshed it) %s=%d and the slot %s this CAS is reachable: it claims a position that is not free" %
                               (cnt, H if mode == "push" else L, Hc if mode == "push" else Lc, other, L if mode == "push" else H, "NULL" if V == 0 else "occupied"))
                    return


def check_claim(ctx, P, fn, rec, mode, rule):
    """mode = push | pop ; shared by the ring buffer and the bounded channel"""
    cnt, other = ("high", "low") if mode == "push" else ("low", "high")
    o = ctx.ob(rule, fn,
               ("trypush: load low before high; CAS high->high+1 reachable exactly when slot[high&mask] is NULL and high-low < size; the slot "
                "is written only after winning the CAS" if mode == "push" else
                "trypop: load high before low, read the slot before the CAS; CAS low->low+1 reachable exactly when the slot is non-NULL and "
                "high > low; the slot is cleared and the value returned only after winning the CAS"),
               ("writing the slot before claiming it (or claiming a slot that is still occupied) overwrites an unread item; a full buffer that "
                "still admits a push exceeds its capacity" if mode == "push" else
                "clearing before the claim lets two poppers return the same item; popping an unwritten (NULL) slot returns garbage"))
    ops = [s for s in atomic_ops(fn, rec, cnt) if s.aop == "cas"]
    ld_c = [l for l in fn.loads_of(rec, cnt) if is_atomic_load(l.node) and not any(s.node is l.node for s in ops)]
    ld_o = [l for l in fn.loads_of(rec, other) if is_atomic_load(l.node)]
    bad = None
    if not ops or not ld_c:
        o.fail("shape not recognised (CAS %d, loads %d/%d)" % (len(ops), len(ld_c), len(ld_o)), site=fn.loc, construct=rule + " shape")
        return
    if len(ops) > 1:
        # several claim sites (e.g. a retry path): each one must satisfy the claim table on its own
        for extra in ops[1:]:
            _claim_table(fn, rec, mode, cnt, other, extra, ld_c, ld_o, ops, o_collect := [])
            if o_collect:
                o.fail("claim site at %s: %s" % (extra.node.loc, o_collect[0]), site=extra.node, construct=rule + " extra claim site")
                return
    c = ops[0]
    if not ld_o:
        # the other counter is not read here (e.g. the test was moved into a helper that takes its own snapshot): the table
        # below then shows whether the claim is still tied to the value the CAS validates
        bad = "`%s` is never loaded in this function: the %s test is not made on the snapshot the CAS validates" % (other, "fullness" if mode == "push" else "emptiness")
    # load order: the 'other' counter first
    for l in ld_c:
        if fn.dominated_by(l.node, nodeset([x.node for x in ld_o])) is not None:
            bad = bad or "`%s` is loaded before `%s`: the buffer can look %s than it is" % (cnt, other, "emptier" if mode == "push" else "fuller")
    for l in ld_c + ld_o:
        if not order_ge(l.order or "relaxed", "acquire"):
            bad = bad or "load of %s is %s" % (key_str(fn.target_key(l.target)), l.order)
    if not order_ge(c.order or "relaxed", "acquire" if mode == "pop" else "release"):
        bad = bad or "CAS order %s" % c.order
    isC = nodeset([l.node for l in ld_c])
    isO = nodeset([l.node for l in ld_o])
    cvar = strip(c.expected)
    cv = strip(cvar.kids[0]).did if cvar.k == "UnaryOperator" and cvar.op == "&" else None
    from rules import is_var_load
    isCv = (lambda n: isC(n) or is_var_load(cv)(n)) if cv else isC
    N = 4
    for H in (0, 1, 3, 4, 5, 8, 2 ** 64 - 1):
        for L in (0, 1, 4, 5, 2 ** 64 - 3):
            for V in (0, 4096):
                hv, lv = (H, L)
                atom = atom_from([(isCv, hv if mode == "push" else lv), (isO, lv if mode == "push" else hv), (slot_load, V),
                                  (fld_load("size", rec), N), (fld_load("power_of_2_mod", rec), N - 1), (lambda n: n is c.node, 1)])
                diff = (H - L) % (2 ** 64)
                if mode == "push":
                    want = (V == 0 and diff < N)
                else:
                    want = (V != 0 and H > L)
                got = reach(fn, [c.node], atom)
                if got != want:
                    bad = bad or "high=%d low=%d slot %s: the claiming CAS is reachable=%s, must be %s" % (H, L, "NULL" if V == 0 else "occupied", got, want)
                try:
                    d = ev(fn, c.value, atom)
                    cur = hv if mode == "push" else lv
                    if d != (cur + 1) % (2 ** 64):
                        bad = bad or "CAS moves %s from %d to %d" % (cnt, cur, d)
                except Unevaluable:
                    bad = bad or "CAS desired value not evaluable"
    # slot write / clear only on the success edge; index = counter & mask
    sl = [s for s in fn.stores() if strip(s.target).k == "ArraySubscriptExpr" and is_field(fn.key(strip(s.target).kids[0], True), rec, "buffer")]
    if not sl:
        bad = bad or "the slot is never %s" % ("written" if mode == "push" else "cleared")
    casp = lambda leaf, pol: through_local(fn, leaf) is c.node and pol is True
    for s in sl:
        if fn.guarded(s.node, casp) is not None:
            bad = bad or "the slot is %s without having won the CAS" % ("written" if mode == "push" else "cleared")
        if mode == "pop" and not (s.value is not None and strip(s.value).cv == 0):
            bad = bad or "pop stores `%s` into the slot" % s.value.text
        try:
            idx = ev(fn, strip(s.target).kids[1], atom_from([(isCv, 13), (fld_load("power_of_2_mod", rec), 7)]))
            if idx != 13 & 7:
                bad = bad or "slot index is not %s & mask" % cnt
        except Unevaluable:
            bad = bad or "slot index not evaluable"
    if mode == "pop":
        rd = [n for n in fn.nodes if slot_load(n)]
        for n in rd:
            if fn.find_path(c.node, lambda m: m is n) is not None:
                bad = bad or "the slot is read after the CAS (a pusher may already have reused it)"
        for r in fn.returns():
            v = fn.resolve(r.kids[0]) if r.kids else None
            if r.kids and strip(r.kids[0]).cv == 0:
                continue
            if v is not None and v.cv in (0, 1):
                if v.cv == 1 and fn.guarded(r, casp) is not None:
                    bad = bad or "success is returned without having won the CAS"
                continue
            if fn.guarded(r, casp) is not None:
                bad = bad or "an item is returned without having won the CAS"
    else:
        for r in fn.returns():
            rc = ret_const(fn, r)
            if rc == 1 and fn.guarded(r, casp) is not None:
                bad = bad or "success is returned without having won the CAS"
    o.check(bad is None, "claim table 7x5x2", bad, site=c.node, construct=rule)


def run(ctx):
    P = ctx.prog()
    check_claim(ctx, P, P.fn("lockfree_ring_buffer_trypush"), R, "push", "trypush")
    check_claim(ctx, P, P.fn("lockfree_ring_buffer_trypop"), R, "pop", "trypop")
    cr = P.fn("lockfree_ring_buffer_create")
    o = ctx.ob("create", cr, "create allocates size = 2^k zeroed slots and sets power_of_2_mod = size - 1", "a wrong mask aliases or skips slots")
    bad = None
    isP = lambda n: n.k == "ImplicitCastExpr" and n.ck == "LValueToRValue" and strip(n).k == "DeclRefExpr" and strip(n).dk == "param"
    sz = cr.stores_to(R, "size")
    mk = cr.stores_to(R, "power_of_2_mod")
    if len(sz) != 1 or len(mk) != 1:
        bad = "size / mask not stored once"
    else:
        for k in (1, 3, 10, 16, 17, 24, 31):        # the stored values, as converted to the fields' types
            a = atom_from([(isP, k)])
            try:
                if ev(cr, sz[0].node, a) != 2 ** k or ev(cr, mk[0].node, a) != 2 ** k - 1:
                    bad = bad or "k=%d: stored size=%s mask=%s (need %d / %d)" % (k, ev(cr, sz[0].node, a), ev(cr, mk[0].node, a), 2 ** k, 2 ** k - 1)
            except Unevaluable:
                bad = bad or "not evaluable"
    o.check(bad is None, "size/mask table", bad, site=cr.loc, construct="ring buffer create")
    from rules import check_zeroed_alloc, check_alloc_size
    check_alloc_size(ctx, P, "lockfree_ring_buffer_create", R, "create.size",
                     "a block smaller than the capacity stored in `size` makes every slot access beyond it a heap overflow: items overwrite foreign memory and are overwritten")
    check_zeroed_alloc(ctx, P, "lockfree_ring_buffer_create", "create.zero", "the slots of a new ring buffer",
                       "NULL marks an empty slot: a stale non-NULL word makes trypush fail for ever on a buffer that is not full (a popper seems to be mid-clear)")
    o = ctx.ob("writers", "", "high is modified only by the trypush CAS, low only by the trypop CAS", "a second writer un-claims or double-claims slots")
    bad = None
    for fn in P.unique_functions():
        for fld, owner in (("high", "lockfree_ring_buffer_trypush"), ("low", "lockfree_ring_buffer_trypop")):
            for s in fn.stores_to(R, fld):
                if not (fn.name == owner and s.aop == "cas"):
                    bad = bad or ("`%s` in %s" % (s.node.text, fn.name), s.node)
    o.check(bad is None, "CAS-only", "unexpected writer " + (bad[0] if bad else ""), site=bad[1] if bad else None, construct="ring buffer counter writer")
