"""C14 — hazard pointers: nothing is reclaimed while protected; garbage stays bounded (structural part)."""
from core import deatomic, strip, is_field, order_ge, key_str, key_mentions
from facts import AnalysisBroken
from rules import (field_load, check_init, nodeset, callpred, atom_from, reach, ev, Unevaluable, is_full_fence, is_param_load, is_var_load, summary_value, may_flow_from)
from symword import Machine
import hazard

EXPLANATION = (
    "Decides the mechanism's structure: hazard_pointer_using stores the slot and executes a full (store->load) fence before "
    "returning; every publication site in the library follows publish -> re-validate -> dereference (typestate, shared with "
    "C13); the scan starts at the current list head, follows `next` to NULL, copies every non-NULL slot of every record "
    "(loop bound = that record's slot count), sorts the copy with a comparator that orders by unsigned address and searches "
    "it with a binary search interpreted over enumerated sorted arrays (incl. addresses above 2^63) that agrees with "
    "membership; a retired node is handed to its gc function exactly when the search says 'not found' and is re-linked and "
    "counted otherwise; hazard_pointer_free links and counts before testing count >= threshold and scans exactly then; a new "
    "record's threshold (2 x records x slots) is stored before the CAS that publishes it and older records are bumped by "
    "2 x slots with an atomic add afterwards; the scan starts with a full fence, and the snapshot it searches is private to the invocation "
    "(neither re-read from the record after a reclamation callback nor left reachable through the record while callbacks run: a callback may "
    "retire nodes and run a nested scan).  'Not reclaimed while protected' as a temporal fact and the garbage bound as a "
    "runtime count are not decided.")
NOT_DECIDED = ["no reclamation while protected, as a temporal property over interleavings", "the garbage bound as a runtime count"]
ASSUMPTIONS = ["x86-TSO: only the store->load fence in hazard_pointer_using is needed"]
R = "hazard_pointer_thread_record"


def check_node_base(ctx, P):
    """the reclamation callback frees / recycles the hazard_node_t pointer it is given as if it were the node: the hazard member must be the
    first member of the node type (unless the callback recovers the node's address by pointer arithmetic)"""
    name = "fiber_manager_return_mpmc_node_internal"
    if not P.has_fn(name):
        return
    f = P.fn(name)
    o = ctx.ob("node.base", f, "the pointer the reclamation callback hands to free() / to the free-node pool is the address of the whole node: "
               "`hazard` is at offset 0 of mpmc_fifo_node_t (the pool's consumers cast the pointer back to mpmc_fifo_node_t*)",
               "with `hazard` anywhere else free() is given an interior pointer (heap corruption) and recycled nodes are shifted by the offset: a pusher "
               "writes value/prev/next over a neighbour")
    hp = f.params[1]["did"] if len(f.params) > 1 else None
    direct = False
    for c in f.calls(("free", "lockfree_ring_buffer_trypush", "lockfree_ring_buffer_push")):
        for a in f.args(c):
            r = f.resolve(a)
            if r is not None and r.k == "DeclRefExpr" and r.did == hp:
                direct = True
    off = P.field("mpmc_fifo_node", "hazard").get("off_bits")
    if not direct:
        o.ok("the callback does not release its argument directly")
    else:
        o.check(off == 0, "hazard at offset 0", "`hazard` is at byte offset %s of mpmc_fifo_node_t but the callback releases the hazard pointer itself" % (off // 8 if off is not None else "?"),
                site=f.loc, construct="hazard member not first")


def slot_read_pred(sc):
    """predicate: an rvalue read of a hazard slot -- `rec->hazard_pointers[i]`, or `*p` where p walks the record's hazard_pointers array"""
    fl = lambda n: n.k == "MemberExpr" and n.field == "hazard_pointers"      # array member: decays, is not "loaded"

    def p(n):
        if not (n.k == "ImplicitCastExpr" and n.ck == "LValueToRValue"):
            return False
        m = strip(n)
        if m is None:
            return False
        if m.k == "ArraySubscriptExpr":
            return key_mentions(sc.key(m.kids[0], True), lambda x: x[0] == "f" and x[1] == R and x[2] == "hazard_pointers")
        if m.k == "UnaryOperator" and m.op == "*":
            return may_flow_from(sc, m.kids[0], fl)
        return False
    return p


def through_struct(P, f, n, depth=4):
    """`s.fld` / `p->fld` where s is a local struct initialised once by an initialiser list (and p holds &s): the expression that
    initialises that field; anything else is returned unchanged.  (A scan split into phases passes its snapshot as a small struct.)"""
    for _ in range(depth):
        m = strip(n)
        if m is None or m.k != "MemberExpr":
            return n
        base = f.resolve(m.kids[0]) if m.kids else None
        if base is not None and base.k == "UnaryOperator" and base.op == "&":
            base = strip(base.kids[0])
        if base is None or base.k != "DeclRefExpr" or base.dk != "local":
            return n
        evs = f.defs().get(base.did, [])
        inits = [e for e in evs if e[0] == "init"]
        if len(inits) != 1 or any(e[0] in ("assign", "mod") for e in evs) or inits[0][2] is None:
            return n
        il = inits[0][2]
        while il is not None and il.k != "InitListExpr" and il.kids:
            il = il.kids[0]
        if il is None or il.k != "InitListExpr":
            return n
        try:
            names = [fl["name"] for fl in P.record(m.rec)["fields"]]
        except AnalysisBroken:
            return n
        if m.field not in names or names.index(m.field) >= len(il.kids):
            return n
        n = il.kids[names.index(m.field)]
    return n


def key_field(f, target):
    """name of the record field a MemberExpr / store target designates (None for anything else)"""
    t = strip(target)
    if t is None or t.k != "MemberExpr":
        return None
    k = f.key(t, resolve=False)
    return (k[1], k[2]) if k and k[0] == "f" else None


def run(ctx):
    P = ctx.prog()
    check_node_base(ctx, P)
    from rules import check_zeroed_alloc
    check_zeroed_alloc(ctx, P, "hazard_pointer_thread_record_create_and_push", "record.zero", "the hazard slots of a new thread record",
                       "a stale slot word that equals a node's address is a phantom hazard: every scan keeps that node in the retired list for ever "
                       "(no bounded reclamation), and the record's retired list / plist start from garbage")
    u = P.fn("hazard_pointer_using")
    o = ctx.ob("publish", u, "the slot store is followed, on every path to the return, by a full store->load fence",
               "without it the validating re-read can be satisfied from before the slot store became visible: a scanner misses the hazard and "
               "frees the node while the reader goes on to use it")
    st = [s for s in u.stores() if strip(s.target).k == "ArraySubscriptExpr" and is_field(u.key(strip(s.target).kids[0], True), R, "hazard_pointers")]
    bad = None
    if len(st) != 1:
        bad = "slot store not found"
    else:
        full = is_full_fence(u)
        if not full(st[0].node):
            w = u.find_path(st[0].node, "exit", barrier=full)
            if w is not None:
                bad = "the function can return after the slot store without a full fence"
        try:
            if ev(u, strip(st[0].target).kids[1], atom_from([(is_param_load(u, "n"), 1)])) != 1:
                bad = bad or "the slot written is not slot n"
        except Unevaluable:
            bad = bad or "slot index not evaluable"
        if not (strip(st[0].value).k == "DeclRefExpr" and strip(st[0].value).name == "node"):
            bad = bad or "the slot does not receive the node"
    o.check(bad is None, "store + full fence", bad, site=u.loc, construct="hazard publish fence")
    fb = P.fn("store_load_barrier")
    o = ctx.ob("publish.barrier", fb, "store_load_barrier() is a locked read-modify-write (or mfence) with a memory clobber", "an empty asm is only a compiler barrier")
    asms = fb.all(k="GCCAsmStmt")
    ok = len(asms) == 1 and ("lock" in asms[0].d["asm"] or "mfence" in asms[0].d["asm"]) and "memory" in asms[0].d["clobbers"] and asms[0].d["asmvolatile"]
    o.check(ok, "lock-prefixed asm", "store_load_barrier is `%s`" % (asms[0].d["asm"] if asms else "missing"), site=fb.loc, construct="store_load_barrier asm")

    hazard.check_all_sites(ctx, P, "protocol")

    sc = P.fn("hazard_pointer_scan")
    o = ctx.ob("scan.cover", sc, "the collection walks every record (from *hptr->head along next to NULL) and every slot of it (0 <= i < that record's "
               "hazard_pointers_count), copying each non-NULL slot into plist", "a record or slot that is skipped is a hazard the scan does not see: its node is freed under the reader")
    bad = None
    isslot_cover = slot_read_pred(sc)
    # the record cursor: the local that is advanced by `x = x->next` over thread records
    cur = []
    for did, evs in sc.defs().items():
        for kind, node, val in evs:
            if kind == "assign" and val is not None:
                kk = sc.key(val)
                if kk[0] == "f" and kk[1] == R and kk[2] == "next" and kk[3] == ("*", ("var", sc.local_by_did.get(did, {}).get("name"), did)) and did not in cur:
                    cur.append(did)
    if not cur:
        bad = "cur_record not found"
    else:
        defs = [e for e in sc.defs().get(cur[0], []) if e[0] in ("init", "assign")]
        stepkey = ("f", R, "next", ("*", ("var", sc.local_by_did[cur[0]]["name"], cur[0])))
        inits = [e for e in defs if e[0] == "init" or (e[0] == "assign" and sc.key(e[2]) != stepkey)]
        steps = [e for e in defs if e[0] == "assign" and sc.key(e[2]) == stepkey]
        hk = deatomic(sc.key(inits[0][2], resolve=True)) if inits else ("?",)
        if not (hk[0] == "*" and key_mentions(hk, lambda x: x[0] == "f" and x[1] == R and x[2] == "head")):
            bad = "the walk starts at `%s`, not at the current head of the record list" % (inits[0][2].text if inits else "?")
        if len(steps) != 1 or sc.key(steps[0][2]) != ("f", R, "next", ("*", ("var", sc.local_by_did[cur[0]]["name"], cur[0]))):
            bad = bad or "the walk does not advance by cur_record->next"
        # inner loop bound
        fl = [n for n in sc.all(k="ForStmt")]
        cond = None
        for n in fl:
            for k in n.kids[:-1]:
                if k is not None and k.k == "BinaryOperator" and k.op in ("<", "<=", "!="):
                    cond = k
        ptr_form = False
        if cond is not None and cond.op in ("!=", "<"):
            pv = strip(cond.kids[0])
            if pv is not None and pv.k == "DeclRefExpr" and "*" in (pv.t or ""):
                # `for (slot = rec->hazard_pointers; slot != slot + rec->hazard_pointers_count; ++slot)`: pointer cursor over the same range
                curp = lambda x: x[0] == "f" and x[1] == R and x[3] == ("*", ("var", sc.local_by_did[cur[0]]["name"], cur[0]))
                fl_arr = lambda n: n.k == "MemberExpr" and n.field == "hazard_pointers" and key_mentions(sc.key(n, True), curp)
                fl_cnt = lambda n: field_load("hazard_pointers_count", R)(n) and key_mentions(sc.key(strip(n), True), curp)
                pdefs = sc.defs().get(pv.did, [])
                starts = [e for e in pdefs if e[0] in ("init", "assign")]
                mods = [e for e in pdefs if e[0] == "mod"]
                ok_start = bool(starts) and all(e[2] is not None and strip(e[2]) is not None and may_flow_from(sc, e[2], fl_arr) and
                                                 not any(m.k == "BinaryOperator" and m.op in ("+", "-") for m in e[2].walk()) for e in starts)
                ok_step = len(mods) == 1 and mods[0][1].k == "UnaryOperator" and mods[0][1].op == "++"
                ok_end = may_flow_from(sc, cond.kids[1], fl_arr) and may_flow_from(sc, cond.kids[1], fl_cnt)
                if ok_start and ok_step and ok_end:
                    ptr_form = True
                else:
                    bad = bad or "the slot loop `%s` does not cover hazard_pointers[0 .. hazard_pointers_count) of the record" % cond.text
        if cond is None:
            bad = bad or "slot loop not found"
        elif not ptr_form and not bad:
            rk = sc.key(cond.kids[1], resolve=True)
            if not (cond.op == "<" and is_field(rk, R, "hazard_pointers_count") and rk[3] == ("*", ("var", sc.local_by_did[cur[0]]["name"], cur[0]))):
                bad = bad or "the slot loop is bounded by `%s`, not by i < cur_record->hazard_pointers_count" % cond.text
            ivar = strip(cond.kids[0])
            idefs = [e for e in sc.defs().get(ivar.did, []) if e[0] in ("init", "assign")]
            if not idefs or any(strip(e[2]).cv != 0 for e in idefs):
                bad = bad or "the slot loop does not start at 0"
        # every slot is visited: nothing leaves the slot loop except its own bound test
        if cond is not None:
            loop = cond.parent
            while loop is not None and loop.k != "ForStmt":
                loop = loop.parent
            for n in (loop.walk() if loop is not None else []):
                if n.k in ("BreakStmt", "ReturnStmt", "GotoStmt"):
                    enc = n.parent
                    while enc is not None and enc.k not in ("ForStmt", "WhileStmt", "DoStmt", "SwitchStmt"):
                        enc = enc.parent
                    if n.k != "BreakStmt" or enc is loop:
                        bad = bad or ("the slot loop is left early (`%s` at %s): the remaining slots of the record are not collected, a hazard published "
                                      "there is invisible to the scan" % (n.k.replace("Stmt", "").lower(), n.loc))
        pst = [s for s in sc.stores() if strip(s.target).k == "ArraySubscriptExpr" and is_field(sc.key(strip(s.target).kids[0], True), R, "plist")]
        if len(pst) != 1:
            bad = bad or "plist store not found"
        else:
            # guarded by the slot being non-NULL, index advanced once per store
            hv = strip(pst[0].value)
            if sc.guarded(pst[0].node, lambda leaf, pol: strip(leaf).k == "DeclRefExpr" and strip(leaf).did == hv.did and pol is True) is not None:
                bad = bad or "NULL slots are copied / the copy is not guarded by the slot value"
            hk2 = sc.key(hv, resolve=True)
            if hk2[0] != "[]" and not may_flow_from(sc, pst[0].value, isslot_cover):
                bad = bad or "the value copied is not a slot of the record"
    o.check(bad is None, "record walk + slot loop", bad, site=sc.loc, construct="scan coverage")

    o = ctx.ob("scan.fence", sc, "the scan executes a full (store->load) fence before it reads the other records' hazard slots",
               "the retiring thread unlinked the node with a store that may still sit in its store buffer (a plain or release store is a legal way to unlink): "
               "without a fence the scan's reads of the hazard slots can be satisfied before that store is visible, a reader validates the node against the "
               "old link and publishes it, the scan sees the slot still empty -- and reclaims a protected node")
    full = is_full_fence(sc)
    isslot = slot_read_pred(sc)
    slot_reads = [n for n in sc.nodes if isslot(n)]
    if not slot_reads:
        raise AnalysisBroken("hazard_pointer_scan: reads of the hazard slots not found")
    w = None
    for n in slot_reads:
        w = w or sc.dominated_by(n, full)
    o.check(w is None, "fence dominates %d slot read(s)" % len(slot_reads), "the hazard slots are read on a path without a preceding full fence", site=slot_reads[0], witness=w,
            construct="scan reads hazard slots without a store-load fence")

    o = ctx.ob("scan.sorted", sc, "plist is sorted (qsort over the copied count, comparator = unsigned address order) before any binary_search over the same "
               "count; the comparator and the search agree on enumerated arrays including addresses >= 2^63",
               "searching an unsorted array (or one sorted by a different order, e.g. signed) misses a hazard that is present: the protected node is freed")
    qs = sc.calls("qsort")
    bs = sc.calls("binary_search")
    libc_bs = sc.calls("bsearch")
    bad = None
    if len(qs) == 1 and not bs and libc_bs:
        # the search is libc's bsearch: same array, count, element size and comparator as the sort, and -- the elements being pointers --
        # the key must be the ADDRESS of a pointer holding the node (bsearch hands the comparator `key` and `&base[i]`)
        q = sc.args(qs[0])
        for b in libc_bs:
            a = sc.args(b)
            if sc.dominated_by(b, nodeset(qs)) is not None:
                bad = bad or "bsearch is reachable before the sort"
            if len(a) != 5:
                bad = bad or "bsearch arguments"
                continue
            if sc.key(a[1], True) != sc.key(q[0], True) or sc.key(a[2], True) != sc.key(q[1], True):
                bad = bad or "bsearch searches another array / count than the one that was sorted"
            if a[3].cv != q[2].cv or sc.key(a[4], True) != sc.key(q[3], True):
                bad = bad or "bsearch uses another element size / comparator than the sort"
            k0 = strip(a[0])
            if not (k0 is not None and k0.k == "UnaryOperator" and k0.op == "&"):
                bad = bad or ("the bsearch key `%s` is the node itself, not the address of a pointer to it: the comparator dereferences the key, so it "
                              "compares the node's first word (its `next` link) with the hazard pointers" % a[0].text)
        bs = libc_bs
        if bad:
            o.fail(bad, site=libc_bs[0], construct="scan sort/search")
        else:
            o.ok("qsort + bsearch with matching arguments")
    elif len(qs) != 1 or not bs:
        bad = "qsort / binary_search call missing"
        o.fail(bad, site=sc.loc, construct="scan sort/search")
        bs = bs or libc_bs
    else:
        for b in bs:
            if sc.dominated_by(b, nodeset(qs)) is not None:
                bad = bad or "binary_search is reachable before the sort"
            if sc.key(through_struct(P, sc, sc.args(b)[1]), True) != sc.key(through_struct(P, sc, sc.args(qs[0])[1]), True):
                bad = bad or "sorted length and searched length differ"
        cmpf = strip(sc.args(qs[0])[3])
        cname = None
        for n in cmpf.walk():
            if n.k == "DeclRefExpr" and n.dk == "func":
                cname = n.name
        if not cname or not P.has_fn(cname):
            bad = bad or "comparator not resolved"
        else:
            cf = P.fn(cname)
            loads = [n for n in cf.nodes if n.k == "ImplicitCastExpr" and n.ck == "LValueToRValue" and strip(n).k == "UnaryOperator" and strip(n).op == "*"]
            if len(loads) != 2:
                bad = bad or "comparator shape"
            else:
                for a, b in ((1, 2), (2, 1), (5, 5), (2 ** 63 + 8, 16), (16, 2 ** 63 + 8), (2 ** 64 - 8, 2 ** 63),
                             (0x90000010, 0x10), (0x10, 0x90000010), (0x100000010, 0x10), (0x10, 0x100000010), (0x7f0000000000, 0x550000000000)):
                    at = atom_from([(lambda n, x=loads[0]: n is x, a), (lambda n, x=loads[1]: n is x, b)])
                    v = summary_value(cf, at)
                    want = 0 if a == b else (-1 if a < b else 1)
                    if v is None or (v > 0) - (v < 0) != want:
                        bad = bad or "comparator(%#x, %#x) = %s, unsigned address order says %d" % (a, b, v, want)
        bsf = P.fn("binary_search")
        arrays = [[], [16], [16, 32, 48], [16, 32, 48, 64], [8, 2 ** 63 + 8, 2 ** 64 - 16], [2 ** 63, 2 ** 63 + 64]]
        for arr in arrays:
            for needle in sorted(set(arr + [x + 8 for x in arr] + [0, 2 ** 64 - 8])):
                def atom(n, arr=arr, needle=needle, m=[None]):
                    if n.k == "ImplicitCastExpr" and n.ck == "LValueToRValue":
                        s = strip(n)
                        if s.k == "DeclRefExpr" and s.dk == "param":
                            if s.name == "haystack_size":
                                return len(arr)
                            if s.name == "needle":
                                return needle
                            if s.name == "haystack":
                                return 4096
                    return None
                m = Machine(bsf, P, None)

                def ext(n, arr=arr, needle=needle, m=m):
                    v = atom(n)
                    if v is not None:
                        return v
                    if n.k == "ImplicitCastExpr" and n.ck == "LValueToRValue" and strip(n).k == "ArraySubscriptExpr":
                        i = m.eval(strip(n).kids[1])
                        if not 0 <= i < len(arr):
                            raise Unevaluable("binary_search indexes %d outside 0..%d" % (i, len(arr) - 1))
                        return arr[i]
                    return None
                m.ext = ext
                try:
                    stop = m.run("entry", lambda n: n.k == "ReturnStmt")
                    got = m.eval(stop.kids[0]) if stop is not None else None
                except Unevaluable as e:
                    bad = bad or "binary_search over %s for %#x: %s" % ([hex(x) for x in arr], needle, e)
                    continue
                if bool(got) != (needle in arr):
                    bad = bad or "binary_search(%s, %#x) = %s" % ([hex(x) for x in arr], needle, got)
    if o.status is None:
        o.check(bad is None, "sort before search; comparator and search tables", bad, site=sc.loc, construct="scan sort/search")
    if not bs:
        raise AnalysisBroken("hazard_pointer_scan: no search over the collected hazard pointers found")

    o = ctx.ob("scan.private", sc, "the array and the length searched for a retired node are values fixed before the first reclamation callback runs: neither is "
               "re-read, after a callback, from a field of the record that hazard_pointer_scan itself rewrites",
               "the callback is user code and may retire nodes (hazard_pointer_free -> a nested hazard_pointer_scan on the same record): the nested scan "
               "replaces the record's snapshot array, and the outer scan then searches the new array with its old length and misses a hazard that is present")
    cbs = [n for n in sc.calls() if n.callee is None or not (P.has_fn(n.callee) or n.callee in ("qsort", "bsearch", "malloc", "free", "calloc", "realloc", "__assert_fail", "abort"))]
    cbs = [n for n in cbs if n.callee is None]
    searches = sc.calls("binary_search") + sc.calls("bsearch")
    if not cbs or not searches:
        raise AnalysisBroken("C14 scan.private: reclamation callback / search call not found in hazard_pointer_scan")
    ctx.expect_count("reclamation callbacks in scan", len(cbs), 1)
    written = {key_field(sc, st.target) for st in sc.stores()} - {None}
    bad = None
    for b in searches:
        a = sc.args(b)
        arr_len = a[:2] if b.callee == "binary_search" else a[1:3]
        arr_len = [through_struct(P, sc, x) for x in arr_len]
        for x in arr_len:
            def rewritten_after_cb(n):
                if not (n.k == "ImplicitCastExpr" and n.ck == "LValueToRValue"):
                    return False
                m = strip(n)
                if m is None or m.k != "MemberExpr":
                    return False
                fld = key_field(sc, m)
                return fld in written and any(sc.find_path(c, lambda y, n=n: y is n) is not None for c in cbs)
            if may_flow_from(sc, x, rewritten_after_cb):
                bad = bad or ("the search argument `%s` is (re)read from a record field that the scan rewrites, at a point a reclamation callback can precede: a "
                              "nested scan run by the callback changes it under the outer scan" % x.text, b)
        # the array itself must not stay reachable from the record while callbacks run: a nested scan would refill the same memory
        srcs = []

        def source(n):
            if n.k == "ImplicitCastExpr" and n.ck == "LValueToRValue" and strip(n) is not None and strip(n).k == "MemberExpr" and key_field(sc, strip(n)) in written:
                srcs.append(n)
            return False
        may_flow_from(sc, arr_len[0], source)
        for n in srcs:
            fld = key_field(sc, strip(n))
            resets = nodeset([st.node for st in sc.stores() if key_field(sc, st.target) == fld])
            for c in cbs:
                if sc.find_path(n, lambda y, c=c: y is c, barrier=resets) is not None:
                    bad = bad or ("the searched array is the one the record's `%s` still points to while the reclamation callbacks run: a nested scan refills "
                                  "that very memory under the outer scan (and both later free it)" % fld[1], b)
    o.check(bad is None, "%d search call(s), %d callback site(s); scan rewrites record fields %s" % (len(searches), len(cbs), sorted(x[1] for x in written)),
            bad[0] if bad else None, site=bad[1] if bad else None, construct="scan snapshot shared with a nested scan")

    o = ctx.ob("scan.decide", sc, "a retired node is passed to its gc function exactly when the search did not find it; otherwise it is re-linked into the "
               "retired list and counted; the list and count are reset before the pass",
               "inverting the test reclaims exactly the protected nodes")
    bad = None
    gc = [c for c in sc.calls() if c.indirect]
    isb = nodeset(bs)
    relink = [s.node for s in sc.stores_to(R, "retired_list") if s.value is not None and strip(s.value).cv != 0]
    cnt = [s.node for s in sc.stores_to(R, "retired_count") if s.kind in ("incdec", "compound")]
    if len(gc) != 1 or not relink or not cnt:
        bad = "shape not recognised"
    else:
        for found in (0, 1):
            at = atom_from([(isb, found)])
            rg = reach(sc, gc, at, start=bs[0])
            rl = reach(sc, relink, at, start=bs[0], barrier=isb)
            rc = reach(sc, cnt, at, start=bs[0], barrier=isb)
            if found and (rg and not rl):
                bad = bad or "a node found in the hazard list is reclaimed"
            if found and reach(sc, gc, at, start=bs[0], barrier=isb):
                bad = bad or "a node found in the hazard list is reclaimed"
            if found and not (rl and rc):
                bad = bad or "a hazardous node is neither re-linked nor counted"
            if not found and not reach(sc, gc, at, start=bs[0], barrier=isb):
                bad = bad or "an unprotected node is not reclaimed"
            if not found and (rl or rc):
                bad = bad or "a reclaimed node is also kept in the retired list"
        ga = sc.args(gc[0])
        if len(ga) != 2 or strip(ga[1]).k != "DeclRefExpr":
            bad = bad or "gc function arguments"
        # the needle is the retired node itself
        nk = sc.key(sc.args(bs[0])[2], True)
        if nk != sc.key(ga[1], True):
            bad = bad or "the node searched for is not the node reclaimed"
        resets = [s.node for s in sc.stores_to(R, "retired_count") if s.kind == "assign" and strip(s.value).cv == 0]
        if not resets or sc.dominated_by(bs[0], nodeset(resets)) is not None:
            bad = bad or "retired_count is not reset before the pass"
    o.check(bad is None, "found -> keep, not found -> gc", bad, site=sc.loc, construct="scan decision")

    fr = P.fn("hazard_pointer_free")
    o = ctx.ob("retire", fr, "hazard_pointer_free links the node into the retired list and increments retired_count before testing it, and scans exactly when "
               "retired_count >= retire_threshold", "a retire path that skips the test lets garbage grow without bound")
    bad = None
    scans = fr.calls("hazard_pointer_scan")
    link = [s.node for s in fr.stores_to(R, "retired_list")]
    inc = [s.node for s in fr.stores_to(R, "retired_count")]
    if len(scans) != 1 or not link or not inc:
        bad = "shape not recognised"
    else:
        isC = field_load("retired_count")
        isT = field_load("retire_threshold")
        for c, t in ((1, 4), (3, 4), (4, 4), (5, 4), (100, 8)):
            got = reach(fr, scans, atom_from([(isC, c), (isT, t)]))
            if got != (c >= t):
                bad = bad or "count %d threshold %d: scan = %s" % (c, t, got)
        for n in link + inc:
            if fr.dominated_by(scans[0], nodeset([n])) is not None:
                bad = bad or "the scan is reachable before the node was linked and counted"
    o.check(bad is None, "link/count then test", bad, site=fr.loc, construct="retire threshold test")

    cp = P.fn("hazard_pointer_thread_record_create_and_push")
    o = ctx.ob("threshold", cp, "the new record's retire_threshold = 2 x (records incl. itself) x slots is stored inside the CAS loop before the CAS that "
               "publishes it (release or stronger); after it, every older record's threshold is raised by 2 x its slot count with an atomic add",
               "a record published with threshold 0 scans on every retire; one whose threshold was computed for fewer records sizes plist too small "
               "when it becomes the head: the scan overflows it")
    bad = None
    cas = [s for s in cp.stores() if s.kind == "atomic" and s.aop == "cas"]
    ths = [s for s in cp.stores_to(R, "retire_threshold")]
    mine = [s for s in ths if s.kind == "assign"]
    bump = [s for s in ths if s.kind == "atomic" and s.aop == "fetch_add"]
    if len(cas) != 1 or len(mine) != 1 or len(bump) != 1:
        bad = "shape not recognised"
    else:
        c = cas[0]
        if cp.dominated_by(c.node, nodeset([mine[0].node])) is not None:
            bad = "the publishing CAS is reachable before the threshold was stored"
        # re-computed on every retry: a path from a failed CAS back to the CAS passes the store again
        if cp.find_path(c.node, lambda n: n is c.node, barrier=nodeset([mine[0].node])) is not None:
            bad = bad or "after a failed CAS the threshold is not recomputed for the new head"
        if not order_ge(c.order or "relaxed", "release"):
            bad = bad or "CAS order %s" % c.order
        # the record counter: the one local the threshold expression reads
        tv = sorted({strip(m).did for m in mine[0].value.walk() if m.k == "ImplicitCastExpr" and m.ck == "LValueToRValue" and strip(m).k == "DeclRefExpr"
                     and strip(m).dk == "local" and strip(m).did})
        tv = tv if len(tv) == 1 else []
        try:
            v = ev(cp, mine[0].value, atom_from([(is_var_load(tv[0]) if tv else (lambda n: False), 3), (is_param_load(cp, "pointers_per_thread"), 2)]))
            if v != 12:
                bad = bad or "threshold for 3 records x 2 slots = %s" % v
        except Unevaluable:
            bad = bad or "threshold expression not evaluable"
        if tv:
            # the counting local may be handed on through copies (result of a counting helper): follow them to the counter itself
            cur_, okc = tv[0], False
            for _ in range(5):
                tds = cp.defs().get(cur_, [])
                ini = [e for e in tds if e[0] == "init"]
                if ini and strip(ini[0][2]).cv == 1 and any(e[0] == "mod" for e in tds):
                    okc = True
                    break
                vals = [e for e in tds if e[0] in ("init", "assign") and e[2] is not None]
                nxt = {strip(e[2]).did for e in vals if strip(e[2]) is not None and strip(e[2]).k == "DeclRefExpr" and strip(e[2]).dk == "local"}
                if len(vals) != 1 or len(nxt) != 1:
                    break
                cur_ = nxt.pop()
            if not okc:
                bad = bad or "`threads` does not count this record plus one per older record"
        if cp.dominated_by(bump[0].node, nodeset([c.node])) is not None:
            bad = bad or "older records are bumped before the new record is published"
        isK = field_load("hazard_pointers_count")
        try:
            if ev(cp, bump[0].value, atom_from([(isK, 3)])) != 6:
                bad = bad or "older records are bumped by `%s`" % bump[0].value.text
        except Unevaluable:
            bad = bad or "bump not evaluable"
    o.check(bad is None, "threshold before CAS, bump after", bad, site=cp.loc, construct="record threshold")
    o = ctx.ob("plist.size", sc, "plist holds at least head->retire_threshold / 2 entries (= records x slots) and is reallocated when smaller",
               "a scan that collects more hazards than plist holds writes past the allocation")
    bad = None
    # the capacity local: the value stored into plist_size
    mp = sorted({strip(x.value).did for x in sc.stores_to(R, "plist_size") if x.value is not None and strip(x.value).k == "DeclRefExpr" and strip(x.value).dk == "local"})
    mal = sc.calls("malloc")
    if not mp or len(mal) != 1:
        bad = "shape not recognised"
    else:
        ini = [e for e in sc.defs().get(mp[0], []) if e[0] == "init"]
        isT = field_load("retire_threshold")
        try:
            if not ini or ev(sc, ini[0][2], atom_from([(isT, 12)])) < 6:
                bad = "max_pointers for threshold 12 is %s" % (ev(sc, ini[0][2], atom_from([(isT, 12)])) if ini else None)
            if ev(sc, sc.args(mal[0])[0], atom_from([(is_var_load(mp[0]), 6)])) < 48:
                bad = bad or "plist allocation for 6 entries is too small"
        except Unevaluable:
            bad = bad or "not evaluable"
        isPS = field_load("plist_size")
        isPL = field_load("plist")
        for ps, need in ((4, True), (6, False), (9, False)):
            got = reach(sc, mal, atom_from([(isPS, ps), (isPL, 4096), (is_var_load(mp[0]), 6)]))
            if got != need:
                bad = bad or "plist_size %d, needed 6: reallocates = %s" % (ps, got)
    o.check(bad is None, "capacity table", bad, site=sc.loc, construct="plist capacity")
    o = ctx.ob("recycle", "", "FIFO nodes go back to the free pool (or to free()) only through the gc callback that hazard_pointer_scan invokes; "
               "fiber_manager_return_mpmc_node is called directly only for a node that was never published (failed semaphore init)",
               "recycling a node directly after popping it skips the hazard check: another popper still dereferences it (ABA / use-after-free)")
    bad = None
    gcb = "fiber_manager_return_mpmc_node_internal"
    for fn, c in P.callers_of("fiber_manager_return_mpmc_node"):
        if fn.name != "fiber_semaphore_init":
            bad = bad or ("fiber_manager_return_mpmc_node called from %s" % fn.name, c)
    for fn, c in P.callers_of(gcb):
        if fn.name != "fiber_manager_return_mpmc_node":
            bad = bad or ("%s called directly from %s" % (gcb, fn.name), c)
    for fn in P.unique_functions():
        for c in fn.calls("lockfree_ring_buffer_trypush"):
            if key_mentions(fn.key(fn.args(c)[0], True), lambda x: x[0] == "glob" and x[1] == "fiber_free_mpmc_nodes") and fn.name != gcb:
                bad = bad or ("the node pool is refilled from %s" % fn.name, c)
    g = P.fn("fiber_manager_get_mpmc_node")
    gs = [s for s in g.stores() if is_field(g.target_key(s.target), None, "gc_function")]
    if not gs or not any(n.k == "DeclRefExpr" and n.name == gcb for s in gs for n in s.value.walk()):
        bad = bad or ("freshly allocated nodes do not get the recycling gc callback", g.loc)
    o.check(bad is None, "recycling only through the gc callback", bad[0] if bad else None, site=bad[1] if bad else None, construct="mpmc node recycling")
