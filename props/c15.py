"""C15 — MPSC / SPSC / relaxed-MPSC queues: each item popped once, per-producer FIFO (structural part)."""
from core import deatomic, is_atomic_load, strip, is_field, order_ge, key_str, key_mentions
from facts import AnalysisBroken
from rules import (field_load, check_init, nodeset, ev, Unevaluable, atom_from, reach, ret_const, is_var_load, is_full_fence, is_compiler_fence, is_param_load)

EXPLANATION = (
    "Decides the two-step publication skeleton: a producer terminates its node (next = NULL) before the node can be reached "
    "(before the exchange / store that makes it the tail), swaps it in as tail with release or stronger, and only then links "
    "the previous tail to it — the link target is exactly the value the swap returned; the consumer returns an item only when "
    "the stub's next is non-NULL, advances head to that next and copies its data into the stub it returns; head is written "
    "only by init / pop / destroy (single consumer).  SPSC uses the same skeleton with release stores and acquire loads.  The "
    "relaxed MPSC reduces the producer number modulo the number of sub-queues, and its pop visits every sub-queue once "
    "(counter advanced once per visit) before it reports empty.  Histories (exactly-once, order) are not decided.")
NOT_DECIDED = ["exactly-once and per-producer order over all interleavings (history property)", "real-time precedence against an observer outside the memory model (see C13)"]
ASSUMPTIONS = []


def arrow_field_store(fn, rec, field):
    return [s for s in fn.stores_to(rec, field)]


def check_push(ctx, P, name, qrec, nrec, kind):
    f = P.fn(name)
    o = ctx.ob(kind + ".push", f, "next = NULL is stored into the new node before the node becomes the tail; the tail swap is release or stronger; the old "
               "tail is linked to the new node after the swap, and the node linked to is the one the swap returned",
               "a node that becomes reachable with a stale `next` makes the consumer walk into freed or foreign memory; linking before the swap "
               "lets two producers link the same predecessor and lose a node")
    newp = f.params[1]
    nul = [s for s in f.stores_to(nrec, "next") if s.value is not None and strip(s.value).cv == 0
           and f.target_key(s.target)[3] == ("*", ("var", newp["name"], newp["did"]))]
    swaps = [s for s in f.stores_to(qrec, "tail")]
    links = [s for s in f.stores_to(nrec, "next") if s not in nul]
    bad = None
    if len(nul) != 1 or len(swaps) != 1 or len(links) != 1:
        o.fail("shape not recognised (terminator %d, tail writes %d, links %d)" % (len(nul), len(swaps), len(links)), site=f.loc, construct=kind + " push shape")
        return
    sw, lk = swaps[0], links[0]
    if f.dominated_by(sw.node, nodeset([nul[0].node])) is not None:
        bad = "the node becomes the tail before its `next` is terminated"
    if not (order_ge(sw.order or "relaxed", "release")):
        bad = bad or "the tail swap has order %s" % (sw.order or "plain")
    if f.dominated_by(lk.node, nodeset([sw.node])) is not None:
        bad = bad or "the previous tail is linked before the swap"
    if not (strip(lk.value).k == "DeclRefExpr" and strip(lk.value).did == newp["did"]):
        bad = bad or "the link stores `%s`, not the new node" % lk.value.text
    # link target: the previous tail = result of the swap (mpsc: exchange) or the tail loaded before the store (spsc)
    base = f.target_key(lk.target)[3]
    bk = f.key(strip(lk.target).kids[0], resolve=True)
    if sw.aop == "exchange":
        if not key_mentions(bk, lambda x: x[0] == "atomic" and x[1] == "exchange"):
            bad = bad or "the node linked to (`%s`) is not the previous tail returned by the exchange" % key_str(base)
    else:
        lt = [l for l in f.loads_of(qrec, "tail") if is_atomic_load(l.node)]
        if not lt or not key_mentions(deatomic(bk), lambda x: x[0] == "f" and x[1] == qrec and x[2] == "tail"):
            bad = bad or "the node linked to is not the previous tail"
        elif f.dominated_by(sw.node, nodeset([l.node for l in lt])) is not None:
            bad = bad or "the previous tail is read after the new tail was stored"
    if kind == "spsc":
        for s in (nul[0], lk):
            if not (s.kind == "atomic" and order_ge(s.order or "relaxed", "release")):
                bad = bad or "`%s` is not a release store" % s.node.text
    else:
        # mpsc: the terminator is a plain (volatile) store ordered before the exchange by the exchange's release
        pass
    o.check(bad is None, "terminate -> swap -> link", bad, site=sw.node, construct=kind + " push order")


def check_pop(ctx, P, name, qrec, nrec, kind):
    f = P.fn(name)
    o = ctx.ob(kind + ".pop", f, "an item is returned only when head->next is non-NULL; head is advanced to that next; the next node's data is copied into the "
               "returned stub; the returned node is the old head",
               "returning the stub while next is NULL hands out a node that was never pushed; not advancing head returns the same item twice")
    hs = [s for s in f.stores_to(qrec, "head")]
    ds = [s for s in f.stores_to(nrec, "data")]
    bad = None
    nx = [l for l in f.loads_of(nrec, "next")]
    if len(hs) != 1 or len(ds) != 1 or not nx:
        o.fail("shape not recognised", site=f.loc, construct=kind + " pop shape")
        return
    isnx = nodeset([l.node for l in nx])
    valrets = [r for r in f.returns() if r.kids and strip(r.kids[0]).cv != 0]
    for v in (0, 4096):
        atom = atom_from([(isnx, v)])
        got = any(reach(f, [r], atom) for r in valrets)
        if got != (v != 0):
            bad = bad or "head->next %s: a node is returned = %s" % ("NULL" if v == 0 else "set", got)
        for r in f.returns():
            if r.kids and strip(r.kids[0]).cv == 0 and reach(f, [r], atom) and v != 0:
                bad = bad or "NULL is returned although an item is available"
    for r in valrets:
        if f.dominated_by(r, nodeset([hs[0].node])) is not None or f.dominated_by(r, nodeset([ds[0].node])) is not None:
            bad = bad or "a node is returned without head having been advanced / the data copied"
        rk = f.key(r.kids[0], resolve=True)
        is_head = (rk[0] == "f" and rk[1] == qrec and rk[2] == "head") or \
                  (rk[0] == "atomic" and rk[1] == "load" and rk[2][0] == "&" and rk[2][1][0] == "f" and rk[2][1][1] == qrec and rk[2][1][2] == "head")
        if not is_head:
            bad = bad or "the node returned (`%s`) is not the old head" % r.kids[0].text
    hk = f.key(hs[0].value, resolve=True)
    if not key_mentions(hk, lambda x: (x[0] == "f" and x[2] == "next") or (x[0] == "atomic" and key_mentions(x, lambda y: y[0] == "f" and y[2] == "next"))):
        bad = bad or "head is advanced to `%s`, not to head->next" % hs[0].value.text
    dk = f.key(ds[0].value, resolve=True)
    if not key_mentions(dk, lambda x: x[0] == "f" and x[2] == "data"):
        bad = bad or "the stub's data is set to `%s`" % ds[0].value.text
    if kind == "spsc":
        for l in f.loads_of(qrec, "head") + nx:
            if is_atomic_load(l.node) and not order_ge(l.order or "relaxed", "acquire"):
                bad = bad or "load `%s` is %s" % (l.node.text, l.order)
        if not (hs[0].kind == "atomic" and order_ge(hs[0].order or "relaxed", "release")):
            bad = bad or "head store is not release"
    o.check(bad is None, "guard + advance + copy", bad, site=f.loc, construct=kind + " pop")


def run(ctx):
    P = ctx.prog()
    check_push(ctx, P, "mpsc_fifo_push", "mpsc_fifo", "mpsc_fifo_node", "mpsc")
    check_pop(ctx, P, "mpsc_fifo_trypop", "mpsc_fifo", "mpsc_fifo_node", "mpsc")
    check_push(ctx, P, "spsc_fifo_push", "spsc_fifo", "spsc_node", "spsc")
    check_pop(ctx, P, "spsc_fifo_trypop", "spsc_fifo", "spsc_node", "spsc")
    for qrec, pref in (("mpsc_fifo", "mpsc_fifo_"), ("spsc_fifo", "spsc_fifo_")):
        o = ctx.ob(pref.rstrip("_") + ".head", "", "`head` of %s is written only by its init / trypop / destroy" % qrec, "single consumer: a second writer of head loses or duplicates items")
        bad = None
        for fn in P.unique_functions():
            for s in fn.stores_to(qrec, "head"):
                if fn.name not in (pref + "init", pref + "trypop", pref + "destroy"):
                    bad = bad or ("`%s` in %s" % (s.node.text, fn.name), s.node)
        o.check(bad is None, "writers table", "unexpected writer " + (bad[0] if bad else ""), site=bad[1] if bad else None, construct=qrec + " head writer")
    # relaxed MPSC
    f = P.fn("mpscr_fifo_push")
    o = ctx.ob("mpscr.push", f, "the sub-queue index is producer_number %% num_producers and the node is pushed on that sub-queue", "an index outside the array corrupts memory; a shared sub-queue has two producers")
    pc = f.calls("spsc_fifo_push")
    bad = None
    sub = [n for n in f.all(k="ArraySubscriptExpr")]
    if len(pc) != 1 or len(sub) != 1:
        bad = "shape"
    else:
        isNP = field_load("num_producers")
        for pn, np_ in ((0, 1), (2, 3), (7, 3), (3, 3)):
            try:
                i = ev(f, sub[0].kids[1], atom_from([(is_param_load(f, "producer_number"), pn), (isNP, np_)]))
            except Unevaluable:
                i = None
            if i != pn % np_:
                bad = bad or "producer %d of %d uses sub-queue %s" % (pn, np_, i)
        k = f.key(f.args(pc[0])[0], resolve=True)
        if not key_mentions(k, lambda x: x[0] == "[]"):
            bad = bad or "push does not go to the indexed sub-queue"
    o.check(bad is None, "index table", bad, site=f.loc, construct="mpscr push index")
    f = P.fn("mpscr_fifo_trypop")
    o = ctx.ob("mpscr.pop", f, "trypop tries up to num_producers sub-queues, advancing the round-robin counter once per try, and reports empty only after all were tried",
               "an early `return NULL` reports empty while a producer's item is pending in an unvisited sub-queue")
    from symword import Machine
    pops = f.calls("spsc_fifo_trypop")
    bad = None
    if len(pops) != 1:
        bad = "shape"
    else:
        isNP = field_load("num_producers")
        for np_ in (1, 2, 3):
            for start in (0, 1, 5):
                # interpret the loop with every sub-queue empty: which indices are visited before NULL is returned?
                cnt = [start]
                visited = []
                isCnt = field_load("counter")

                def atom(n, cnt=cnt, np_=np_):
                    if isNP(n):
                        return np_
                    if isCnt(n):
                        return cnt[0]
                    if n is pops[0]:
                        return 0
                    return None
                m = Machine(f, P, atom)
                orig = m.exec_elem

                def exec_elem(n, cnt=cnt, m=m, orig=orig):
                    if n.k == "UnaryOperator" and n.op in ("++", "--") and strip(n.kids[0]).k == "MemberExpr" and strip(n.kids[0]).field == "counter":
                        cnt[0] += 1
                        return
                    if n.k == "CompoundAssignOperator" and strip(n.kids[0]).k == "MemberExpr" and strip(n.kids[0]).field == "counter":
                        cnt[0] += m.eval(n.kids[1])
                        return
                    if n is pops[0]:
                        a = strip(f.args(n)[0])
                        e = f.resolve(a)
                        for x in e.walk():
                            if x.k == "ArraySubscriptExpr":
                                visited.append(m.eval(x.kids[1]))
                    return orig(n)
                m.exec_elem = exec_elem
                try:
                    m.run("entry", lambda n: False)
                except Unevaluable as e:
                    raise AnalysisBroken("mpscr_fifo_trypop: cannot interpret (%s)" % e)
                if sorted(visited) != list(range(np_)):
                    bad = bad or "%d producers, counter %d, all empty: sub-queues visited %s before reporting empty" % (np_, start, visited)
                if cnt[0] != start + np_:
                    bad = bad or "%d producers: counter advanced by %d in one empty pass" % (np_, cnt[0] - start)
        for r in f.returns():
            if r.kids and strip(r.kids[0]).cv != 0:
                if f.guarded(r, lambda leaf, pol: strip(leaf).k == "DeclRefExpr" and pol is True) is not None:
                    bad = bad or "a node is returned that is not the non-NULL result of a sub-queue pop"
    o.check(bad is None, "empty-pass table (1..3 producers)", bad, site=f.loc, construct="mpscr pop loop")
    for name, qrec in (("mpsc_fifo_init", "mpsc_fifo"), ("spsc_fifo_init", "spsc_fifo")):
        f = P.fn(name)
        o = ctx.ob("init", f, "init allocates a zeroed stub node and makes it both head and tail", "head != tail or a stub with a stale next: the first pop walks into garbage")
        ts, hs = f.stores_to(qrec, "tail"), f.stores_to(qrec, "head")
        bad = None
        from rules import zeroed_alloc_calls
        if len(ts) != 1 or len(hs) != 1 or not zeroed_alloc_calls(f):
            bad = "stub not calloc()ed / head or tail not set"
        else:
            hk = f.key(hs[0].value, True)
            if not ((hk[0] == "f" and hk[2] == "tail") or hk == f.key(ts[0].value, True)):
                bad = "head is not the node stored in tail"
        o.check(bad is None, "head == tail == zeroed stub", bad, site=f.loc, construct="fifo init " + name)
