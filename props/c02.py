"""C02 — run queue hands each entry to exactly one taker: Chase-Lev skeleton + owner discipline."""
from core import strip, is_field, key_str, order_ge, key_mentions
from facts import AnalysisBroken
from rules import (writer_kind, field_load, through_local, nodeset, callpred, field_of, ev, Unevaluable, forced_edges, atom_from, is_load_of,
                   is_cas_on, is_full_fence, one, some, base_var)
from props import c01
import stale

EXPLANATION = (
    "Decides the Chase-Lev skeleton of work_stealing_deque.c on every path (seq_cst bottom store before the top load "
    "in pop_bottom; last element decided by the CAS on top; bottom restored on every non-success path; steal reads "
    "top, bottom, array, slot in that order and claims by CAS; push writes the slot and publishes bottom+1 with "
    "release, growing before the array is full; grown arrays keep their predecessor alive), the who-writes-what table "
    "of top/bottom/underlying_array, and the owner discipline of the scheduler (push/pop only on the calling thread's "
    "own deques through a fresh manager, steal only from the table of remote queues whose index never hits the own "
    "pair; the idle loop re-scans the queues before every bounded poll).  Exactly-once under all owner/thief "
    "interleavings needs a model of the deque and is not decided.")
NOT_DECIDED = ["exactly-once hand-over under all interleavings of owner and thieves (history property)",
               "quiescence ('no runnable fiber remains queued') as a runtime fact"]
ASSUMPTIONS = ["x86-TSO: only store->load ordering needs a full fence", "the slot value constants WSD_EMPTY/WSD_ABORT are never valid fiber pointers"]

D = "wsd_work_stealing_deque"
PUSH = "wsd_work_stealing_deque_push_bottom"
POP = "wsd_work_stealing_deque_pop_bottom"
STEAL = "wsd_work_stealing_deque_steal"
GET = "wsd_circular_array_get"
PUT = "wsd_circular_array_put"
EMPTY, ABORT = -1, -2


def const_return(fn, r):
    v = strip(r.kids[0]) if r.kids else None
    if v is None:
        return None
    v2 = fn.resolve(v)
    if v2 is not None and v2.cv is not None:
        return v2.cv
    if r.kids[0].cv is not None:
        return r.kids[0].cv
    return None


def check_pop(ctx, P):
    f = P.fn(POP)
    bstores = some(f.stores_to(D, "bottom"), "store to bottom", f, 2)
    tloads = some([l for l in f.loads_of(D, "top")], "load of top", f)
    isB = is_load_of(f, D, "bottom")
    isT_first = None
    # the first load of top: the one not dominated by another top load
    plain_tloads = [l for l in tloads if not any(s.node is l.node for s in f.stores())]
    first_t = one([l for l in plain_tloads if f.find_path("entry", lambda n: n is l.node,
                   barrier=nodeset([m.node for m in plain_tloads if m is not l])) is not None],
                  "first load of top", f)
    # pop.fence ------------------------------------------------------------
    o = ctx.ob("pop.fence", f,
               "a store to `bottom` dominates the load of `top` and is ordered before it by a full fence "
               "(seq_cst store / locked RMW / store_load_barrier between them)",
               "without the store->load fence the owner and a thief can both see the old values and both take "
               "the last element (run twice) — the store buffer hides the decrement from the thief")
    sids = nodeset([s.node for s in bstores])
    w = f.dominated_by(first_t.node, sids)
    if w is not None:
        o.fail("load of top at %s is reachable without a preceding store to bottom" % first_t.node.loc,
               site=first_t.node, witness=w, construct="top load not dominated by bottom store")
    else:
        full = is_full_fence(f)
        # every path from a bottom store to the top load must contain a full fence, unless the store itself is one
        bad = None
        for s in bstores:
            if full(s.node):
                continue
            w = f.find_path(s.node, lambda n: n is first_t.node, barrier=lambda n: full(n) or (sids(n) and n is not s.node))
            if w is not None:
                bad = (s, w)
                break
        if bad:
            o.fail("store `%s` (order %s) reaches the load of top with no full fence in between"
                   % (bad[0].node.text, bad[0].order or "plain"), site=bad[0].node, witness=bad[1],
                   construct="bottom store -> top load without full fence")
        else:
            o.ok("bottom store %s before top load %s" % ([s.node.loc for s in bstores if full(s.node)], first_t.node.loc),
                 [first_t.node])
    o = ctx.ob("pop.order.top", f, "the load of `top` is at least acquire (the compiler may not move it)", "")
    o.check(order_ge(first_t.order or "relaxed", "acquire") if first_t.kind == "atomic" else False,
            "order %s" % first_t.order, "load of top has order %s" % (first_t.order or "plain"), site=first_t.node,
            construct="top load order")

    # table over (B, T): B = value loaded from bottom, T = value loaded from top
    casT = is_cas_on(f, D, "top")
    cas_ok = lambda leaf, pol: casT(through_local(f, leaf)) and pol is True
    cas_fail = lambda leaf, pol: casT(through_local(f, leaf)) and pol is False
    first_b = [l for l in f.loads_of(D, "bottom")]
    isBn = nodeset([l.node for l in first_b])
    isTn = lambda n: n is first_t.node
    rets = f.returns()
    valrets = [r for r in rets if const_return(f, r) is None]
    ctx.expect_count("pop_bottom value returns", len(valrets), 1)
    o1 = ctx.ob("pop.last", f,
                "the slot value is returned without a successful CAS on `top` only when more than one element "
                "remains (bottom-1-top > 0); with exactly one element the CAS decides",
                "returning the last element without winning the CAS hands it to the owner and to a thief")
    o2 = ctx.ob("pop.empty", f,
                "WSD_EMPTY is returned only when the deque was empty (bottom-1-top < 0), WSD_ABORT only after a lost CAS",
                "reporting EMPTY/ABORT for an element that is present drops a runnable fiber on the floor of the loop "
                "only if bottom is not restored; reporting it while also returning it elsewhere duplicates it")
    o3 = ctx.ob("pop.restore", f,
                "after the decrement, every path that does not return the element under size>0 stores `bottom` again, "
                "with `top` on empty and `top+1` after the CAS (both outcomes)",
                "a path that leaves bottom decremented loses one queue slot for ever: the entry at the old bottom is "
                "never popped or stolen (lost fiber)")
    dec = [s for s in bstores if f.find_path("entry", lambda n: n is s.node,
           barrier=nodeset([x.node for x in bstores if x is not s])) is not None]
    dec = one(dec, "first (decrementing) store to bottom", f)
    bad1 = bad2 = bad3 = None
    cases = 0
    # small values, and the same pairs shifted beyond 2^32 (top and bottom only ever grow; a narrowed local breaks there)
    for B, T in [(b_, t_) for b_ in range(0, 5) for t_ in range(0, 5)] + [(2 ** 32 + b_, 2 ** 32 + t_) for b_ in range(0, 5) for t_ in range(1, 4)] + \
                [(2 ** 32 + 1, 2 ** 32 - 1), (2 ** 31 + 2, 2 ** 31)]:
        if True:
            atom = atom_from([(isBn, B), (isTn, T)])
            size = B - 1 - T
            cases += 1
            try:
                if ev(f, dec.value, atom) != B - 1:
                    bad3 = bad3 or ("first bottom store writes %s, expected bottom-1" % dec.value.text, dec.node, None)
            except Unevaluable:
                raise AnalysisBroken("pop_bottom: cannot evaluate the decremented bottom value")
            e_nocas = forced_edges(f, atom, forbid=cas_ok)
            e_all = forced_edges(f, atom)
            for r in valrets:
                w = f.find_path("entry", lambda n: n is r, edge_ok=e_nocas)
                if w is not None and not size > 0:
                    bad1 = bad1 or ("with bottom=%d top=%d (remaining %d) the slot value is returned at %s without "
                                    "winning the CAS" % (B, T, size, r.loc), r, w)
            if size >= 0 and not any(f.find_path("entry", lambda n, r=r: n is r, edge_ok=e_all) for r in valrets):
                bad1 = bad1 or ("with bottom=%d top=%d the element can never be returned" % (B, T), valrets[0], None)
            for r in rets:
                cv = const_return(f, r)
                if cv == EMPTY:
                    w = f.find_path("entry", lambda n: n is r, edge_ok=e_all)
                    if w is not None and not size < 0:
                        bad2 = bad2 or ("WSD_EMPTY returned with bottom=%d top=%d (an element is present)" % (B, T), r, w)
                    if w is None and size < 0:
                        bad2 = bad2 or ("empty deque (bottom=%d top=%d) does not report WSD_EMPTY" % (B, T), r, None)
                elif cv == ABORT:
                    e_nofail = forced_edges(f, atom, forbid=cas_fail)
                    w = f.find_path("entry", lambda n: n is r, edge_ok=e_nofail)
                    if w is not None:
                        bad2 = bad2 or ("WSD_ABORT returned at %s without a failed CAS" % r.loc, r, w)
            # restore
            others = [s for s in bstores if s is not dec]
            oth = nodeset([s.node for s in others])
            w = f.find_path(dec.node, "exit", barrier=oth, edge_ok=e_all)
            if w is not None and not size > 0:
                bad3 = bad3 or ("with bottom=%d top=%d a path leaves bottom decremented" % (B, T), dec.node, w)
            for s in others:
                if f.find_path(dec.node, lambda n: n is s.node, edge_ok=e_all) is None:
                    continue
                try:
                    v = ev(f, s.value, atom)
                except Unevaluable:
                    bad3 = bad3 or ("cannot evaluate restored value `%s`" % s.value.text, s.node, None)
                    continue
                want = T if size < 0 else T + 1
                if v != want:
                    bad3 = bad3 or ("bottom restored to %d, expected %d (bottom=%d top=%d) by `%s`" % (v, want, B, T, s.node.text), s.node, None)
    for o, bad, c in ((o1, bad1, "value return without CAS"), (o2, bad2, "EMPTY/ABORT table"), (o3, bad3, "bottom restore")):
        if bad:
            o.fail(bad[0], site=bad[1], witness=bad[2], construct=c)
        else:
            o.ok("table over bottom,top in 0..4 (%d cases)" % cases)
    # slot read: array and slot read before the CAS
    gets = some(f.calls(GET), "slot read", f)
    casn = [s.node for s in f.stores_to(D, "top") if s.aop == "cas"]
    o = ctx.ob("pop.slot", f, "the slot is read before the CAS on top (afterwards the slot may be overwritten)",
               "after the CAS released the slot a push may reuse it; reading afterwards returns the wrong fiber")
    bad = None
    for c in casn:
        if f.find_path(c, nodeset(gets)) is not None:
            bad = c
    o.check(bad is None, "slot read at %s precedes CAS" % gets[0].loc, "slot read reachable after the CAS", site=bad,
            construct="slot read after CAS")


def check_steal(ctx, P):
    f = P.fn(STEAL)
    lt = some(f.loads_of(D, "top"), "load of top", f)
    lb = some(f.loads_of(D, "bottom"), "load of bottom", f)
    la = some(f.loads_of(D, "underlying_array"), "load of underlying_array", f)
    gets = some(f.calls(GET), "slot read", f)
    cas = some([s for s in f.stores_to(D, "top") if s.aop == "cas"], "CAS on top", f)
    plain_t = [l for l in lt if not any(s.node is l.node for s in cas)]
    chain = [("load top", [l.node for l in plain_t]), ("load bottom", [l.node for l in lb]),
             ("load underlying_array", [l.node for l in la]), ("slot read", gets), ("CAS top", [s.node for s in cas])]
    o = ctx.ob("steal.order", f, "load top -> load bottom -> load array -> slot read -> CAS top, each dominating the next",
               "reading bottom before top lets the thief pair a stale bottom with a fresh top and steal an element the "
               "owner already popped; reading the slot after the CAS races with the owner re-using it")
    bad = None
    for (na, A), (nb, Bn) in zip(chain, chain[1:]):
        for b in Bn:
            w = f.dominated_by(b, nodeset(A))
            if w is not None:
                bad = bad or ("%s at %s is not preceded by %s on every path" % (nb, b.loc, na), b, w, "%s before %s" % (nb, na))
    if bad:
        o.fail(bad[0], site=bad[1], witness=bad[2], construct=bad[3])
    else:
        o.ok("chain holds", [x[1][0] for x in chain])
    o = ctx.ob("steal.orders", f, "the loads of top and bottom are at least acquire", "compiler may otherwise reorder them")
    badl = [l for l in plain_t + lb if not (l.kind == "atomic" and order_ge(l.order or "relaxed", "acquire"))]
    o.check(not badl, "acquire or stronger", "load `%s` is %s" % (badl[0].node.text, badl[0].order or "plain") if badl else None,
            site=badl[0].node if badl else None, construct="steal load order")
    # value return guarded by CAS success, EMPTY iff bottom - top <= 0
    casT = is_cas_on(f, D, "top")
    cas_ok = lambda leaf, pol: casT(through_local(f, leaf)) and pol is True
    isBn = nodeset([l.node for l in lb])
    isTn = nodeset([l.node for l in plain_t])
    o = ctx.ob("steal.claim", f, "the slot value is returned only after a successful CAS on top and only if bottom-top > 0",
               "a thief that returns the value after losing the CAS duplicates a fiber that somebody else took")
    bad = None
    for B, T in [(b_, t_) for b_ in range(0, 4) for t_ in range(0, 4)] + [(2 ** 32 + b_, 2 ** 32 + t_) for b_ in range(0, 4) for t_ in range(1, 3)] + \
                [(2 ** 32 + 1, 2 ** 32 - 1), (2 ** 31 + 2, 2 ** 31)]:
        if True:
            atom = atom_from([(isBn, B), (isTn, T)])
            for r in f.returns():
                if const_return(f, r) is not None:
                    continue
                w = f.find_path("entry", lambda n: n is r, edge_ok=forced_edges(f, atom, forbid=cas_ok))
                if w is not None:
                    bad = bad or ("value returned at %s without winning the CAS" % r.loc, r, w)
                w = f.find_path("entry", lambda n: n is r, edge_ok=forced_edges(f, atom))
                if w is not None and not B - T > 0:
                    bad = bad or ("value returned with bottom=%d top=%d (empty)" % (B, T), r, w)
                if w is None and B - T > 0:
                    bad = bad or ("non-empty deque (bottom=%d top=%d) can never be stolen from" % (B, T), r, None)
    if bad:
        o.fail(bad[0], site=bad[1], witness=bad[2], construct="steal value return")
    else:
        o.ok("table over bottom,top in 0..3")
    # CAS increments top by one
    o = ctx.ob("steal.inc", f, "the CAS moves top from the value read to that value + 1", "")
    c = cas[0]
    try:
        v = ev(f, c.value, atom_from([(isTn, 7)]))
    except Unevaluable:
        v = None
    o.check(v == 8, "top+1", "CAS desired value is `%s`" % c.value.text, site=c.node, construct="steal CAS desired")


def check_push(ctx, P):
    f = P.fn(PUSH)
    puts = some(f.calls(PUT), "slot write", f)
    bst = some(f.stores_to(D, "bottom"), "store to bottom", f)
    o = ctx.ob("push.publish", f, "the slot write dominates the store to `bottom`, which is at least release and writes bottom+1",
               "publishing bottom before the slot is written lets a thief steal an uninitialised slot")
    lb = f.loads_of(D, "bottom")
    isBn = nodeset([l.node for l in lb])
    bad = None
    for s in bst:
        w = f.dominated_by(s.node, nodeset(puts))
        if w is not None:
            bad = bad or ("bottom store at %s not preceded by the slot write" % s.node.loc, s.node, w, "bottom store before slot write")
        if not (s.kind == "atomic" and order_ge(s.order or "relaxed", "release")) and s.order != "seq_cst":
            bad = bad or ("bottom store has order %s" % (s.order or "plain"), s.node, None, "bottom store order")
        try:
            if ev(f, s.value, atom_from([(isBn, 5)])) != 6 or ev(f, s.value, atom_from([(isBn, 2 ** 32 + 5)])) != 2 ** 32 + 6:
                bad = bad or ("bottom store writes `%s`, expected bottom+1 (also beyond 2^32)" % s.value.text, s.node, None, "bottom store value")
        except Unevaluable:
            bad = bad or ("cannot evaluate `%s`" % s.value.text, s.node, None, "bottom store value")
    if bad:
        o.fail(bad[0], site=bad[1], witness=bad[2], construct=bad[3])
    else:
        o.ok("put at %s, bottom store at %s" % (puts[0].loc, bst[0].node.loc), puts)
    # slot index is the old bottom
    o = ctx.ob("push.slot", f, "the slot written is the one at index `bottom` (as loaded)", "")
    p = puts[0]
    BIG = 2 ** 32 + 5          # bottom only grows: 2^32 pushes on one deque are minutes of yielding
    try:
        v = [ev(f, f.args(p)[1], atom_from([(isBn, x)])) for x in (5, BIG)]
    except Unevaluable:
        v = None
    o.check(v == [5, BIG], "index = bottom (also beyond 2^32)", "slot index for bottom = 5, 2^32+5 is %s (`%s`)" % (v, f.args(p)[1].text), site=p, construct="push slot index")
    # growth
    grows = f.calls("wsd_circular_array_grow")
    o = ctx.ob("push.grow", f, "the array is grown before a slot would be overwritten: with bottom-top == capacity "
               "no path reaches the slot write without passing wsd_circular_array_grow; the new array is installed in "
               "`underlying_array` before `bottom` is published, and the slot is written into the new array",
               "writing into a full ring overwrites the oldest unread entry (lost fiber)")
    if not grows:
        o.fail("push_bottom never grows the array", site=f.loc, construct="no grow")
    else:
        lt = f.loads_of(D, "top")
        isTn = nodeset([l.node for l in lt])
        isM = field_load("size_minus_one")
        isS = field_load("size", "wsd_circular_array")
        bad = None
        for M in (3, 7):
            for T in (0, 2):
                B = T + M + 1
                atom = atom_from([(isBn, B), (isTn, T), (isM, M), (isS, M + 1)])
                w = f.find_path("entry", nodeset(puts), barrier=nodeset(grows), edge_ok=forced_edges(f, atom))
                if w is not None:
                    bad = bad or ("with a full array (capacity %d, bottom-top=%d) the slot write is reachable without growing" % (M + 1, B - T), puts[0], w)
        ast = f.stores_to(D, "underlying_array")
        if not bad:
            for g in grows:
                w = f.find_path(g, nodeset([s.node for s in bst]), barrier=nodeset([s.node for s in ast]))
                if w is not None:
                    bad = ("after growing, `bottom` is published before the new array is installed", g, w)
                # the put after grow must use the grown array: its array argument has the grow result among its reaching defs
                for pcall in puts:
                    a0 = strip(f.args(pcall)[0])
                    if a0.k == "DeclRefExpr" and a0.did:
                        from rules import may_flow_from
                        if not may_flow_from(f, a0, lambda m, g=g: m is g):
                            bad = bad or ("the slot is written into `%s`, which never holds the grown array" % a0.name, pcall, None)
        if bad:
            o.fail(bad[0], site=bad[1], witness=bad[2], construct="grow discipline")
        else:
            o.ok("grow at %s guards the slot write" % grows[0].loc, grows)


def check_fields(ctx, P):
    allowed = {
        "top": {"wsd_work_stealing_deque_create": {"assign"}, POP: {"cas"}, STEAL: {"cas"}},
        "bottom": {"wsd_work_stealing_deque_create": {"assign"}, POP: {"assign"}, PUSH: {"assign"}},
        "underlying_array": {"wsd_work_stealing_deque_create": {"assign"}, PUSH: {"assign"}},
    }
    for field, table in allowed.items():
        o = ctx.ob("fields." + field, "", "`%s` is written only by %s" % (field, ", ".join("%s(%s)" % (k, "/".join(sorted(v))) for k, v in table.items())),
                   "a second writer of bottom (or a plain store to top) breaks the single-owner / CAS-only protocol the deque relies on")
        bad = None
        n = 0
        for fn in P.unique_functions():
            for s in fn.stores_to(D, field):
                n += 1
                kind = writer_kind(s)
                if fn.name not in table or kind not in table[fn.name]:
                    bad = bad or ("`%s` in %s (%s)" % (s.node.text, fn.name, kind), s.node, "%s writer %s %s" % (field, fn.name, kind))
        ctx.expect_count("writers of " + field, n, 1)
        if bad:
            o.fail("unexpected writer " + bad[0], site=bad[1], construct=bad[2])
        else:
            o.ok("%d writer sites" % n)


def check_grow(ctx, P):
    g = P.fn("wsd_circular_array_grow")
    o = ctx.ob("grow.keep", g, "the grown array keeps the old one alive (`prev` = old array on the success path) and "
               "push_bottom cannot reach free()/wsd_circular_array_destroy",
               "a thief that loaded the old array pointer before the swap still reads its slot from the old array; "
               "freeing it makes that read a use-after-free")
    ps = g.stores_to("wsd_circular_array", "prev")
    a_param = g.params[0]["did"]
    good = [s for s in ps if strip(s.value).k == "DeclRefExpr" and strip(s.value).did == a_param]
    bad = None
    if not good:
        bad = ("grow does not link the old array into `prev`", g.loc, None)
    else:
        for r in g.returns():
            v = g.resolve(r.kids[0]) if r.kids else None
            if v is not None and v.cv == 0:
                continue
            w = g.dominated_by(r, nodeset([s.node for s in good]))
            if w is not None:
                bad = ("a successful return at %s is reachable without setting prev" % r.loc, r, w)
    reach = P.reaches({"free", "wsd_circular_array_destroy", "munmap", "realloc"})
    if PUSH in reach:
        bad = bad or ("push_bottom can reach free()/destroy", P.fn(PUSH).loc, None)
    if bad:
        o.fail(bad[0], site=bad[1], witness=bad[2], construct="grow keeps old array")
    else:
        o.ok("prev linked at %s" % good[0].node.loc, [good[0].node])


def check_grow_copy(ctx, P):
    from symword import Machine
    g = P.fn("wsd_circular_array_grow")
    o = ctx.ob("grow.copy", g, "growing copies every live entry: for each index i in [start, end) the new array's slot i receives the old array's slot i; the new "
               "array has twice the capacity", "an entry that is not copied is a runnable fiber that is never run again; an entry copied to another index is run "
               "in place of a different one (\"including while a queue grows\")")
    bad = None
    cr = g.calls("wsd_circular_array_create")
    if len(cr) != 1:
        bad = "shape"
    else:
        isls = field_load("log_size")
        for S, E in ((0, 0), (3, 7), (250, 256), (5, 6), (2 ** 40, 2 ** 40 + 3)):
            from rules import is_param_load
            base = atom_from([(is_param_load(g, "start"), S), (is_param_load(g, "end"), E), (isls, 8),
                              (lambda n: n is cr[0], 0x9000), (is_param_load(g, "a"), 0x7000)])
            m = Machine(g, P, base)
            gets, puts = [], []
            orig = m.exec_elem

            def ex(n, m=m, orig=orig, gets=gets, puts=puts):
                if n.k == "CallExpr" and n.callee == GET:
                    gets.append((m.eval(g.args(n)[0]), m.eval(g.args(n)[1])))
                if n.k == "CallExpr" and n.callee == PUT:
                    puts.append((m.eval(g.args(n)[0]), m.eval(g.args(n)[1])))
                return orig(n)
            m.exec_elem = ex
            try:
                m.run("entry", lambda n: n.k == "ReturnStmt" and False, max_blocks=3000)
                arg = m.eval(g.args(cr[0])[0])
            except Unevaluable as e:
                raise AnalysisBroken("wsd_circular_array_grow: cannot interpret the copy loop (%s)" % e)
            want = list(range(S, E))
            if [i for _, i in gets] != want or [i for _, i in puts] != want:
                bad = bad or "start=%d end=%d: reads slots %s, writes slots %s" % (S, E, [i for _, i in gets][:8], [i for _, i in puts][:8])
            if any(a != 0x7000 for a, _ in gets) or any(a != 0x9000 for a, _ in puts):
                bad = bad or "the copy does not go from the old array to the new one"
            if arg != 9:
                bad = bad or "the new array is created with log_size %s, expected old+1" % arg
    o.check(bad is None, "copy loop interpreted for 5 ranges", bad, site=g.loc, construct="grow copy loop")
    o = ctx.ob("array.index", "", "slot i of an array lives at data[i & size_minus_one]; create sets size = 2^log_size and size_minus_one = size - 1",
               "get and put must agree on the slot of an index, for negative-free 64-bit indices beyond the capacity (wrap)")
    bad = None
    ism = field_load("size_minus_one")
    for name in (GET, PUT):
        f = P.fn(name)
        subs = f.all(k="ArraySubscriptExpr")
        if len(subs) != 1:
            bad = bad or name + ": shape"
            continue
        from rules import is_param_load
        for i, msk in ((5, 255), (256, 255), (1023, 255), (2 ** 33 + 7, 511)):
            try:
                v = ev(f, subs[0].kids[1], atom_from([(is_param_load(f, "i"), i), (ism, msk)]))
            except Unevaluable:
                v = None
            if v != i & msk:
                bad = bad or "%s: index %d with mask %d -> slot %s" % (name, i, msk, v)
    c = P.fn("wsd_circular_array_create")
    from rules import is_param_load
    for fld, want in (("size", lambda k: 1 << k), ("size_minus_one", lambda k: (1 << k) - 1)):
        st = c.stores_to("wsd_circular_array", fld)
        if len(st) != 1:
            bad = bad or "create: %s not stored once" % fld
            continue
        for k in (3, 8, 9):
            szl = field_load("size")
            try:
                v = ev(c, st[0].value, atom_from([(is_param_load(c, "log_size"), k), (szl, 1 << k)]))
            except Unevaluable:
                v = None
            if v != want(k):
                bad = bad or "create(log_size=%d): %s = %s" % (k, fld, v)
    o.check(bad is None, "mask tables", bad, site=c.loc, construct="array index mask")


def check_owner(ctx, P):
    S = "fiber_scheduler_wsd"
    own = {"fiber_scheduler_schedule", "fiber_scheduler_next", "fiber_scheduler_load_balance"}
    o = ctx.ob("owner.callers", "", "push_bottom/pop_bottom are called only from the scheduler entry points, on a deque "
               "field of the scheduler object passed in; steal only from load_balance on an entry of the remote-queue table",
               "bottom has exactly one writer by construction; a push or pop from any other thread breaks the deque")
    bad = None
    n = 0
    for name in (PUSH, POP):
        for fn, c in P.callers_of(name):
            n += 1
            if fn.name not in own:
                bad = bad or ("%s called from %s" % (name, fn.name), c, "%s caller %s" % (name, fn.name))
                continue
            from rules import possible_values
            pd = {p["did"] for p in fn.params}
            for v in possible_values(fn, fn.args(c)[0]):
                k = fn.key(v, resolve=True)
                bv = base_var(k)
                if not (is_field(k, S, ("schedule_from", "store_to", "queue_one", "queue_two")) and bv and bv[0] == "var"):
                    bad = bad or ("%s in %s on `%s`, not a deque field of the scheduler" % (name, fn.name, key_str(k)), c, "%s arg %s" % (name, fn.name))
                    continue
                # the root must be the function's own scheduler parameter (directly or via a cast local)
                if bv[2] not in pd:
                    bad = bad or ("%s in %s: deque is not reached from the function's own scheduler argument" % (name, fn.name), c, "%s root %s" % (name, fn.name))
    for fn, c in P.callers_of(STEAL):
        n += 1
        if fn.name != "fiber_scheduler_load_balance":
            bad = bad or ("steal called from %s" % fn.name, c, "steal caller " + fn.name)
            continue
        k = fn.key(fn.args(c)[0], resolve=True)
        if not (k[0] == "[]" and base_var(k) == ("glob", "fiber_scheduler_thread_queues")):
            bad = bad or ("steal on `%s`, not an entry of fiber_scheduler_thread_queues" % key_str(k), c, "steal arg")
    ctx.expect_count("deque call sites", n, 5)
    if bad:
        o.fail(bad[0], site=bad[1], construct=bad[2])
    else:
        o.ok("%d call sites" % n)

    # owner.index: the steal loop never visits the own pair and visits every other queue once
    lb = P.fn("fiber_scheduler_load_balance")
    o = ctx.ob("owner.index", lb, "the steal loop's index never equals 2*id or 2*id+1 and takes every other value of 0..2n-1 exactly once (n = 1..16)",
               "stealing from one's own deque makes the owner a thief of itself: pop and steal race on one thread's two ends")
    fors = [n for n in lb.all(k="ForStmt")]
    steals = lb.calls(STEAL)
    loop = None
    for fs in fors:
        if any(fs.contains(s) for s in steals):
            loop = fs if loop is None or loop.contains(fs) is False else loop
            break
    if loop is None:
        raise AnalysisBroken("load_balance: the for-loop around the steal not found")
    # ForStmt children: init, (condvar), cond, inc, body
    kids = loop.kids
    cond = [k for k in kids[:-1] if k is not None and k.k == "BinaryOperator" and k.op in ("<", "<=", "!=", ">", ">=")]
    inc = [k for k in kids[:-1] if k is not None and k.k in ("UnaryOperator", "CompoundAssignOperator")]
    if len(cond) != 1 or len(inc) != 1:
        raise AnalysisBroken("load_balance: loop shape not recognised")
    cond, inc = cond[0], inc[0]
    ivar = strip(inc.kids[0])
    idx_arg = None
    k = lb.key(lb.args(steals[0])[0], resolve=True)
    # index expression node: subscript index of the remote queue
    sub = [n for n in lb.all(k="ArraySubscriptExpr") if lb.key(n.kids[0])[0:2] == ("glob", "fiber_scheduler_thread_queues")]
    if not sub:
        raise AnalysisBroken("load_balance: remote queue subscript not found")
    idx = sub[0].kids[1]
    is_id = field_load("id")
    is_n = lambda n: n.k == "ImplicitCastExpr" and n.ck == "LValueToRValue" and strip(n).k == "DeclRefExpr" and strip(n).name == "fiber_scheduler_num_threads"
    bad = None
    cases = 0
    ivar_did = ivar.did
    # initial value of the loop variable: its reaching definition at the loop condition
    iuse = [n for n in cond.walk() if n.k == "DeclRefExpr" and n.did == ivar_did]
    idefs = [e for e in lb.defs().get(ivar_did, []) if e[0] in ("init", "assign")]
    if len(idefs) != 1:
        raise AnalysisBroken("load_balance: loop variable has %d definitions" % len(idefs))
    for nthreads in range(1, 17):
        for tid in range(nthreads):
            base = atom_from([(is_id, tid), (is_n, nthreads)])
            try:
                i0 = ev(lb, idefs[0][2], base)

                def load_of_local(n):
                    if n.k == "ImplicitCastExpr" and n.ck == "LValueToRValue":
                        m = strip(n)
                        if m.k == "DeclRefExpr" and m.dk == "local" and m.did:
                            return m
                    return None
                # loop-invariant locals (end, mod): evaluated once, with the loop variable at its initial value
                fixed = {}
                def atom0(n):
                    m = load_of_local(n)
                    if m is not None and m.did == ivar_did:
                        return i0
                    return base(n)
                for sub in (cond, idx):
                    for n in sub.walk():
                        m = load_of_local(n)
                        if m is not None and m.did != ivar_did and m.did not in fixed:
                            v = lb.reaching_def(m)
                            if v is None:
                                raise Unevaluable("local %s has no unique definition" % m.name)
                            # `index` is defined inside the loop from i: leave those to the per-iteration evaluation
                            if any((x.k == "DeclRefExpr" and x.did == ivar_did) for x in v.walk()) and loop.contains(v):
                                continue
                            fixed[m.did] = ev(lb, v, atom0)
                i = i0
                seen = []
                steps = 0
                while True:
                    def atom(n, i=i):
                        m = load_of_local(n)
                        if m is not None:
                            if m.did == ivar_did:
                                return i
                            if m.did in fixed:
                                return fixed[m.did]
                        return base(n)
                    if not ev(lb, cond, atom):
                        break
                    seen.append(ev(lb, idx, atom))
                    i += 1 if (inc.op in ("++", "+=")) else -1
                    steps += 1
                    if steps > 200:
                        raise Unevaluable("loop does not terminate")
            except Unevaluable as e:
                raise AnalysisBroken("load_balance: cannot evaluate the steal loop (%s)" % e)
            cases += 1
            own_idx = {2 * tid, 2 * tid + 1}
            want = sorted(set(range(2 * nthreads)) - own_idx)
            if set(seen) & own_idx:
                bad = bad or "n=%d id=%d: the loop visits its own queue index %s" % (nthreads, tid, sorted(set(seen) & own_idx))
            elif sorted(seen) != want:
                bad = bad or "n=%d id=%d: visits %s, expected each of %s once" % (nthreads, tid, seen, want)
    if bad:
        o.fail(bad, site=idx, construct="steal index table")
    else:
        o.ok("%d (n,id) cases enumerated" % cases, [idx])

    # idle loop
    tf = P.fn("fiber_manager_thread_func")
    o = ctx.ob("idle", tf, "every blocking poll / real sleep of the idle loop is preceded in the same iteration by load_balance and "
               "fiber_scheduler_next, and its timeout is a finite constant",
               "a fiber left in store_to while the thread blocks without a timeout (or without re-scanning) is never run")
    blocking = tf.calls({"fiber_poll_events_blocking", "fiber_do_real_sleep"})
    ctx.expect_count("idle blocking calls", len(blocking), 1)
    bad = None
    for c in blocking:
        for need in ("fiber_scheduler_load_balance", "fiber_scheduler_next"):
            # walk backwards is not available: check that from the previous blocking call (or entry) no path reaches c avoiding `need`
            w = tf.dominated_by(c, callpred(need))
            if w is not None:
                bad = bad or ("%s reachable without %s" % (c.text, need), c, w)
            for c2 in blocking:
                w = tf.find_path(c2, lambda n: n is c, barrier=callpred(need))
                if w is not None:
                    bad = bad or ("%s can be reached again from %s without %s in between" % (c.callee, c2.callee, need), c, w)
        for a in tf.args(c):
            if a.cv is None or a.cv > 1000000:
                bad = bad or ("timeout argument `%s` is not a bounded constant" % a.text, c, None)
    if bad:
        o.fail(bad[0], site=bad[1], witness=bad[2], construct="idle loop discipline")
    else:
        o.ok("%d blocking calls" % len(blocking), blocking)


def run(ctx):
    P = ctx.prog()
    c01.core_dependency(ctx, P, "core.dep", (),
                        "the run queues' owners (one manager per kernel thread, scheduled through a fresh manager pointer)",
                        'two kernel threads acting as owner of one deque push and pop concurrently: an entry is dropped or handed out twice')
    check_pop(ctx, P)
    check_steal(ctx, P)
    check_push(ctx, P)
    check_fields(ctx, P)
    check_grow(ctx, P)
    check_grow_copy(ctx, P)
    check_owner(ctx, P)
    stale.check_stale(ctx, P, rule="owner.fresh",
                      why="scheduling through a stale manager pushes onto another kernel thread's deque: two writers of `bottom`")


def thorough(ctx):
    for cfg in ("debug", "malloc"):
        ctx.config = cfg
        Q = ctx.prog(cfg)
        check_pop(ctx, Q)
        check_steal(ctx, Q)
        check_push(ctx, Q)
    ctx.config = "pinned"
    return {}
