"""C04 — join / tryjoin / detach: result delivered once, fiber reclaimed once, never early (structural part)."""
from core import strip, is_field, key_mentions, order_ge, key_str
from facts import AnalysisBroken
from rules import (writer_kind, check_init, nodeset, ev, Unevaluable, forced_edges, atom_from, reach, atomic_ops, ret_const, callpred)
import stale
from props import c01

EXPLANATION = (
    "Decides the rendezvous structure: detach_state is moved only by compare-exchange from a named state after creation "
    "(transition table: completed NONE->WFJ; join NONE->WTJ, WFJ->WTJ; tryjoin WFJ->WTJ; detach NONE->DET, WFJ->DET); for every "
    "sequence of states its accesses can observe (other parties moving the state in between), each of fiber_mark_completed / "
    "fiber_join / fiber_tryjoin / fiber_detach (each path interpreted concretely, the compare-exchange updating its expected local) "
    "makes only a legal transition and takes exactly the specified action (first party parks through the deferred set_and_wait on the fiber's join_info; second party takes the "
    "sleeper with clear_or_wait, marks it READY and schedules it, in that order; every other value is an error return "
    "without blocking); the finished fiber's result is stored before its state exchange and copied into a waiting joiner "
    "before that joiner is scheduled; join/tryjoin read the result only after having observed WAIT_FOR_JOINER and before "
    "waking the finished fiber, and never touch it afterwards; tryjoin can block only behind that observation; reclamation "
    "is the C01 done-fiber hand-over.  At-most-one-joiner and never-early over all orderings are not decided.")
NOT_DECIDED = ["at most one joiner succeeds / never early across all orderings", "use after reclaim by user code"]
ASSUMPTIONS = ["FIBER_DETACH_NONE=0, WAIT_FOR_JOINER=1, WAIT_TO_JOIN=2, DETACHED=3 (read from the macro spellings)"]
F = "fiber"
NONE, WFJ, WTJ, DET = 0, 1, 2, 3
SAW, COW = "fiber_manager_set_and_wait", "fiber_manager_clear_or_wait"
SCHED = c01.SCHED


# moves other parties can make on detach_state between two of our accesses
MOVES = {NONE: (WFJ, WTJ, DET), WFJ: (WTJ, DET), WTJ: (), DET: ()}
NAMES = {NONE: "NONE", WFJ: "WAIT_FOR_JOINER", WTJ: "WAIT_TO_JOIN", DET: "DETACHED"}


def later(s):
    out, todo = {s}, [s]
    while todo:
        for t in MOVES[todo.pop()]:
            if t not in out:
                out.add(t)
                todo.append(t)
    return sorted(out)


def ds_load(f):
    ids = {l.node.id for l in f.loads_of(F, "detach_state") if l.node.k != "AtomicExpr"}
    return lambda n: n.id in ids


class Shape(Exception):
    pass


def cas_sites(f, new):
    """The compare-exchanges on detach_state in f, ordered by dominance, with their shared `expected` local and its initial value."""
    cs = [s for s in atomic_ops(f, F, "detach_state") if s.aop == "cas"]
    if not cs or len(cs) > 2:
        raise Shape("expected one or two compare-exchanges on detach_state, found %d" % len(cs))
    dids = set()
    for c in cs:
        if strip(c.value).cv != new:
            raise Shape("`%s` installs %s, not %s" % (c.node.text, strip(c.value).cv, NAMES[new]))
        e = strip(c.expected)
        v = strip(e.kids[0]) if e is not None and e.k == "UnaryOperator" and e.op == "&" and e.kids else None
        if v is None or v.k != "DeclRefExpr":
            raise Shape("the expected value of `%s` is not the address of a local" % c.node.text)
        dids.add(v.did)
    if len(dids) != 1:
        raise Shape("the compare-exchanges use different expected locals")
    did = dids.pop()
    if len(cs) == 2:
        if f.find_path(cs[1].node, lambda n: n is cs[0].node) is not None and f.find_path(cs[0].node, lambda n: n is cs[1].node) is None:
            cs.reverse()
        if f.find_path(cs[1].node, lambda n: n is cs[0].node) is not None:
            raise Shape("compare-exchange inside a retry loop: shape not supported by this rule")
    for c in cs:
        if f.find_path(c.node, lambda n, c=c: n is c.node) is not None:
            raise Shape("compare-exchange inside a retry loop: shape not supported by this rule")
    # the expected local: initialised once by a constant, never assigned afterwards (only the compare-exchange rewrites it)
    init = None
    for kind, n, val in f.defs().get(did, []):
        if kind == "init" and init is None:
            try:
                init = ev(f, val, lambda m: None)
            except Unevaluable:
                init = None
        elif kind in ("assign", "mod", "init"):
            raise Shape("the expected local is written at `%s`" % n.text)
    if init is None:
        raise Shape("the expected local is not initialised with a state constant")
    return cs, did, init


def scenarios(f, cs, did, init):
    """Every sequence of states our accesses can observe: (description, atom, took_from or None, last observed state)."""
    from rules import is_var_load
    isl = ds_load(f)
    isv = is_var_load(did)
    isp = is_var_load(f.params[0]["did"])      # the fiber argument is a valid pointer
    c1 = cs[0].node
    c2 = cs[1].node if len(cs) == 2 else None
    before1 = {n.id for n in f.nodes if isv(n) and f.find_path(n, lambda m: m is c1) is not None}
    before2 = {n.id for n in f.nodes if c2 is not None and isv(n) and n.id not in before1 and f.find_path(n, lambda m: m is c2) is not None}
    out = []
    for s0 in (NONE, WFJ, WTJ, DET):
        for s1 in later(s0):
            r1 = int(s1 == init)
            seconds = [None] if (r1 or c2 is None) else [None] + later(s1)
            for s2 in seconds:
                r2 = None if s2 is None else int(s2 == s1)
                mid = init if r1 else s1
                fin = mid if (r2 is None or r2) else s2
                took = s1 if r1 else (s2 if r2 else None)
                last = s1 if s2 is None else s2

                def atom(n, r1=r1, r2=r2, mid=mid, fin=fin, s0=s0):
                    if n is c1:
                        return r1
                    if c2 is not None and n is c2:
                        return r2
                    if isl(n):
                        return s0
                    if isv(n):
                        return init if n.id in before1 else (mid if n.id in before2 else fin)
                    if isp(n):
                        return 0x4000
                    return None
                desc = "pre-read %s, first compare-exchange sees %s%s" % (NAMES[s0], NAMES[s1], "" if s2 is None else ", second sees %s" % NAMES[s2])
                # feasibility: the second compare-exchange is executed exactly in the scenarios that give it an outcome
                if c2 is not None and not r1:
                    runs2 = reach(f, [c2], atom)
                    if (s2 is None) == runs2:
                        continue
                out.append((desc, atom, took, last))
    return out


class _Walk:
    """Concrete path interpretation of one join-protocol function for one script of observed states (used when the
    compare-exchanges sit in a retry loop, where per-node constant outcomes cannot describe a path)."""

    def __init__(self, P, f, new, script, null_result=False):
        from symword import Machine
        self.f, self.new, self.script = f, new, list(script)
        self.idx = 0
        self.cas = {s.node.id: s for s in atomic_ops(f, F, "detach_state") if s.aop == "cas"}
        self.res = {}
        self.took = None
        self.last_seen = None
        self.events = []
        isl = ds_load(f)
        rd = {s.node.id for s, v in c01.state_stores(f) if v == c01.READY}
        walk = self
        # further events: accesses of the fiber argument's result, stores of another fiber's result (the copy into a joiner),
        # any access of the fiber argument, calls that may switch
        pd = f.params[0]["did"]
        self.extra_ids = {}
        for n in f.nodes:
            if n.k == "MemberExpr" and n.arrow:
                b = strip(n.kids[0])
                if b is not None and b.k == "DeclRefExpr" and b.did == pd:
                    self.extra_ids[n.id] = "touch-arg"
        for l in f.loads_of(F, "result"):
            if f.target_key(l.target)[3] == ("*", ("var", f.params[0]["name"], pd)):
                self.extra_ids[l.node.id] = "read-arg-result"
        for st in f.stores_to(F, "result"):
            own = f.target_key(st.target)[3] == ("*", ("var", f.params[0]["name"], pd))
            self.extra_ids[st.node.id] = "store-arg-result" if own else "store-other-result"
        for c in stale.switch_calls(P, f):
            if c.callee not in (SAW, COW):
                self.extra_ids.setdefault(c.id, "may-switch")

        class M(Machine):
            def atom(m, n):
                v = ext(n)
                return v if v is not None else Machine.atom(m, n)

            def exec_elem(m, n):
                if n.id in walk.cas:
                    st = walk.cas[n.id]
                    e = strip(st.expected)
                    loc = m.locate(e.kids[0]) if e is not None and e.k == "UnaryOperator" and e.op == "&" else None
                    if loc is None:
                        # the address travelled through a pointer (a transition helper taking `int* expected`)
                        base = m.pointee(st.expected)
                        if base is not None:
                            loc = (base[0], base[1], 32, "int")
                    if loc is None:
                        raise Unevaluable("expected operand of the compare-exchange is not a local")
                    seen = walk.script[min(walk.idx, len(walk.script) - 1)]
                    walk.idx += 1
                    walk.events.append(("cas", n))
                    walk.last_seen = seen
                    try:
                        if m.eval(st.value) != walk.new:
                            walk.events.append(("bad-desired", n))
                    except Unevaluable:
                        walk.events.append(("bad-desired", n))
                    if m.read(loc) == seen:
                        walk.res[n.id] = 1
                        if walk.took is None:
                            walk.took = seen
                        else:
                            walk.events.append(("second-transition", n))
                        # our own transition: from now on the state is `new` (terminal for the others' moves we model)
                        walk.script = walk.script[:walk.idx] + [walk.new]
                    else:
                        walk.res[n.id] = 0
                        m.write(loc, seen)
                    return
                if n.id in rd:
                    walk.events.append(("ready", n))
                if n.id in walk.extra_ids:
                    walk.events.append((walk.extra_ids[n.id], n))
                if n.k == "CallExpr" and (n.callee in (SAW, COW) or n.callee in c01.SCHED):
                    walk.events.append(("park" if n.callee == SAW else "take" if n.callee == COW else "schedule", n))
                Machine.exec_elem(m, n)

        def ext(n):
            if n.id in self.res:
                return self.res[n.id]
            if isl(n):
                v = self.script[min(self.idx, len(self.script) - 1)]
                self.idx += 1
                return v
            return None
        self.m = M(f, P, ext)
        self.m.param_values = True
        if null_result:
            for p in f.params:
                if p["name"] == "result":
                    self.m.vals[p["did"]] = 0

    def run(self):
        r = self.m.run("entry", lambda n: n.k == "ReturnStmt", max_blocks=400)
        ret = None
        if r is not None and r.kids:
            try:
                ret = self.m.eval(r.kids[0])
            except Unevaluable:
                ret = None
        return ret


def scripts(length=5):
    """every chain of observed states of the given length (each state reachable from the previous one by the other parties' moves);
    an observation is a plain read of detach_state or a compare-exchange on it"""
    out = [[s0] for s0 in (NONE, WFJ, WTJ, DET)]
    for _ in range(length - 1):
        out = [c + [t] for c in out for t in later(c[-1])]
    return out


def protocol_walk(P, f, new, spec, nospec):
    """Same obligations as protocol(), decided by interpreting each path concretely."""
    n = 0
    variants = [(sc, False) for sc in scripts()]
    if any(p["name"] == "result" for p in f.params):
        variants += [(sc, True) for sc in scripts()]
    for sc, null_result in variants:
        w = _Walk(P, f, new, sc, null_result)
        try:
            ret = w.run()
        except Unevaluable as e:
            raise AnalysisBroken("C04 %s: cannot interpret the compare-exchange loop for observed states %s: %s" % (f.name, [NAMES[x] for x in sc], e))
        n += 1
        desc = "observed states %s" % " -> ".join(NAMES[x] for x in sc)
        kinds = [k for k, _ in w.events]
        if "bad-desired" in kinds:
            return "%s: a compare-exchange installs another value than %s" % (desc, NAMES[new]), f.loc
        if "second-transition" in kinds:
            return "%s: the state is moved twice by one call" % desc, f.loc
        if w.took is not None and w.took not in spec:
            return "%s: the state moves from %s to %s, which is not a legal transition here" % (desc, NAMES[w.took], NAMES[new]), f.loc
        last = w.last_seen if w.last_seen is not None else sc[0]
        want = spec[w.took] if w.took is not None else nospec(last)
        if ("park" in kinds) != want["saw"]:
            return "%s: parks (set_and_wait) = %s, expected %s" % (desc, "park" in kinds, want["saw"]), f.loc
        if ("take" in kinds) != want["cow"] or ("schedule" in kinds) != want["cow"]:
            return "%s: takes+schedules the other party = %s/%s, expected %s" % (desc, "take" in kinds, "schedule" in kinds, want["cow"]), f.loc
        if want["cow"]:
            order = [k for k in kinds if k in ("take", "ready", "schedule")]
            if order[:3] != ["take", "ready", "schedule"]:
                return "%s: the other party is handled in the order %s, expected take, ready, schedule" % (desc, order), f.loc
        if want.get("ret") is not None and ret != want["ret"]:
            return "%s: returns %s, expected %s" % (desc, ret, want["ret"]), f.loc
        # result / no-touch / blocking rules on the same path
        first_cas = min([i for i, (k, _) in enumerate(w.events) if k == "transition"] or [len(w.events)])
        sched = [i for i, k in enumerate(kinds) if k == "schedule"]
        woke = [i for i, k in enumerate(kinds) if k in ("schedule", "take")]
        if f.name == "fiber_mark_completed":
            st = [i for i, k in enumerate(kinds) if k == "store-arg-result"]
            tr = [i for i, k in enumerate(kinds) if k == "cas"]
            if tr and (not st or st[0] > tr[0]):
                # a store skipped for a NULL return value is right only if the field is NULL then (creation + joiner empties its mailbox)
                mb = mailbox_emptied(P) if (null_result and not st) else "x"
                if mb is not None:
                    return ("%s: the state transition precedes the store of the result" % desc) if mb == "x" else \
                           ("%s: the result is published only when it is non-NULL, but the fiber's result field is not guaranteed to be NULL otherwise: %s" % (desc, mb)), f.loc
            cp = [i for i, k in enumerate(kinds) if k == "store-other-result"]
            if sched and (not cp or cp[0] > sched[0]):
                return "%s: the waiting joiner is scheduled before the result was copied into it" % desc, f.loc
        else:
            rr = [i for i, k in enumerate(kinds) if k == "read-arg-result"]
            tr = [i for i, k in enumerate(kinds) if k == "cas"]
            if f.name in ("fiber_join", "fiber_tryjoin"):
                if rr and w.took != WFJ:
                    return "%s: f->result is read although this call did not take the finished fiber" % desc, f.loc
                if w.took == WFJ and not rr and not null_result:
                    return "%s: the finished fiber is taken but f->result is never read" % desc, f.loc
                if rr and tr and rr[0] < tr[0]:
                    return "%s: f->result is read before the state transition" % desc, f.loc
                if rr and woke and rr[-1] > woke[0]:
                    return "%s: f->result is read after f was woken (it may already be reclaimed)" % desc, f.loc
            if sched and any(k == "touch-arg" for k in kinds[sched[0] + 1:]):
                return "%s: the fiber is touched after it was woken" % desc, f.loc
            if f.name == "fiber_tryjoin" and w.took is None and ("may-switch" in kinds or "park" in kinds or "take" in kinds):
                return "%s: tryjoin can block although it did not take the fiber" % desc, f.loc
    return None, n


def protocol(f, new, spec, nospec):
    """spec: from-state -> dict(saw, cow, ret) for a transition made by f; nospec(last) -> dict for the no-transition outcome."""
    cs, did, init = cas_sites(f, new)
    saws, cows, scs = f.calls(SAW), f.calls(COW), f.calls(SCHED)
    rd = [s.node for s, v in c01.state_stores(f) if v == c01.READY]
    n = 0
    for desc, atom, took, last in scenarios(f, cs, did, init):
        # a scenario whose compare-exchange is never reached (pre-read return) makes no transition
        reached1 = reach(f, [cs[0].node], atom)
        if took is not None and not reached1:
            took = None
        if took is not None and took not in spec:
            return "%s: the state moves from %s to %s, which is not a legal transition here" % (desc, NAMES[took], NAMES[new]), cs[0].node
        want = spec[took] if took is not None else nospec(last)
        n += 1
        rs, rc, rq = reach(f, saws, atom), reach(f, cows, atom), reach(f, scs, atom)
        if rs != want["saw"]:
            return "%s: parks (set_and_wait) = %s, expected %s" % (desc, rs, want["saw"]), cs[0].node
        if rc != want["cow"] or rq != want["cow"]:
            return "%s: takes+schedules the other party = %s/%s, expected %s" % (desc, rc, rq, want["cow"]), cs[0].node
        if want.get("ret") is not None:
            for r in f.returns():
                if reach(f, [r], atom) and ret_const(f, r) != want["ret"]:
                    return "%s: returns %s, expected %s" % (desc, ret_const(f, r), want["ret"]), r
        if want["cow"]:
            e = forced_edges(f, atom)
            for q in scs:
                if f.find_path("entry", lambda m: m is q, edge_ok=e) is None:
                    continue
                if f.find_path("entry", lambda m: m is q, barrier=nodeset(cows), edge_ok=e) is not None:
                    return "%s: schedule reachable without clear_or_wait" % desc, q
                if f.find_path("entry", lambda m: m is q, barrier=nodeset(rd), edge_ok=e) is not None:
                    return "%s: schedule reachable without the READY store" % desc, q
    return None, n


def run(ctx):
    P = ctx.prog()
    c01.core_dependency(ctx, P, "core.dep", ('fiber_manager_set_and_wait', 'fiber_manager_clear_or_wait', 'fiber_mark_completed', 'fiber_join', 'fiber_tryjoin', 'fiber_detach', 'fiber_join_routine', 'fiber_create'),
                        'the join hand-off (set_and_wait / clear_or_wait)',
                        "a joiner resumed from a stale context, or scheduled onto another thread's deque through a stale manager, returns twice or never")
    from props import deps
    deps.depend(ctx, P, "C19", "layout.dep", "the context buffer that precedes the join result in fiber_t",
                "libgcc writes the split-stack context on every switch: if the buffer is too short the write lands on the fiber's `result`, which a joiner then reads as NULL",
                lambda x: x.rule.startswith("splitstack."))
    o = ctx.ob("cas", "", "after creation detach_state is modified only by compare-exchange from one named state (in mark_completed, join, tryjoin, detach)",
               "a plain store or an unconditional exchange overwrites a state another party relies on: a registered joiner becomes invisible (a second "
               "joiner or a detach then also 'wins'), or a DETACHED mark is erased and the finished fiber waits for ever for a joiner")
    bad = None
    n = 0
    for fn in P.unique_functions():
        for s in fn.stores_to(F, "detach_state"):
            n += 1
            kind = writer_kind(s)
            ok = (kind == "assign" and fn.name in ("fiber_create_no_sched", "fiber_create_from_thread") and strip(s.value).cv == NONE) or \
                 (kind == "cas" and fn.name in ("fiber_mark_completed", "fiber_join", "fiber_tryjoin", "fiber_detach"))
            if not ok:
                bad = bad or ("`%s` in %s" % (s.node.text, fn.name), s.node)
    ctx.expect_count("writers of detach_state", n, 6)
    o.check(bad is None, "%d writers" % n, "unexpected writer " + (bad[0] if bad else ""), site=bad[1] if bad else None, construct="detach_state writer")

    nothing = lambda last: dict(saw=False, cow=False, ret=0)

    def run_protocol(o, f, new, spec, nospec, extra=None, construct="", struct=None):
        """Two deciders for the same table.  The path interpreter (protocol_walk) executes every feasible path for every chain of observed
        states and is exact whenever it can evaluate the function; the static decider (constant outcomes per node) is used when it cannot.
        The interpreter applies only if every write of detach_state in f is a compare-exchange (the `cas` rule reports anything else)."""
        import os
        writes = atomic_ops(f, F, "detach_state")
        plain = [st for st in f.stores_to(F, "detach_state") if st not in writes]
        walk_ok, bad_walk = False, None
        if writes and not plain and all(st.aop == "cas" for st in writes):
            try:
                bad_walk, _n = protocol_walk(P, f, new, spec, nospec)
                walk_ok = True
            except AnalysisBroken:
                walk_ok = False
        static_ok, bad_static, site = False, None, None
        if not os.environ.get("VERIF_C04_WALK"):
            try:
                bad_static, n = protocol(f, new, spec, nospec)
                if bad_static is not None and n is not None and not isinstance(n, int):
                    site = n
                if bad_static is None and extra is not None:
                    cs, did, init = cas_sites(f, new)
                    bad_static = extra(cs, did, init)
                static_ok = True
            except Shape as e:
                if not walk_ok:
                    if "not supported" in str(e):
                        raise AnalysisBroken("C04 %s: %s" % (f.name, e))
                    o.fail(str(e), site=f.loc, construct=construct)
                    return
        if walk_ok:
            bad = bad_walk[0] if isinstance(bad_walk, tuple) else bad_walk
            if bad is None and struct is not None:
                bad = struct()
            o.check(bad is None, "every chain of observed states (plain reads and compare-exchanges), every feasible path interpreted", bad,
                    site=f.loc, construct=construct)
        elif static_ok:
            o.check(bad_static is None, "all observation sequences of the state (pre-read, first and second compare-exchange)", bad_static,
                    site=site or f.loc, construct=construct)
        else:
            raise AnalysisBroken("C04 %s: neither decider applies" % f.name)

    mc = P.fn("fiber_mark_completed")
    o = ctx.ob("complete", mc, "mark_completed stores the result, then moves NONE -> WAIT_FOR_JOINER and parks on join_info; if it observes WAIT_TO_JOIN "
               "instead it leaves the state alone, copies the result into the joiner, marks it READY and schedules it; DETACHED -> neither",
               "parking when a joiner already waits deadlocks both; not parking when nobody joined yet lets the fiber be reclaimed with its result undelivered; "
               "overwriting WAIT_TO_JOIN makes the finished fiber look joinable to a second joiner")

    def mc_extra(cs, did, init):
        bad = None
        x = cs[0]
        rs = [s for s in mc.stores_to(F, "result")]
        own = [s for s in rs if mc.target_key(s.target)[3] == ("*", ("var", mc.params[0]["name"], mc.params[0]["did"]))]
        if not own:
            bad = bad or "the result is never stored"
        elif mc.dominated_by(x.node, nodeset([s.node for s in own])) is not None:
            # a store skipped for a NULL return value is still right provided the field is NULL then: it is NULL at creation
            # (init rule) and the only other writer, the joiner's mailbox, is emptied on every path by the joiner itself
            from rules import is_param_load
            isres = is_param_load(mc, "result")
            skipped_only_for_null = not reach(mc, [x.node], atom_from([(isres, 0x4000)]), barrier=nodeset([s.node for s in own]))
            mb = mailbox_emptied(P)
            if not skipped_only_for_null:
                bad = bad or "the state transition is reachable before the result is stored"
            elif mb is not None:
                bad = bad or ("the result is published only when it is non-NULL, but the fiber's result field is not guaranteed to be NULL otherwise: " + mb)
        if own and not order_ge(own[0].order or "relaxed", "release"):
            bad = bad or "result store order %s" % own[0].order
        cp = [s for s in rs if s not in own]
        for q in mc.calls(SCHED):
            if not cp or mc.dominated_by(q, nodeset([s.node for s in cp])) is not None:
                bad = bad or "the waiting joiner is scheduled before the result was copied into it"
        for c in mc.calls(SAW):
            a = mc.args(c)
            k1 = mc.key(a[1], resolve=True)
            if not key_mentions(k1, lambda y: y[0] == "f" and y[2] == "join_info") or strip(a[2]).did != mc.params[0]["did"]:
                bad = bad or "parks with `%s`" % c.text
        return bad
    def mc_struct():
        bad = None
        rs = [s for s in mc.stores_to(F, "result")]
        own = [s for s in rs if mc.target_key(s.target)[3] == ("*", ("var", mc.params[0]["name"], mc.params[0]["did"]))]
        if own and not order_ge(own[0].order or "relaxed", "release"):
            bad = bad or "result store order %s" % own[0].order
        for c in mc.calls(SAW):
            a = mc.args(c)
            k1 = mc.key(a[1], resolve=True)
            if not key_mentions(k1, lambda y: y[0] == "f" and y[2] == "join_info") or strip(mc.resolve(a[2]) or a[2]).did != mc.params[0]["did"]:
                bad = bad or "parks with `%s`" % c.text
        return bad
    run_protocol(o, mc, WFJ, {NONE: dict(saw=True, cow=False)},
                 lambda last: dict(saw=False, cow=(last == WTJ)), mc_extra, "mark_completed protocol", struct=mc_struct)

    j = P.fn("fiber_join")
    o = ctx.ob("join", j, "join moves NONE -> WAIT_TO_JOIN and parks on f->join_info with itself, then takes the result from its own mailbox; or moves "
               "WAIT_FOR_JOINER -> WAIT_TO_JOIN, reads f->result, take+READY+schedule f; on WAIT_TO_JOIN / DETACHED it returns ERROR without "
               "blocking and without changing the state",
               "blocking on a detached or already-joined fiber never returns; erasing DETACHED leaves the finished fiber waiting for a joiner for ever; "
               "reading f->result after waking f reads freed memory")

    def j_extra(cs, did, init):
        bad = result_rules(j, cs, did, init)
        for c in j.calls(SAW):
            a = j.args(c)
            if not key_mentions(j.key(a[1], True), lambda y: y[0] == "f" and y[2] == "join_info" and y[3] == ("*", ("var", "f", j.params[0]["did"]))):
                bad = bad or "parks on `%s`" % a[1].text
            if not key_mentions(j.key(a[2], True), lambda y: y[0] == "f" and y[2] == "current_fiber"):
                bad = bad or "parks `%s`, not the calling fiber" % a[2].text
        return bad
    def j_struct():
        bad = None
        for c in j.calls(SAW):
            a = j.args(c)
            if not key_mentions(j.key(a[1], True), lambda y: y[0] == "f" and y[2] == "join_info" and y[3] == ("*", ("var", "f", j.params[0]["did"]))):
                bad = bad or "parks on `%s`" % a[1].text
            if not key_mentions(j.key(a[2], True), lambda y: y[0] == "f" and y[2] == "current_fiber"):
                bad = bad or "parks `%s`, not the calling fiber" % a[2].text
        return bad
    run_protocol(o, j, WTJ, {NONE: dict(saw=True, cow=False, ret=1), WFJ: dict(saw=False, cow=True, ret=1)}, nothing, j_extra, "join protocol", struct=j_struct)

    t = P.fn("fiber_tryjoin")
    o = ctx.ob("tryjoin", t, "tryjoin only moves WAIT_FOR_JOINER -> WAIT_TO_JOIN (then: read result, take+READY+schedule, SUCCESS); everything else ERROR "
               "with the state unchanged; it never parks, and its only blocking call is behind that transition",
               "a tryjoin that marks an unfinished fiber as 'being joined' makes a later join fail; one that parks is not a tryjoin")

    def t_extra(cs, did, init):
        bad = None
        if t.calls(SAW):
            bad = "tryjoin parks"
        ms = stale.switch_calls(P, t)
        for desc, atom, took, last in scenarios(t, cs, did, init):
            if took is None:
                for c in ms:
                    if reach(t, [c], atom):
                        bad = bad or "%s: `%s` (may block) is reachable although tryjoin did not take the fiber" % (desc, c.text)
        return bad or result_rules(t, cs, did, init)
    run_protocol(o, t, WTJ, {WFJ: dict(saw=False, cow=True, ret=1)}, nothing, t_extra, "tryjoin protocol")

    d = P.fn("fiber_detach")
    o = ctx.ob("detach", d, "detach moves NONE -> DETACHED (nothing else to do) or WAIT_FOR_JOINER -> DETACHED (take+READY+schedule the finished fiber), "
               "SUCCESS; on WAIT_TO_JOIN / DETACHED it returns ERROR with the state unchanged; it never parks",
               "not waking a finished fiber that waits for a joiner leaks it for ever; waking on NONE spins in clear_or_wait for a party that never parks; "
               "detaching a fiber that has a registered joiner wakes the joiner with SUCCESS/NULL while the fiber still runs, or races the finishing fiber "
               "for the single token in join_info")
    run_protocol(o, d, DET, {NONE: dict(saw=False, cow=False, ret=1), WFJ: dict(saw=False, cow=True, ret=1)}, nothing,
                 lambda cs, did, init: notouch_f(d, "f"), "detach protocol")

    cw = P.fn(COW)
    o = ctx.ob("rendezvous", cw, "clear_or_wait takes the sleeper with one atomic exchange(NULL), returns only a non-NULL value, and yields (re-fetching "
               "the manager) while the slot is still empty", "the first party publishes itself only after its context switch; the second must wait for that")
    xs = [s for s in cw.stores() if s.kind == "atomic" and s.aop == "exchange"]
    bad = None
    if len(xs) != 1 or strip(xs[0].value).cv != 0:
        bad = "no exchange(NULL)"
    else:
        isx = lambda n: n is xs[0].node
        if reach(cw, ["exit"], atom_from([(isx, 0)]), start=xs[0].node, barrier=isx):
            bad = "returns although the slot was empty"
        if not reach(cw, ["exit"], atom_from([(isx, 4096)]), start=xs[0].node, barrier=isx):
            bad = bad or "does not return a sleeper it took"
        ys = cw.calls("fiber_manager_yield")
        if not ys or reach(cw, [xs[0].node], atom_from([(isx, 0)]), start=xs[0].node, barrier=nodeset(ys)):
            bad = bad or "retries without yielding"
    o.check(bad is None, "exchange/yield loop", bad, site=cw.loc, construct="clear_or_wait")
    for name in ("fiber_create_no_sched", "fiber_create_from_thread"):
        check_init(ctx, P, name, [(F, "detach_state", NONE), (F, "join_info", 0), (F, "result", 0)], calls=["calloc"], rule="init",
                   why="a fiber born with a non-NONE detach state or a stale join_info makes the first join/complete take the wrong branch")

def mailbox_emptied(P):
    """None if every value parked in a joiner's `result` mailbox is removed again by the joiner on all paths, else why not."""
    j = P.fn("fiber_join")
    waits = j.calls(SAW)
    if not waits:
        return "fiber_join has no joiner-first wait"
    clears = []
    for s in j.stores_to(F, "result"):
        tk = j.key(strip(s.target).kids[0], resolve=True) if strip(s.target).k == "MemberExpr" else ("?",)
        if key_mentions(tk, lambda y: y[0] == "f" and y[2] == "current_fiber") and s.value is not None and strip(s.value).cv == 0:
            clears.append(s.node)
    if not clears:
        return "fiber_join never clears the joiner's mailbox"
    for w in waits:
        if j.find_path(w, "exit", barrier=nodeset(clears)) is not None:
            return "fiber_join can return from the joiner-first wait without clearing its own `result` (e.g. when the caller passed result == NULL)"
    return None


def result_rules(f, cs, did, init):
    """f->result is read only after f moved the state WAIT_FOR_JOINER -> WAIT_TO_JOIN and before f is woken; f is not touched afterwards."""
    pd = f.params[0]["did"]
    rl = [l.node for l in f.loads_of(F, "result") if f.target_key(l.target)[3] == ("*", ("var", "f", pd))]
    if not rl:
        return "f->result is never read"
    for desc, atom, took, last in scenarios(f, cs, did, init):
        if took != WFJ and reach(f, rl, atom):
            return "%s: f->result is read although this call did not take the finished fiber" % desc
    iscas = nodeset([c.node for c in cs])
    for r in rl:
        if f.dominated_by(r, iscas) is not None:
            return "f->result is read before the state transition"
    wake = f.calls(SCHED) + f.calls(COW)
    for w in wake:
        for r in rl:
            if f.find_path(w, lambda n: n is r) is not None:
                return "f->result is read after f was woken (it may already be reclaimed)"
    return notouch_f(f, "f")


def notouch_f(f, pname):
    pd = [p["did"] for p in f.params if p["name"] == pname][0]
    for q in f.calls(SCHED):
        for n in f.nodes:
            if n.k == "MemberExpr" and n.arrow:
                b = strip(n.kids[0])
                if b is not None and b.k == "DeclRefExpr" and b.did == pd and f.find_path(q, lambda m: m is b) is not None:
                    return "`%s` touches the fiber after it was woken" % n.text
    return None
