"""C04 — join / tryjoin / detach: result delivered once, fiber reclaimed once, never early (structural part)."""
from core import strip, is_field, key_mentions, order_ge, key_str
from facts import AnalysisBroken
from rules import (writer_kind, check_init, nodeset, ev, Unevaluable, forced_edges, atom_from, reach, atomic_ops, ret_const, callpred)
import stale
from props import c01

EXPLANATION = (
    "Decides the rendezvous structure: detach_state is moved only by atomic exchange after creation; for every old value "
    "the exchange can return, each of fiber_mark_completed / fiber_join / fiber_tryjoin / fiber_detach takes exactly the "
    "specified action (first party parks through the deferred set_and_wait on the fiber's join_info; second party takes the "
    "sleeper with clear_or_wait, marks it READY and schedules it, in that order; every other value is an error return "
    "without blocking); the finished fiber's result is stored before its state exchange and copied into a waiting joiner "
    "before that joiner is scheduled; join/tryjoin read the result only after having observed WAIT_FOR_JOINER and before "
    "waking the finished fiber, and never touch it afterwards; tryjoin can block only behind that observation; reclamation "
    "is the C01 done-fiber hand-over.  At-most-one-joiner and never-early over all orderings are not decided.")
NOT_DECIDED = ["at most one joiner succeeds / never early across all orderings", "use after reclaim by user code"]
ASSUMPTIONS = ["FIBER_DETACH_NONE=0, WAIT_FOR_JOINER=1, WAIT_TO_JOIN=2, DETACHED=3 (read from the macro spellings)"]
F = "fiber"
NONE, WFJ, WTJ, DET = 0, 1, 2, 3
SAW, COW = "fiber_manager_set_and_wait", "fiber_manager_clear_or_wait"
SCHED = c01.SCHED


def xchg(f):
    return [s for s in atomic_ops(f, F, "detach_state") if s.aop == "exchange"]


def ds_load(f):
    ids = {l.node.id for l in f.loads_of(F, "detach_state") if l.node.k != "AtomicExpr"}
    return lambda n: n.id in ids


def table(ctx, f, o, x, spec, pre_load=None):
    """spec: old -> dict(saw=bool, cow=bool, ret=value or None)"""
    bad = None
    isx = lambda n: n is x.node
    saws, cows, scs = f.calls(SAW), f.calls(COW), f.calls(SCHED)
    for old, want in spec.items():
        pairs = [(isx, old)]
        if pre_load is not None:
            pairs.append((ds_load(f), pre_load(old)))
        atom = atom_from(pairs)
        rs = reach(f, saws, atom, start=x.node)
        rc = reach(f, cows, atom, start=x.node)
        rq = reach(f, scs, atom, start=x.node)
        if rs != want["saw"]:
            bad = bad or "old state %d: parks (set_and_wait) = %s, expected %s" % (old, rs, want["saw"])
        if rc != want["cow"] or rq != want["cow"]:
            bad = bad or "old state %d: takes+schedules the other party = %s/%s, expected %s" % (old, rc, rq, want["cow"])
        if want.get("ret") is not None:
            for r in f.returns():
                if reach(f, [r], atom, start=x.node) and ret_const(f, r) != want["ret"]:
                    bad = bad or "old state %d: returns %s, expected %s" % (old, ret_const(f, r), want["ret"])
        # the second party: clear_or_wait -> READY -> schedule, in that order, every path
        if want["cow"]:
            rd = [s.node for s, v in c01.state_stores(f) if v == c01.READY]
            for q in scs:
                if not reach(f, [q], atom, start=x.node):
                    continue
                if f.dominated_by(q, nodeset(cows)) is not None and f.find_path(x.node, lambda n: n is q, barrier=nodeset(cows)) is not None:
                    bad = bad or "schedule reachable without clear_or_wait"
                if f.find_path(x.node, lambda n: n is q, barrier=nodeset(rd)) is not None:
                    bad = bad or "schedule reachable without the READY store"
    return bad


def run(ctx):
    P = ctx.prog()
    c01.core_dependency(ctx, P, "core.dep", ('fiber_manager_set_and_wait', 'fiber_manager_clear_or_wait', 'fiber_mark_completed', 'fiber_join', 'fiber_tryjoin', 'fiber_detach', 'fiber_join_routine', 'fiber_create'),
                        'the join hand-off (set_and_wait / clear_or_wait)',
                        "a joiner resumed from a stale context, or scheduled onto another thread's deque through a stale manager, returns twice or never")
    from props import deps
    deps.depend(ctx, P, "C19", "layout.dep", "the context buffer that precedes the join result in fiber_t",
                "libgcc writes the split-stack context on every switch: if the buffer is too short the write lands on the fiber's `result`, which a joiner then reads as NULL",
                lambda x: x.rule.startswith("splitstack."))
    o = ctx.ob("xchg", "", "after creation detach_state is modified only by atomic exchange (in mark_completed, join, tryjoin, detach)",
               "a plain store (or a load-then-store) lets both parties believe they were first: both park, or both wake")
    bad = None
    n = 0
    for fn in P.unique_functions():
        for s in fn.stores_to(F, "detach_state"):
            n += 1
            kind = writer_kind(s)
            ok = (kind == "assign" and fn.name in ("fiber_create_no_sched", "fiber_create_from_thread") and strip(s.value).cv == NONE) or \
                 (kind == "exchange" and fn.name in ("fiber_mark_completed", "fiber_join", "fiber_tryjoin", "fiber_detach"))
            if not ok:
                bad = bad or ("`%s` in %s" % (s.node.text, fn.name), s.node)
    ctx.expect_count("writers of detach_state", n, 6)
    o.check(bad is None, "%d writers" % n, "unexpected writer " + (bad[0] if bad else ""), site=bad[1] if bad else None, construct="detach_state writer")

    mc = P.fn("fiber_mark_completed")
    o = ctx.ob("complete", mc, "mark_completed stores the result, then exchanges WAIT_FOR_JOINER in: old NONE -> park on join_info; old WAIT_TO_JOIN -> "
               "copy the result into the joiner, mark it READY, schedule it; anything else -> neither",
               "parking when a joiner already waits deadlocks both; not parking when nobody joined yet lets the fiber be reclaimed with its result undelivered")
    xs = xchg(mc)
    if len(xs) != 1 or xs[0].value.cv != WFJ:
        o.fail("expected one exchange(WAIT_FOR_JOINER)", site=mc.loc, construct="mark_completed exchange")
    else:
        x = xs[0]
        bad = table(ctx, mc, o, x, {NONE: dict(saw=True, cow=False), WFJ: dict(saw=False, cow=False), WTJ: dict(saw=False, cow=True), DET: dict(saw=False, cow=False)})
        rs = [s for s in mc.stores_to(F, "result")]
        own = [s for s in rs if mc.target_key(s.target)[3] == ("*", ("var", mc.params[0]["name"], mc.params[0]["did"]))]
        if not own:
            bad = bad or "the result is never stored"
        elif mc.dominated_by(x.node, nodeset([s.node for s in own])) is not None:
            # a store skipped for a NULL return value is still right provided the field is NULL then: it is NULL at creation
            # (init rule) and the only other writer, the joiner's mailbox, is emptied on every path by the joiner itself
            from rules import is_param_load
            isres = is_param_load(mc, "result")
            skipped_only_for_null = not reach(mc, [x.node], atom_from([(isres, 0x4000)]), barrier=nodeset([s.node for s in own]))
            mb = mailbox_emptied(P)
            if not skipped_only_for_null:
                bad = bad or "the state exchange is reachable before the result is stored"
            elif mb is not None:
                bad = bad or ("the result is published only when it is non-NULL, but the fiber's result field is not guaranteed to be NULL otherwise: " + mb)
        if own and not order_ge(own[0].order or "relaxed", "release"):
            bad = bad or "result store order %s" % own[0].order
        cp = [s for s in rs if s not in own]
        for q in mc.calls(SCHED):
            if not cp or mc.dominated_by(q, nodeset([s.node for s in cp])) is not None:
                bad = bad or "the waiting joiner is scheduled before the result was copied into it"
        for c in mc.calls(SAW):
            a = mc.args(c)
            k1 = mc.key(a[1], resolve=True)
            if not key_mentions(k1, lambda y: y[0] == "f" and y[2] == "join_info") or strip(a[2]).did != mc.params[0]["did"]:
                bad = bad or "parks with `%s`" % c.text
        # DETACHED pre-check must not skip the handshake for other states
        o.check(bad is None, "4-state table", bad, site=x.node, construct="mark_completed protocol")

    j = P.fn("fiber_join")
    o = ctx.ob("join", j, "join exchanges WAIT_TO_JOIN in: old NONE -> park on f->join_info with itself, then take the result from its own mailbox; old "
               "WAIT_FOR_JOINER -> read f->result, take+READY+schedule f; old WAIT_TO_JOIN / DETACHED -> ERROR without blocking",
               "blocking on a detached or already-joined fiber never returns; reading f->result after waking f reads freed memory")
    xs = xchg(j)
    if len(xs) != 1 or xs[0].value.cv != WTJ:
        o.fail("expected one exchange(WAIT_TO_JOIN)", site=j.loc, construct="join exchange")
    else:
        x = xs[0]
        bad = table(ctx, j, o, x, {NONE: dict(saw=True, cow=False, ret=1), WFJ: dict(saw=False, cow=True, ret=1),
                                   WTJ: dict(saw=False, cow=False, ret=0), DET: dict(saw=False, cow=False, ret=0)})
        bad = bad or result_rules(j, x)
        for c in j.calls(SAW):
            a = j.args(c)
            if not key_mentions(j.key(a[1], True), lambda y: y[0] == "f" and y[2] == "join_info" and y[3] == ("*", ("var", "f", j.params[0]["did"]))):
                bad = bad or "parks on `%s`" % a[1].text
            if not key_mentions(j.key(a[2], True), lambda y: y[0] == "f" and y[2] == "current_fiber"):
                bad = bad or "parks `%s`, not the calling fiber" % a[2].text
        o.check(bad is None, "4-state table + result rules", bad, site=x.node, construct="join protocol")

    t = P.fn("fiber_tryjoin")
    o = ctx.ob("tryjoin", t, "tryjoin exchanges only after having read WAIT_FOR_JOINER; only old WAIT_FOR_JOINER -> read result, take+READY+schedule, "
               "SUCCESS; everything else ERROR; it never parks, and its only blocking call is behind that observation",
               "a tryjoin that exchanges unconditionally marks an unfinished fiber as 'being joined' and a later join fails; one that parks is not a tryjoin")
    xs = xchg(t)
    if len(xs) != 1 or xs[0].value.cv != WTJ:
        o.fail("expected one exchange(WAIT_TO_JOIN)", site=t.loc, construct="tryjoin exchange")
    else:
        x = xs[0]
        bad = table(ctx, t, o, x, {WFJ: dict(saw=False, cow=True, ret=1), NONE: dict(saw=False, cow=False, ret=0),
                                   WTJ: dict(saw=False, cow=False, ret=0), DET: dict(saw=False, cow=False, ret=0)})
        isl = ds_load(t)
        for pre in (NONE, WTJ, DET):
            if reach(t, [x.node], atom_from([(isl, pre)])):
                bad = bad or "the exchange is reachable after reading state %d (fiber not finished / not joinable)" % pre
            for r in t.returns():
                if reach(t, [r], atom_from([(isl, pre)])) and ret_const(t, r) != 0:
                    bad = bad or "state %d read: returns %s" % (pre, ret_const(t, r))
        if t.calls(SAW):
            bad = bad or "tryjoin parks"
        ms = stale.switch_calls(P, t)
        for c in ms:
            if reach(t, [c], atom_from([(isl, NONE)])) or reach(t, [c], atom_from([(isl, WFJ), (lambda n: n is x.node, NONE)])):
                bad = bad or "`%s` (may block) is reachable for an unfinished fiber" % c.text
        bad = bad or result_rules(t, x)
        o.check(bad is None, "state tables + result rules", bad, site=x.node, construct="tryjoin protocol")

    d = P.fn("fiber_detach")
    o = ctx.ob("detach", d, "detach exchanges DETACHED in: old WAIT_FOR_JOINER / WAIT_TO_JOIN -> take+READY+schedule the parked party; old DETACHED -> "
               "ERROR; old NONE -> SUCCESS with no further action; it never parks",
               "not waking a finished fiber that waits for a joiner leaks it for ever; waking on NONE spins in clear_or_wait for a party that never parks")
    xs = xchg(d)
    if len(xs) != 1 or xs[0].value.cv != DET:
        o.fail("expected one exchange(DETACHED)", site=d.loc, construct="detach exchange")
    else:
        x = xs[0]
        bad = table(ctx, d, o, x, {NONE: dict(saw=False, cow=False, ret=1), WFJ: dict(saw=False, cow=True, ret=1),
                                   WTJ: dict(saw=False, cow=True, ret=1), DET: dict(saw=False, cow=False, ret=0)})
        bad = bad or notouch_f(d, "f")
        o.check(bad is None, "4-state table", bad, site=x.node, construct="detach protocol")

    cw = P.fn(COW)
    o = ctx.ob("rendezvous", cw, "clear_or_wait takes the sleeper with one atomic exchange(NULL), returns only a non-NULL value, and yields (re-fetching "
               "the manager) while the slot is still empty", "the first party publishes itself only after its context switch; the second must wait for that")
    xs = [s for s in cw.stores() if s.kind == "atomic" and s.aop == "exchange"]
    bad = None
    if len(xs) != 1 or strip(xs[0].value).cv != 0:
        bad = "no exchange(NULL)"
    else:
        isx = lambda n: n is xs[0].node
        if reach(cw, ["exit"], atom_from([(isx, 0)]), start=xs[0].node, barrier=isx):
            bad = "returns although the slot was empty"
        if not reach(cw, ["exit"], atom_from([(isx, 4096)]), start=xs[0].node, barrier=isx):
            bad = bad or "does not return a sleeper it took"
        ys = cw.calls("fiber_manager_yield")
        if not ys or reach(cw, [xs[0].node], atom_from([(isx, 0)]), start=xs[0].node, barrier=nodeset(ys)):
            bad = bad or "retries without yielding"
    o.check(bad is None, "exchange/yield loop", bad, site=cw.loc, construct="clear_or_wait")
    for name in ("fiber_create_no_sched", "fiber_create_from_thread"):
        check_init(ctx, P, name, [(F, "detach_state", NONE), (F, "join_info", 0), (F, "result", 0)], calls=["calloc"], rule="init",
                   why="a fiber born with a non-NONE detach state or a stale join_info makes the first join/complete take the wrong branch")

def mailbox_emptied(P):
    """None if every value parked in a joiner's `result` mailbox is removed again by the joiner on all paths, else why not."""
    j = P.fn("fiber_join")
    waits = j.calls(SAW)
    if not waits:
        return "fiber_join has no joiner-first wait"
    clears = []
    for s in j.stores_to(F, "result"):
        tk = j.key(strip(s.target).kids[0], resolve=True) if strip(s.target).k == "MemberExpr" else ("?",)
        if key_mentions(tk, lambda y: y[0] == "f" and y[2] == "current_fiber") and s.value is not None and strip(s.value).cv == 0:
            clears.append(s.node)
    if not clears:
        return "fiber_join never clears the joiner's mailbox"
    for w in waits:
        if j.find_path(w, "exit", barrier=nodeset(clears)) is not None:
            return "fiber_join can return from the joiner-first wait without clearing its own `result` (e.g. when the caller passed result == NULL)"
    return None


def result_rules(f, x):
    """f->result is read only behind the WAIT_FOR_JOINER observation and before f is woken; f is not touched afterwards."""
    isx = lambda n: n is x.node
    pd = f.params[0]["did"]
    rl = [l.node for l in f.loads_of(F, "result") if f.target_key(l.target)[3] == ("*", ("var", "f", pd))]
    if not rl:
        return "f->result is never read"
    for old in (NONE, WTJ, DET):
        if reach(f, rl, atom_from([(isx, old)]), start=x.node):
            return "f->result is read although the exchange returned %d (not WAIT_FOR_JOINER)" % old
    for r in rl:
        if f.dominated_by(r, isx) is not None:
            return "f->result is read before the state exchange"
    wake = f.calls(SCHED) + f.calls(COW)
    for w in wake:
        for r in rl:
            if f.find_path(w, lambda n: n is r) is not None:
                return "f->result is read after f was woken (it may already be reclaimed)"
    return notouch_f(f, "f")


def notouch_f(f, pname):
    pd = [p["did"] for p in f.params if p["name"] == pname][0]
    for q in f.calls(SCHED):
        for n in f.nodes:
            if n.k == "MemberExpr" and n.arrow:
                b = strip(n.kids[0])
                if b is not None and b.k == "DeclRefExpr" and b.did == pd and f.find_path(q, lambda m: m is b) is not None:
                    return "`%s` touches the fiber after it was woken" % n.text
    return None
