"""C19 — context switch preserves machine state; stacks are private and freed once (structural part)."""
import re

from core import strip, strip_parens, is_field, key_str, key_mentions
from facts import AnalysisBroken
from rules import (field_load, nodeset, callpred, atom_from, reach, ev, Unevaluable)
from props import c01

EXPLANATION = (
    "Abstractly interprets the x86-64 fiber_context_swap template over a symbolic stack: the registers pushed, in order, are "
    "a resume address followed by the SysV callee-saved set; the pops restore exactly those registers from the slots they "
    "were pushed to (reverse order); the early load of the resume address uses the displacement of that slot (8 x pops), "
    "the final add skips exactly that slot so the resumed stack pointer equals the one at the asm's entry; the old stack "
    "pointer is stored through the `from` operand after all pushes and before the stack switch; operands are bound to the "
    "registers the template names; the asm is volatile with a memory clobber.  fiber_context_init is read as a store "
    "sequence: below a 16-aligned top it leaves filler, argument, dummy return address, entry function and one zero slot "
    "per popped register, so that the entry function's slot and the argument's slot are where the template loads them from "
    "and the entry function starts with rsp = 8 (mod 16).  Stack allocation precedes the layout stores and is paired with "
    "the matching release, reached only through fiber_context_destroy for non-thread contexts, itself called only by "
    "fiber_destroy (thorough tier: also the malloc and mmap strategies and the ucontext back-end); a tiny request still allocates room for the "
    "initial frame.  The template is also required to save and restore the MXCSR control bits and the x87 control word (SysV callee-saved): it does "
    "not -- known finding F1, reported on every run.  Not decided: the i386 "
    "template (cannot be parsed here), libc's swapcontext and libgcc's split-stack runtime.")
NOT_DECIDED = ["the i386 template (no 32-bit headers in this sandbox)", "MXCSR / x87 control words (not in the property's register list)",
               "correctness of libc swapcontext and of libgcc's split-stack runtime (trusted)"]
ASSUMPTIONS = ["SysV x86-64 ABI: callee-saved GPRs are rbx, rbp, r12-r15 (+ rsp)"]
THOROUGH_CONFIGS = ("debug",)  # malloc / mmap / ucontext are handled by thorough() below
CALLEE_SAVED = {"rbx", "rbp", "r12", "r13", "r14", "r15"}
CTX = "fiber_context"


def parse_asm(a):
    text = a["asm"].replace("%%", "%")
    ins = []
    for raw in re.split(r"[\n;]", text):
        line = raw.strip()
        if not line:
            continue
        m = re.match(r"^(\w+):\s*(.*)$", line)
        if m:
            ins.append(("label", m.group(1)))
            line = m.group(2).strip()
            if not line:
                continue
        parts = line.split(None, 1)
        op = parts[0]
        args = [x.strip() for x in parts[1].split(",")] if len(parts) > 1 else []
        ins.append((op, args))
    return ins


def interp_swap(fn, asm):
    """Returns dict with pushes, pops, rip displacement, rdi displacement, skip, order facts; raises AnalysisBroken on unknown shape."""
    a = asm.d
    ins = parse_asm(a)
    bind = {}
    for x in a["ins"] + a["outs"]:
        bind[x["name"]] = (x["c"], fn.nodes[x["e"]])
    res = {"pushes": [], "pops": [], "events": []}
    regs = {}          # symbolic register contents
    switched = False
    saved_at = None
    depth = 0          # bytes pushed on the old stack
    newsp = 0          # offset from `to` on the new stack
    for idx, (op, args) in enumerate(ins):
        if op == "label":
            res["events"].append(("label", args))
            continue
        if op in ("leaq", "lea"):
            m = re.match(r"^(\w+)\(%rip\)$", args[0])
            if m:
                regs[args[1].lstrip("%")] = ("label", m.group(1))
                continue
            raise AnalysisBroken("asm: lea operand `%s`" % args[0])
        if op in ("pushq", "push"):
            if switched:
                raise AnalysisBroken("asm: push after the stack switch")
            r = args[0].lstrip("%")
            res["pushes"].append((r, regs.get(r, ("reg", r))))
            depth += 8
            continue
        if op in ("popq", "pop"):
            if not switched:
                raise AnalysisBroken("asm: pop before the stack switch")
            r = args[0].lstrip("%")
            res["pops"].append((r, newsp))
            newsp += 8
            continue
        if op in ("movq", "mov"):
            src, dst = args
            m = re.match(r"^(-?\d*)\(%\[(\w+)\]\)$", src)
            if m:
                disp = int(m.group(1) or 0)
                res["events"].append(("load", m.group(2), disp, dst.lstrip("%"), idx, switched))
                regs[dst.lstrip("%")] = ("mem", m.group(2), disp)
                continue
            m = re.match(r"^(-?\d*)\(%\[(\w+)\]\)$", dst)
            if m and src == "%rsp":
                res["events"].append(("save_sp", m.group(2), int(m.group(1) or 0), depth, idx, switched))
                saved_at = idx
                continue
            m = re.match(r"^%\[(\w+)\]$", src)
            if m and dst == "%rsp":
                res["events"].append(("switch", m.group(1), idx))
                switched = True
                continue
            raise AnalysisBroken("asm: unrecognised mov `%s`" % ", ".join(args))
        if op in ("add", "addq"):
            m = re.match(r"^\$(\d+)$", args[0])
            if m and args[1] == "%rsp":
                newsp += int(m.group(1))
                res["events"].append(("skip", int(m.group(1))))
                continue
            raise AnalysisBroken("asm: unrecognised add")
        if op == "jmp":
            res["events"].append(("jmp", args[0].lstrip("*%"), regs.get(args[0].lstrip("*%")), newsp))
            continue
        raise AnalysisBroken("asm: unknown instruction `%s`" % op)
    res["bind"] = bind
    res["final_newsp"] = newsp
    res["depth"] = depth
    return res


def check_swap(ctx, P, tag=""):
    f = P.fn("fiber_context_swap")
    asms = f.all(k="GCCAsmStmt")
    o = ctx.ob("sym" + tag, f, "the template pushes a resume address and then a register set that includes every SysV callee-saved GPR, and pops exactly those registers, "
               "each from the slot it was pushed to", "a register that is pushed but not popped (or popped from another register's slot) comes back with another "
               "fiber's value: the compiler keeps live values in rbx/r12-r15 across the call")
    if len(asms) != 1:
        o.fail("expected one asm statement in fiber_context_swap, found %d" % len(asms), site=f.loc, construct="swap asm missing")
        return None
    R = interp_swap(f, asms[0])
    pushes = [r for r, v in R["pushes"]]
    pops = [r for r, off in R["pops"]]
    bad = None
    if not R["pushes"] or R["pushes"][0][1][0] != "label":
        bad = "the first push is not the resume address"
    saved = pushes[1:]
    if not CALLEE_SAVED <= set(saved):
        bad = bad or "callee-saved register(s) %s are not saved" % sorted(CALLEE_SAVED - set(saved))
    if pops != list(reversed(saved)):
        bad = bad or "pushed %s but popped %s (must be the exact reverse)" % (saved, pops)
    # slot check: the k-th pop reads offset 8k; the register pushed last sits at offset 0
    frame = {r: 8 * i for i, r in enumerate(reversed(pushes))}
    for r, off in R["pops"]:
        if frame.get(r) != off:
            bad = bad or "%s is restored from offset %d but was saved at offset %s" % (r, off, frame.get(r))
    o.check(bad is None, "push %s / pop %s" % (pushes, pops), bad, site=asms[0], construct="swap push/pop symmetry")

    if not tag:
        # the two remaining pieces of SysV callee-saved state: MXCSR control bits and the x87 control word
        ins = parse_asm(asms[0].d)
        sw = [i for i, (op, a) in enumerate(ins) if op.startswith("mov") and len(a) == 2 and a[1] in ("%rsp", "%esp")]
        for rule, what, st, ld in (("fp.mxcsr", "MXCSR control bits (rounding mode, FTZ/DAZ, exception masks)", ("stmxcsr", "vstmxcsr"), ("ldmxcsr", "vldmxcsr")),
                                   ("fp.x87cw", "x87 control word (rounding and precision control)", ("fnstcw", "fstcw"), ("fldcw",))):
            o = ctx.ob(rule, f, "the template stores the %s on the old stack before the stack switch and reloads it from the new stack after it (the SysV ABI "
                       "lists it as callee-saved, like rbx/rbp/r12-r15)" % what,
                       "fiber_yield is an ordinary call for the compiler and for libm: a fiber that set a rounding mode resumes with the mode of "
                       "whichever fiber (or thread) ran in between")
            if len(sw) != 1:
                o.fail("no unique stack switch (mov ..., %rsp) in the template", site=asms[0], construct="swap asm shape")
                continue
            saved = any(op in st for op, a in ins[:sw[0]])
            restored = any(op in ld for op, a in ins[sw[0] + 1:])
            o.check(saved and restored, "%s before the stack switch, %s after it" % ("/".join(st), "/".join(ld)),
                    "the template never %s the %s: it is shared by all fibers of a thread and travels to whichever fiber runs next" %
                    ("saves" if not saved else "restores", what.split(" (")[0]), site=asms[0], construct="%s not switched" % what.split(" (")[0])

    o = ctx.ob("rip" + tag, f, "the resume address is loaded from displacement 8 x pops of the new stack, the final `add` skips exactly that slot, control jumps to the loaded "
               "address, and the label it was taken from is the end of the template: the resumed rsp equals rsp at the asm's entry",
               "a wrong displacement jumps to a saved register value; a wrong skip leaves the resumed fiber's rsp off by a slot: its next `ret` goes wild")
    bad = None
    ev_ = R["events"]
    loads = [e for e in ev_ if e[0] == "load"]
    jm = [e for e in ev_ if e[0] == "jmp"]
    rip_off = 8 * len(pops)
    if len(jm) != 1:
        bad = "no single jmp"
    else:
        src = jm[0][2]
        if not (src and src[0] == "mem" and src[1] == "to" and src[2] == rip_off):
            bad = "jumps to %s, the resume address is at %d(to)" % (src, rip_off)
        if jm[0][3] != rip_off + 8:
            bad = bad or "resumed rsp = to + %d, must be to + %d (frame of %d slots)" % (jm[0][3], rip_off + 8, len(pushes))
        # the load of rip must not come after the register that holds `to` could have been overwritten: it precedes the switch or uses [to]
    lab = [e for e in ev_ if e[0] == "label"]
    if not R["pushes"] or not lab or R["pushes"][0][1] != ("label", lab[-1][1] + "f") and R["pushes"][0][1][1].rstrip("fb") != lab[-1][1]:
        bad = bad or "the resume address is not the template's end label"
    if R["depth"] != 8 * len(pushes):
        bad = bad or "push depth"
    o.check(bad is None, "rip at %d(to), resume rsp = to+%d" % (rip_off, rip_off + 8), bad, site=asms[0], construct="swap rip slot")

    o = ctx.ob("save" + tag, f, "the old stack pointer is stored through `from` after all pushes and before the stack switch; `from` is &from_context->ctx_stack_pointer in "
               "rdi, `to` is to_context->ctx_stack_pointer in rsi; the asm is volatile and clobbers memory",
               "saving rsp before the last push makes the next resume pop one slot off; without the memory clobber the compiler may keep "
               "stack values in registers across the switch")
    bad = None
    sv = [e for e in ev_ if e[0] == "save_sp"]
    sw = [e for e in ev_ if e[0] == "switch"]
    if len(sv) != 1 or len(sw) != 1:
        bad = "save / switch instruction missing"
    else:
        if sv[0][1] != "from" or sv[0][2] != 0 or sv[0][3] != 8 * len(pushes) or sv[0][5]:
            bad = "rsp is saved to %d(%s) after %d bytes pushed (of %d)%s" % (sv[0][2], sv[0][1], sv[0][3], 8 * len(pushes), ", after the switch" if sv[0][5] else "")
        if sw[0][1] != "to" or sw[0][2] < sv[0][4]:
            bad = bad or "the stack is switched before rsp was saved / not to `to`"
    b = R["bind"]
    fk = f.key(b["from"][1], resolve=True) if "from" in b else None
    tk = f.key(b["to"][1], resolve=True) if "to" in b else None
    if not (fk and fk[0] == "&" and is_field(fk[1], CTX, "ctx_stack_pointer") and key_mentions(fk, lambda x: x[0] == "var" and x[1] == f.params[0]["name"])):
        bad = bad or "`from` is not &from_context->ctx_stack_pointer"
    if not (tk and is_field(tk, CTX, "ctx_stack_pointer") and key_mentions(tk, lambda x: x[0] == "var" and x[1] == f.params[1]["name"])):
        bad = bad or "`to` is not to_context->ctx_stack_pointer"
    if b.get("from", ("",))[0] != "D" or b.get("to", ("",))[0] != "S":
        bad = bad or "operand constraints are %s/%s, the template assumes rdi/rsi survive until used" % (b.get("from", ("?",))[0], b.get("to", ("?",))[0])
    a = asms[0].d
    if not a["asmvolatile"] or "memory" not in a["clobbers"]:
        bad = bad or "asm not volatile / no memory clobber"
    # rdi (holding `from`) is overwritten by the argument load only after its last use
    rdi_loads = [e for e in loads if e[3] == "rdi"]
    if rdi_loads and sv and rdi_loads[0][4] < sv[0][4]:
        bad = bad or "rdi is overwritten before the old rsp was stored through it"
    o.check(bad is None, "save after pushes, before switch", bad, site=asms[0], construct="swap save/operands")
    return R


def check_fresh(ctx, P, R, tag=""):
    f = P.fn("fiber_context_init")
    o = ctx.ob("fresh" + tag, f, "a fresh context is laid out like a suspended one: below a 16-aligned top: filler, argument, dummy return address, entry function, "
               "one zero slot per popped register; the entry function's slot is where the template loads rip from, the argument's slot where it loads rdi "
               "from, and the entry function starts with rsp = 8 (mod 16)",
               "one slot too few and the first switch pops the entry function into rbp and jumps to the dummy return address (NULL)")
    if R is None:
        o.fail("no template to compare with", site=f.loc, construct="fresh layout")
        return
    # Concrete-address simulation of the stack-pointer arithmetic for several (base, size) pairs, including sizes that
    # are not multiples of 16: which value is stored at which address, and where does the saved stack pointer end up?
    evs = []   # ordered events: ('assign', node, rhs) | ('dec', node) | ('store', node, value)
    for n in f.nodes:
        if n.k == "UnaryOperator" and n.op == "--" and is_field(f.key(n.kids[0]), CTX, "ctx_stack_pointer"):
            p = n.parent
            while p is not None and p.k == "ParenExpr":
                p = p.parent
            if p is not None and p.k == "UnaryOperator" and p.op == "*" and p.parent is not None and p.parent.k == "BinaryOperator" and p.parent.op == "=":
                evs.append(("store", n, p.parent.kids[1]))
            else:
                evs.append(("dec", n, None))
        elif n.k == "BinaryOperator" and n.op == "=" and is_field(f.key(n.kids[0]), CTX, "ctx_stack_pointer") and strip(n.kids[0]).k == "MemberExpr":
            evs.append(("assign", n, n.kids[1]))
    order = []
    rest = list(evs)
    while rest:
        firsts = [e for e in rest if all(f.find_path("entry", lambda n, e=e: n is e[1], barrier=lambda n, x=x: n is x[1]) is not None for x in rest if x is not e)]
        if len(firsts) != 1:
            raise AnalysisBroken("fiber_context_init: stack-pointer operations are not totally ordered")
        order.append(firsts[0])
        rest.remove(firsts[0])
    decs = [e[1] for e in evs if e[0] in ("dec", "store")]
    bad = None
    npop = len(R["pops"])
    loads = {e[3]: e[2] for e in R["events"] if e[0] == "load"}
    is_sp = field_load("ctx_stack_pointer")
    is_base = field_load("ctx_stack")
    is_size = field_load("ctx_stack_size")
    TAG = {"param": 0xA11, "run_function": 0xF00}
    for base, size in ((0x100000, 4096), (0x100000, 100008), (0x100010, 16385), (0x7f0000001008, 102400), (0x100000, 4046 * 26)):
        sp = None
        mem = {}
        try:
            for kind, node, val in order:
                atom = atom_from([(is_sp, sp if sp is not None else 0), (is_base, base), (is_size, size)])
                if kind == "assign":
                    sp = ev(f, val, atom) & ((1 << 64) - 1)
                elif kind == "dec":
                    sp -= 8
                else:
                    sp -= 8
                    v = f.resolve(val) or strip(val)      # (through the parameter locals of an inlined frame-building helper)
                    mem[sp] = TAG.get(v.name) if v.k == "DeclRefExpr" and v.dk == "param" else (v.cv if v.cv is not None else "?")
        except (Unevaluable, TypeError) as e:
            raise AnalysisBroken("fiber_context_init: cannot simulate the layout (%s)" % e)
        where = "stack [%#x, +%d)" % (base, size)
        if sp is None or not mem:
            bad = bad or "no layout is written"
            break
        if sp % 16 != 0:
            bad = bad or "%s: the saved stack pointer %#x is not 16-byte aligned" % (where, sp)
        if (sp + 8 * (npop + 1)) % 16 != 8:
            bad = bad or "%s: the entry function starts with rsp = %d (mod 16), the ABI requires 8" % (where, (sp + 8 * (npop + 1)) % 16)
        frame = [mem.get(sp + 8 * i) for i in range(npop + 3)]
        want_frame = [0] * npop + [TAG["run_function"], 0, TAG["param"]]
        if frame != want_frame:
            bad = bad or "%s: frame (from the saved sp upwards) holds %s, the template needs %s (0xf00 = entry function, 0xa11 = argument)" % (where, frame, want_frame)
        if loads.get("rcx") != 8 * npop or loads.get("rdi") != 8 * (npop + 2):
            bad = bad or "the template loads rip from %s and the argument from %s; the layout puts them at %d and %d" % (loads.get("rcx"), loads.get("rdi"), 8 * npop, 8 * (npop + 2))
        if min(mem) < base or max(mem) + 8 > base + size:
            bad = bad or "%s: the frame is written outside the fiber's own stack" % where
    # alignment mask
    # allocation first
    al = f.calls("fiber_context_alloc_stack")
    if not al or any(f.dominated_by(d, nodeset(al)) is not None for d in decs):
        bad = bad or "the layout is written before the stack is allocated"
    else:
        # failure of the allocation returns an error before any layout store
        isal = nodeset(al)
        if reach(f, decs, atom_from([(isal, 0)])):
            bad = bad or "the layout is written although the allocation failed"
    o.check(bad is None, "5 (base,size) pairs simulated", bad, site=f.loc, construct="fresh context layout")


def check_stack(ctx, P, strategy, tag=""):
    pair = {"split": ("__splitstack_makecontext", "__splitstack_releasecontext"), "malloc": ("malloc", "free"), "mmap": ("mmap", "munmap")}[strategy]
    al, fr = P.fn("fiber_context_alloc_stack"), P.fn("fiber_free_stack")
    o = ctx.ob("stack" + tag, fr, "stack strategy %s: allocated with %s, released with the matching %s on the same context; fiber_free_stack is called only from "
               "fiber_context_destroy, for non-thread contexts; fiber_context_destroy only from fiber_destroy" % (strategy, pair[0], pair[1]),
               "free() of an mmap'd stack (or the reverse) corrupts the allocator; releasing a thread's own stack unmaps the running stack")
    bad = None
    if not al.calls(pair[0]):
        bad = "alloc does not call %s" % pair[0]
    rc = fr.calls(pair[1])
    if len(rc) != 1:
        bad = bad or "release does not call %s exactly once" % pair[1]
    else:
        ak = [fr.key(a, True) for a in fr.args(rc[0])]
        fld = {"split": "splitstack_context", "malloc": "ctx_stack", "mmap": "ctx_stack"}[strategy]
        if not key_mentions(ak[0], lambda x: x[0] == "f" and x[1] == CTX and x[2] == fld):
            bad = bad or "%s is applied to `%s`" % (pair[1], fr.args(rc[0])[0].text)
        if strategy == "mmap" and not (len(ak) > 1 and is_field(ak[1], CTX, "ctx_stack_size")):
            bad = bad or "munmap length is not ctx_stack_size"
        others = [c for c in fr.calls(("free", "munmap", "__splitstack_releasecontext")) if c is not rc[0]]
        if others:
            bad = bad or "a second release call `%s`" % others[0].text
    for fn, c in P.callers_of("fiber_free_stack"):
        if fn.name != "fiber_context_destroy":
            bad = bad or "fiber_free_stack called from %s" % fn.name
        else:
            isth = field_load("is_thread")
            isctx = lambda n: n.k == "ImplicitCastExpr" and n.ck == "LValueToRValue" and strip(n).k == "DeclRefExpr" and strip(n).dk == "param"
            if reach(fn, [c], atom_from([(isth, 1), (isctx, 4096)])):
                bad = bad or "a thread context's stack would be released"
            if not reach(fn, [c], atom_from([(isth, 0), (isctx, 4096)])):
                bad = bad or "a fiber context's stack is never released"
            if fn.find_path(c, lambda n: n is c) is not None:
                bad = bad or "the stack can be released twice"
    for fn, c in P.callers_of("fiber_context_destroy"):
        if fn.name != "fiber_destroy":
            bad = bad or "fiber_context_destroy called from %s" % fn.name
    o.check(bad is None, "%s / %s" % pair, bad, site=fr.loc, construct="stack pairing " + strategy)


def check_stack_size(ctx, P, strategy, tag=""):
    from rules import is_param_load, is_var_load
    from symword import Machine
    al = P.fn("fiber_context_alloc_stack")
    o = ctx.ob("stack.size" + tag, al, "strategy %s: the stack handed to the fiber is at least as large as requested, for every size_t request (including 4 GiB and more), and the "
               "recorded ctx_stack_size is the size actually allocated" % strategy,
               "a size truncated to 32 bits gives a fiber that asked for 4 GiB + x a stack of x bytes: it runs off its own stack into other fibers' stacks")
    bad = None
    target = {"split": "__splitstack_makecontext", "malloc": "malloc", "mmap": "mmap"}[strategy]
    calls = al.calls(target)
    if len(calls) != 1:
        bad = "allocation call not found"
    else:
        argi = {"split": 0, "malloc": 0, "mmap": 1}[strategy]
        for req in (1024, 102400, 100008, 2 ** 32 - 8, 2 ** 32 + 4096, 2 ** 33 + 12345):
            m = Machine(al, P, atom_from([(is_param_load(al, "stack_size"), req),
                                          (lambda n: n.k == "CallExpr" and n.callee == "sysconf", 4096),
                                          (lambda n: n.k == "ImplicitCastExpr" and n.ck == "LValueToRValue" and strip(n).k == "DeclRefExpr" and strip(n).name == "fiberPageSize", 4046)]))
            # the parameter may be re-assigned before the call: interpret up to the call
            pd = [p["did"] for p in al.params if p["name"] == "stack_size"][0]
            m.vals[pd] = req
            try:
                hit = m.run("entry", lambda n: n is calls[0])
                got = m.eval(al.args(calls[0])[argi]) if hit is not None else None
            except Unevaluable as e:
                got = None
            if got is None:
                if strategy == "mmap":
                    continue  # size computed by a page-rounding helper with a static cache: covered by the recorded-size rule below
                bad = bad or "cannot evaluate the allocation size for a request of %d bytes" % req
            elif got < req:
                bad = bad or "a request of %d bytes allocates only %d bytes" % (req, got)
        if strategy == "malloc":
            # tiny requests: the block must at least hold the initial frame fiber_context_init writes below its (16-aligned) top
            for req in (1, 16, 64):
                m = Machine(al, P, atom_from([(is_param_load(al, "stack_size"), req)]))
                pd = [p["did"] for p in al.params if p["name"] == "stack_size"][0]
                m.vals[pd] = req
                try:
                    hit = m.run("entry", lambda n: n is calls[0])
                    got = m.eval(al.args(calls[0])[argi]) if hit is not None else None
                except Unevaluable:
                    got = None
                if got is not None and got < 128:
                    bad = bad or ("a request of %d bytes allocates %d bytes: the initial frame (nine 8-byte slots below a 16-aligned top) is written below the "
                                  "allocation, into the neighbouring heap block, and fiber_context_init reports success" % (req, got))
        if strategy in ("malloc", "mmap"):
            st = al.stores_to(CTX, "ctx_stack_size")
            if len(st) != 1:
                bad = bad or "ctx_stack_size is not recorded exactly once"
            else:
                ak = al.key(al.args(calls[0])[argi], resolve=True)
                sk = al.key(st[0].value, resolve=True)
                rk = al.target_key(st[0].target)
                if not (ak == sk or ak == rk or key_mentions(ak, lambda x: x == rk)):
                    bad = bad or "the size allocated (`%s`) and the size recorded (`%s`) are different expressions" % (al.args(calls[0])[argi].text, st[0].value.text)
    o.check(bad is None, "6 request sizes", bad, site=al.loc, construct="stack size " + strategy)
    if strategy == "mmap":
        rp = P.fn("fiber_round_to_page_size")
        o = ctx.ob("stack.size.round" + tag, rp, "the page rounding returns at least the requested size (and at least two pages) for every size_t request", "as stack.size")
        bad = None
        ps = [d for d in rp.nodes if d.k == "ImplicitCastExpr" and d.ck == "LValueToRValue" and strip(d).k == "DeclRefExpr" and strip(d).name == "fiberPageSize"]
        for req in (1, 4046, 4047, 102400, 2 ** 32 - 8, 2 ** 32 + 4096):
            atom = atom_from([(is_param_load(rp, "size"), req), (nodeset(ps), 4046)])
            rets = rp.returns()
            try:
                v = ev(rp, rets[-1].kids[0], atom)
            except Unevaluable:
                v = None
            if v is None or v < req or v < 2 * 4046:
                bad = bad or "request %d -> %s bytes" % (req, v)
        o.check(bad is None, "rounding table", bad, site=rp.loc, construct="page rounding")


def check_ucontext(ctx, P):
    sw = P.fn("fiber_context_swap")
    o = ctx.ob("ucontext.swap", sw, "ucontext back-end: swapcontext(from's ucontext, to's ucontext) in that order", "swapped operands save into the context being resumed")
    cs = sw.calls("swapcontext")
    bad = None
    if len(cs) != 1:
        bad = "no swapcontext call"
    else:
        a = sw.args(cs[0])
        k0, k1 = sw.key(a[0], True), sw.key(a[1], True)
        if not (key_mentions(k0, lambda x: x[0] == "var" and x[1] == sw.params[0]["name"]) and key_mentions(k1, lambda x: x[0] == "var" and x[1] == sw.params[1]["name"])):
            bad = "swapcontext(%s, %s)" % (a[0].text, a[1].text)
    o.check(bad is None, "from, to", bad, site=sw.loc, construct="ucontext swap operands")
    ini = P.fn("fiber_context_init")
    o = ctx.ob("ucontext.init", ini, "getcontext before makecontext; uc_stack = (ctx_stack, ctx_stack_size) filled after the stack is allocated; makecontext(uctx, run_function, 1, param)", "")
    g, m, al = ini.calls("getcontext"), ini.calls("makecontext"), ini.calls("fiber_context_alloc_stack")
    bad = None
    if len(g) != 1 or len(m) != 1 or len(al) != 1:
        bad = "shape"
    else:
        if ini.dominated_by(m[0], nodeset(g)) is not None or ini.dominated_by(m[0], nodeset(al)) is not None:
            bad = "makecontext before getcontext / allocation"
        a = ini.args(m[0])
        if a[2].cv != 1 or not (strip(a[3]).k == "DeclRefExpr" and strip(a[3]).name == "param"):
            bad = bad or "makecontext arguments"
        sp = [s for s in ini.stores() if is_field(ini.target_key(s.target), None, "ss_sp")]
        sz = [s for s in ini.stores() if is_field(ini.target_key(s.target), None, "ss_size")]
        if not sp or not sz or not key_mentions(ini.key(sp[0].value, True), lambda x: x[0] == "f" and x[2] == "ctx_stack") or \
                not key_mentions(ini.key(sz[0].value, True), lambda x: x[0] == "f" and x[2] == "ctx_stack_size"):
            bad = bad or "uc_stack is not (ctx_stack, ctx_stack_size)"
        elif ini.dominated_by(m[0], nodeset([sp[0].node, sz[0].node])) is not None and False:
            pass
    o.check(bad is None, "getcontext -> stack -> makecontext", bad, site=ini.loc, construct="ucontext init")


SPLITSTACK_SLOTS = 10     # libgcc generic-morestack.c: `void *context[NUMBER_OFFSETS]`, NUMBER_OFFSETS = 10 (part of libgcc's ABI)


def check_splitstack_buffer(ctx, P, tag=""):
    """the buffer every __splitstack_*context call is given holds the ten pointers libgcc reads and writes"""
    calls = [(fn, c) for fn in P.unique_functions() for c in fn.calls()
             if (c.callee or "").startswith("__splitstack_") and (c.callee or "").endswith(("context", "context_"))]
    if not calls:
        return
    o = ctx.ob("splitstack.buffer" + tag, "", "every context buffer passed to libgcc's __splitstack_getcontext / setcontext / makecontext / releasecontext / "
               "block_signals_context is an array of at least %d pointers" % SPLITSTACK_SLOTS,
               "libgcc stores ten words through that pointer on every switch: a shorter array lets it overwrite what follows the buffer in fiber_context_t / "
               "fiber_t (the fiber's join result, its state)")
    bad = None
    for fn, c in calls:
        args = fn.args(c)
        a = args[1] if c.callee == "__splitstack_makecontext" else args[0]
        t = strip(a)
        bits = None
        if t is not None and t.k == "MemberExpr":
            try:
                bits = P.field(t.rec, t.field).get("bits_size")
            except AnalysisBroken:
                bits = None
        if bits is None:
            bad = bad or ("cannot size the buffer `%s`" % a.text, c)
        elif bits < 64 * SPLITSTACK_SLOTS:
            bad = bad or ("`%s` in %s passes a buffer of %d pointers, libgcc writes %d" % (c.text[:60], fn.name, bits // 64, SPLITSTACK_SLOTS), c)
    o.check(bad is None, "%d calls, buffer = %d pointers" % (len(calls), SPLITSTACK_SLOTS), bad[0] if bad else None, site=bad[1] if bad else None,
            construct="split-stack context buffer too small")


def run(ctx):
    P = ctx.prog()
    c01.core_dependency(ctx, P, "core.dep", (),
                        'the callers of the context switch (swap only from switch_to, one manager per kernel thread)',
                        'a thread outside the runtime that reaches fiber_context_swap saves its registers into a context a kernel thread is running')
    R = check_swap(ctx, P)
    check_fresh(ctx, P, R)
    check_splitstack_buffer(ctx, P)
    strategy = "split" if "-DFIBER_STACK_SPLIT" in P.manifest["flags"] else ("malloc" if "-DFIBER_STACK_MALLOC" in P.manifest["flags"] else "mmap")
    check_stack(ctx, P, strategy)
    check_stack_size(ctx, P, strategy)
    ctx.derived["template"] = {"pushes": [r for r, v in R["pushes"]], "pops": [r for r, o_ in R["pops"]]} if R else None


def thorough(ctx):
    for cfg, strat in (("malloc", "malloc"), ("mmap", "mmap")):
        ctx.config = cfg
        Q = ctx.prog(cfg)
        R = check_swap(ctx, Q, "")
        check_fresh(ctx, Q, R)
        check_stack(ctx, Q, strat)
        check_stack_size(ctx, Q, strat)
    ctx.config = "ucontext"
    Q = ctx.prog("ucontext")
    check_ucontext(ctx, Q)
    check_stack(ctx, Q, "split")
    ctx.config = "pinned"
    return {}
