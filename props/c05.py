"""C05 — condition variable: atomic unlock-and-wait, no lost signal, broadcast wakes all (structural part)."""
from core import strip, is_field, key_mentions, order_ge, key_str
from facts import AnalysisBroken
from rules import (writer_kind, check_init, nodeset, ev, Unevaluable, forced_edges, atom_from, reach, atomic_ops, ret_const, callpred)
import stale
from props import c01
from props import deps

EXPLANATION = (
    "Decides the structure behind 'unlock-and-wait is atomic': fiber_cond_wait registers itself (waiter_count++ then "
    "enqueue) while the caller's mutex is still held — neither it nor the enqueue helper contains an unlock call; the "
    "mutex is released only through the manager's mutex_to_unlock slot, written before the enqueue and consumed by the "
    "successor after the context switch — and re-locks the same mutex on every return path.  signal/broadcast run under "
    "the internal mutex on all paths, claim waiters with one atomic operation (fetch-sub / exchange with 0), wake exactly "
    "the number claimed from this condition's list (1 when the decremented count is >= 0, restoring it otherwise; the "
    "exchanged value for broadcast), and are the only consumers of that list.  No-lost-signal over all interleavings is not decided.")
NOT_DECIDED = ["no lost signal / no spurious release over all interleavings, in particular for callers that signal without holding the mutex"]
ASSUMPTIONS = ["callers hold `mutex` when calling fiber_cond_wait (POSIX contract)"]
C = "fiber_cond"
WAKEQ = "fiber_manager_wake_from_mpsc_queue"
UNLOCKS = ("fiber_mutex_unlock", "fiber_mutex_unlock_internal")


def cond_waiters(fn, arg):
    k = fn.key(arg, resolve=True)
    if k[0] == "&":
        k = k[1]
    return is_field(k, C, "waiters") and k[3] == ("*", ("var", "cond", fn.params[0]["did"]))


def internal_mutex(fn, arg):
    k = fn.key(arg, resolve=True)
    if k[0] == "&":
        k = k[1]
    return is_field(k, C, "internal_mutex") and k[3] == ("*", ("var", "cond", fn.params[0]["did"]))


def run(ctx):
    P = ctx.prog()
    c01.core_dependency(ctx, P, "core.dep", ('fiber_manager_wait_in_mpsc_queue', 'fiber_manager_wait_in_mpsc_queue_and_unlock', 'fiber_manager_wake_from_mpsc_queue', 'fiber_cond_wait', 'fiber_cond_signal', 'fiber_cond_broadcast'),
                        "the condition variable's sleep/wake path (wait_in_mpsc_queue_and_unlock / wake_from_mpsc_queue)",
                        'a waiter marked resumable while it is still running returns from fiber_cond_wait without a matching signal')
    deps.depend(ctx, P, 'C15', 'queue.dep', "the condition variable's waiter queue (mpsc_fifo)",
                'a waiter that the queue drops is never signalled', lambda x: x.rule.startswith(("mpsc.", "mpsc_fifo.")) or x.fn == "mpsc_fifo_init")
    w = P.fn("fiber_cond_wait")
    h = P.fn("fiber_manager_wait_in_mpsc_queue_and_unlock")
    o = ctx.ob("wait.atomic", w, "waiter_count is incremented before the enqueue; the caller's mutex is released only through mutex_to_unlock (no unlock "
               "call in fiber_cond_wait or in the enqueue helper; the slot is written before the enqueue); every return re-locks the same mutex",
               "unlocking before registering opens a window in which a signal finds no waiter and is lost; returning without the mutex "
               "breaks the caller's critical section")
    bad = None
    inc = [s for s in atomic_ops(w, C, "waiter_count") if s.aop == "fetch_add" and s.value.cv == 1]
    enq = w.calls("fiber_manager_wait_in_mpsc_queue_and_unlock")
    if len(inc) != 1 or len(enq) != 1:
        o.fail("expected one waiter_count++ and one enqueue call", site=w.loc, construct="cond_wait shape")
    else:
        if w.dominated_by(enq[0], nodeset([inc[0].node])) is not None:
            bad = "the enqueue is reachable before waiter_count was incremented"
        if not order_ge(inc[0].order or "relaxed", "release"):
            bad = bad or "waiter_count++ has order %s" % inc[0].order
        if w.calls(UNLOCKS) or h.calls(UNLOCKS):
            bad = bad or "a direct unlock call: `%s`" % (w.calls(UNLOCKS) + h.calls(UNLOCKS))[0].text
        a = w.args(enq[0])
        mp = [p for p in w.params if p["name"] == "mutex"]
        if not (cond_waiters(w, a[1]) and strip(a[2]).k == "DeclRefExpr" and mp and strip(a[2]).did == mp[0]["did"]):
            bad = bad or "enqueue arguments `%s`" % enq[0].text
        relock = [c for c in w.calls("fiber_mutex_lock") if strip(w.args(c)[0]).k == "DeclRefExpr" and mp and strip(w.args(c)[0]).did == mp[0]["did"]]
        if not relock or w.find_path(enq[0], "exit", barrier=nodeset(relock)) is not None:
            bad = bad or "a return path after the wait does not re-lock the caller's mutex"
        # helper: slot store before the enqueue, value = the mutex parameter
        sl = [s for s in h.stores_to("fiber_manager", "mutex_to_unlock")]
        hw = h.calls("fiber_manager_wait_in_mpsc_queue")
        hp = [p for p in h.params if p["name"] == "mutex"]
        if len(sl) != 1 or len(hw) != 1 or h.dominated_by(hw[0], nodeset([sl[0].node])) is not None:
            bad = bad or "the helper does not record mutex_to_unlock before enqueueing"
        elif not (strip(sl[0].value).k == "DeclRefExpr" and hp and strip(sl[0].value).did == hp[0]["did"]):
            bad = bad or "the helper hands over `%s`, not its mutex argument" % sl[0].value.text
        elif [strip(x).did for x in h.args(hw[0])[:2]] != [h.params[0]["did"], h.params[1]["did"]]:
            bad = bad or "the helper enqueues on other arguments: `%s`" % hw[0].text
        o.check(bad is None, "count++ -> slot -> enqueue -> relock", bad, site=enq[0], construct="cond_wait order")

    for name, kind in (("fiber_cond_signal", "fetch_sub"), ("fiber_cond_broadcast", "exchange")):
        f = P.fn(name)
        o = ctx.ob(name.replace("fiber_cond_", ""), f,
                   ("signal: under the internal mutex on all paths, one atomic fetch-sub claims a waiter; exactly one waiter of this condition is "
                    "woken when the decremented count is >= 0, otherwise the count is restored and nobody is woken")
                   if kind == "fetch_sub" else
                   ("broadcast: under the internal mutex on all paths, one atomic exchange with 0 takes the whole count; that many waiters of this "
                    "condition are woken (none when it was 0)"),
                   "claiming and waking outside the internal mutex gives the waiter list two consumers; waking a different number than claimed "
                   "either strands registered waiters or spins for waiters that do not exist")
        locks = [c for c in f.calls("fiber_mutex_lock") if internal_mutex(f, f.args(c)[0])]
        unl = [c for c in f.calls(UNLOCKS) if internal_mutex(f, f.args(c)[0])]
        ops = atomic_ops(f, C, "waiter_count")
        claim = [s for s in ops if s.aop == kind]
        wakes = f.calls(WAKEQ)
        bad = None
        if len(locks) != 1 or not unl or len(claim) != 1 or not wakes:
            o.fail("shape not recognised (locks %d, unlocks %d, claims %d, wakes %d)" % (len(locks), len(unl), len(claim), len(wakes)),
                   site=f.loc, construct=name + " shape")
            continue
        cl = claim[0]
        reads = [l.node for l in f.loads_of(C, "waiter_count")]
        for n in [cl.node] + wakes + [s.node for s in ops] + reads:
            x = c01.held_lock_ok(f, n, locks, unl)
            if x is not None:
                bad = bad or ("`%s` is reachable without the internal mutex held (waiter_count is transiently off by one while a signal that found "
                              "nobody restores it: a decision taken on an unlocked read can skip a registered waiter)" % n.text[:50])
        if f.find_path(locks[0], "exit", barrier=nodeset(unl)) is not None:
            bad = bad or "a path returns with the internal mutex still locked"
        if f.find_path("entry", "exit", barrier=nodeset(locks)) is not None:
            bad = bad or "a path returns without ever taking the internal mutex (no claim is made, no waiter can be released on it)"
        isop = lambda n: n is cl.node
        if kind == "fetch_sub":
            if cl.value.cv != 1:
                bad = bad or "fetch_sub amount `%s`" % cl.value.text
            restore = [s for s in ops if s.aop == "fetch_add"]
            for old in range(-1, 4):
                atom = atom_from([(isop, old)])
                rw = reach(f, wakes, atom)
                rr = reach(f, [s.node for s in restore], atom)
                if old >= 1 and (not rw or rr):
                    bad = bad or "count was %d (waiters registered): wakes=%s restores=%s" % (old, rw, rr)
                if old < 1 and (rw or not rr):
                    bad = bad or "count was %d (no waiter): wakes=%s restores=%s" % (old, rw, rr)
            for wk in wakes:
                a = f.args(wk)
                if not cond_waiters(f, a[1]) or a[2].cv != 1:
                    bad = bad or "wake arguments `%s`" % wk.text
        else:
            if cl.value.cv != 0:
                bad = bad or "exchange stores `%s`, not 0" % cl.value.text
            for old in (0, 1, 3):
                atom = atom_from([(isop, old)])
                rw = reach(f, wakes, atom)
                if (old != 0) != rw:
                    bad = bad or "count was %d: wake reachable=%s" % (old, rw)
                for wk in wakes:
                    if old:
                        try:
                            n = ev(f, f.args(wk)[2], atom)
                        except Unevaluable:
                            n = None
                        if n != old:
                            bad = bad or "count was %d but %s waiters are woken" % (old, n)
                    if not cond_waiters(f, f.args(wk)[1]):
                        bad = bad or "wakes `%s`" % f.args(wk)[1].text
        o.check(bad is None, "lock pair + claim table", bad, site=cl.node, construct=name + " protocol")

    o = ctx.ob("consumer", "", "a condition's waiter list is consumed only by fiber_cond_signal / fiber_cond_broadcast; waiter_count is modified only by "
               "wait (++), signal (--/++) and broadcast (exchange)", "the list is single-consumer (the holder of the internal mutex)")
    bad = None
    n = 0
    for fn in P.unique_functions():
        for c in fn.calls((WAKEQ, "mpsc_fifo_trypop", "mpsc_fifo_peek")):
            for a in fn.args(c):
                if key_mentions(fn.key(a, resolve=True), lambda x: x[0] == "f" and x[1] == C and x[2] == "waiters"):
                    n += 1
                    if fn.name not in ("fiber_cond_signal", "fiber_cond_broadcast"):
                        bad = bad or ("`%s` in %s" % (c.text, fn.name), c)
        for s in fn.stores_to(C, "waiter_count"):
            kind = writer_kind(s)
            ok = {"fiber_cond_wait": {"fetch_add"}, "fiber_cond_signal": {"fetch_sub", "fetch_add"}, "fiber_cond_broadcast": {"exchange"}}
            if kind not in ok.get(fn.name, ()):
                bad = bad or ("`%s` in %s" % (s.node.text, fn.name), s.node)
    ctx.expect_count("consumers of cond waiters", n, 2)
    o.check(bad is None, "consumer/writer tables", "unexpected " + (bad[0] if bad else ""), site=bad[1] if bad else None, construct="cond consumer/writer")

    q = P.fn("fiber_manager_wait_in_mpsc_queue")
    o = ctx.ob("wait.window", q, "the waiter is on the list before it yields (push dominates the yield), so the mutex handed to the successor is released "
               "only after the enqueue: a released waiter needs that mutex to wait again, which keeps it off the list until every registered "
               "waiter is enqueued", "this is what makes one-at-a-time release by broadcast safe here (and not in the barrier, C12)")
    pushes, ys = q.calls("mpsc_fifo_push"), q.calls("fiber_manager_yield")
    bad = None
    if not pushes or not ys or any(q.dominated_by(y, nodeset(pushes)) is not None for y in ys):
        bad = "yield reachable before the push"
    o.check(bad is None, "push before yield", bad, site=q.loc, construct="enqueue before yield")
    check_init(ctx, P, "fiber_cond_init", [("fiber_cond", "waiter_count", 0)], calls=["mpsc_fifo_init", "fiber_mutex_init"])
