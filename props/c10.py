"""C10 — fiber_yield is fair: structural fairness certificate of the run-queue discipline."""
from core import strip, is_field, key_str
from facts import AnalysisBroken
from rules import nodeset, callpred, field_of, arg_key, ev, Unevaluable, truth_table
from props import c01

EXPLANATION = (
    "Decides the structural fairness certificate only (DESIGN.md §5 C10): with a LIFO pop_bottom, the deque that "
    "fiber_scheduler_schedule pushes to must be a different field from the one fiber_scheduler_next drains "
    "(generation batching), the two deques may be exchanged only when the drained one is empty, a fiber still "
    "saving its state is re-queued onto the batch being filled, and a yielding fiber is re-queued only by its "
    "successor (deferred to_schedule slot).  From these every member of the current batch runs before any fiber "
    "made runnable during the batch.  The bound itself (a runtime count) and the effect of stealing are not decided.")
NOT_DECIDED = ["the bypass bound as a runtime count", "fairness effects of work stealing across kernel threads"]
ASSUMPTIONS = ["wsd_work_stealing_deque_pop_bottom is LIFO with respect to push_bottom (C02 checks the deque itself)"]

PUSH = "wsd_work_stealing_deque_push_bottom"
POP = "wsd_work_stealing_deque_pop_bottom"
SIZE = "wsd_work_stealing_deque_size"


def deque_fields(fn, call):
    from rules import possible_fields
    fs = possible_fields(fn, fn.args(call)[0])
    if not fs:
        raise AnalysisBroken("%s: cannot classify deque argument of %s" % (fn.name, call.text))
    return fs


def deque_field(fn, call):
    """the (first) field; callers that must consider every possibility use deque_fields"""
    return sorted(deque_fields(fn, call))[0]


def check_wsd(ctx, P, sched, nxt, tag=""):
    pushes = sched.calls(PUSH)
    pops = nxt.calls(POP)
    if not pushes or not pops:
        raise AnalysisBroken("scheduler shape not recognised: schedule has %d push_bottom, next has %d pop_bottom"
                             % (len(pushes), len(pops)))
    push_fields = set().union(*[deque_fields(sched, c) for c in pushes])
    pop_fields = set().union(*[deque_fields(nxt, c) for c in pops])
    o = ctx.ob("batch" + tag, sched,
               "the deque fiber_scheduler_schedule pushes to is a different field from the one "
               "fiber_scheduler_next pops (LIFO pop => generation batching needs two deques)",
               "pushing onto the deque being drained LIFO lets two yielding fibers ping-pong forever while "
               "every fiber below them in that deque starves (replayed: D1)")
    both = push_fields & pop_fields
    if both:
        c = [c for c in pushes if deque_fields(sched, c) & both][0]
        o.fail("schedule can push onto `%s`, the deque that fiber_scheduler_next pops" % (sorted(both)[0][1]),
               site=c, construct="push_bottom(%s) in schedule; pop_bottom(%s) in next" % (sorted(both)[0][1], sorted(both)[0][1]))
    else:
        o.ok("push -> %s ; pop <- %s" % (sorted(f[1] for f in push_fields), sorted(f[1] for f in pop_fields)), pushes + pops)

    # swap: every store to the pop / push fields in `next` is guarded by size(pop field) == 0
    fields = push_fields | pop_fields
    swaps = [s for s in nxt.stores() if any(is_field(nxt.target_key(s.target), r, f) for r, f in fields)]
    o = ctx.ob("swap" + tag, nxt,
               "the two deques are exchanged only when the deque being drained is empty",
               "swapping a non-empty batch away postpones its members behind fibers that became runnable later")
    if not swaps:
        o.fail("next never exchanges the deques: fibers pushed to the other deque are never run",
               site=nxt.loc, construct="no swap")
    else:
        popf = sorted(pop_fields)[0]

        def cond_is_empty(leaf, pol):
            # accept any condition that, as a function of size(pop deque) in 0..3, holds only for 0
            def is_size(n):
                n2 = strip(n)
                return (n2 is not None and n2.k == "CallExpr" and n2.callee == SIZE
                        and field_of(nxt, nxt.args(n2)[0]) == popf)
            if not any(is_size(m) for m in leaf.walk()):
                return False
            try:
                tt = truth_table(nxt, leaf, pol, [is_size], [range(0, 4)])
            except Unevaluable:
                return False
            return tt == {(0,)}
        bad = None
        for s in swaps:
            w = nxt.guarded(s.node, cond_is_empty)
            if w is not None:
                bad = (s, w)
                break
        if bad:
            o.fail("store `%s` reachable without having tested that `%s` is empty" % (bad[0].node.text, popf[1]),
                   site=bad[0].node, witness=bad[1], construct="unguarded swap store to " + key_str(nxt.target_key(bad[0].target)))
        else:
            o.ok("%d swap stores, all under size(%s)==0" % (len(swaps), popf[1]), [s.node for s in swaps])

    # requeue: SAVING fibers go to a deque that is not being popped
    re = nxt.calls(PUSH)
    o = ctx.ob("requeue.saving" + tag, nxt,
               "a fiber skipped because it is still saving its state is re-queued onto the batch being filled, "
               "not onto the deque being popped",
               "re-pushing it onto the deque being popped makes the pop loop take it again at once: the kernel "
               "thread spins inside fiber_scheduler_next and nothing else runs")
    if not re:
        o.fail("next does not re-queue SAVING fibers", site=nxt.loc, construct="no re-push")
    else:
        badc = [c for c in re if deque_fields(nxt, c) & pop_fields]
        if badc:
            o.fail("re-push onto the popped deque `%s`" % deque_field(nxt, badc[0])[1], site=badc[0],
                   construct="re-push onto popped deque")
        else:
            o.ok("re-push -> %s" % sorted({deque_field(nxt, c)[1] for c in re}), re)


def check_fifo(ctx, P, sched, nxt, tag):
    """dist sibling: one FIFO, push at the tail, pop at the head."""
    pushes = sched.calls("dist_fifo_push")
    pops = nxt.calls("dist_fifo_trypop")
    if not pushes or not pops:
        raise AnalysisBroken("sibling scheduler shape not recognised")
    o = ctx.ob("batch" + tag, sched,
               "push and pop use opposite ends of one FIFO queue",
               "FIFO order is its own fairness certificate: a re-queued fiber goes behind every queued fiber")
    pf = {field_of(sched, sched.args(c)[0]) for c in pushes}
    qf = {field_of(nxt, nxt.args(c)[0]) for c in pops}
    o.check(pf == qf and len(pf) == 1, "dist_fifo_push / dist_fifo_trypop on %s" % sorted(pf),
            "push and pop use different queues: %s vs %s" % (sorted(pf), sorted(qf)), site=pushes[0],
            construct="fifo mismatch")


def run(ctx):
    P = ctx.prog()
    c01.core_dependency(ctx, P, "core.dep", (),
                        'the yield path (successor re-queues the yielding fiber)',
                        'a fiber re-queued by somebody else than its successor re-enters the batch it is part of')
    sched = P.fn("fiber_scheduler_schedule")
    nxt = P.fn("fiber_scheduler_next")
    check_wsd(ctx, P, sched, nxt)

    # the yielding fiber is re-queued by its successor only
    sw = P.fn("fiber_manager_switch_to")
    mt = P.fn("fiber_manager_do_maintenance")
    yl = P.fn("fiber_manager_yield")
    SCHED = {"fiber_manager_schedule", "fiber_scheduler_schedule", PUSH}
    o = ctx.ob("requeue.successor", yl,
               "fiber_manager_yield / switch_to never schedule the yielding fiber themselves; switch_to records it "
               "in manager->to_schedule and the successor's maintenance schedules it",
               "a fiber that re-queues itself before switching can be popped (or stolen) and resumed while it "
               "still runs, and it re-enters the batch it is part of")
    direct = yl.calls(SCHED) + sw.calls(SCHED)
    ts = sw.stores_to("fiber_manager", "to_schedule")
    ms = [c for c in mt.calls("fiber_scheduler_schedule") + mt.calls("fiber_manager_schedule")
          if any(is_field(mt.key(a, resolve=True), "fiber_manager", "to_schedule") for a in mt.args(c))]
    if direct:
        o.fail("direct schedule call `%s`" % direct[0].text, site=direct[0], construct="self schedule in yield path")
    elif not ts or not ms:
        o.fail("to_schedule hand-over missing (stores in switch_to: %d, scheduled in maintenance: %d)" % (len(ts), len(ms)),
               site=sw.loc, construct="to_schedule hand-over missing")
    else:
        o.ok("to_schedule set at %s, scheduled at %s" % (ts[0].node.loc, ms[0].loc), [ts[0].node, ms[0]])
    ctx.derived["push_fields"] = sorted(f[1] for c in sched.calls(PUSH) for f in deque_fields(sched, c))
    ctx.derived["pop_fields"] = sorted(f[1] for c in nxt.calls(POP) for f in deque_fields(nxt, c))


def thorough(ctx):
    # sibling scheduler (not built by CMake, selectable in the Makefile)
    P = ctx.prog("pinned", siblings=True)
    f = "src/fiber_scheduler_dist.c"
    if f + ":fiber_scheduler_schedule" in P.functions:
        ctx.config = "pinned+siblings"
        check_fifo(ctx, P, P.fn("fiber_scheduler_schedule", f), P.fn("fiber_scheduler_next", f), "@dist")
        ctx.config = "pinned"
    for cfg in ("debug",):
        ctx.config = cfg
        Q = ctx.prog(cfg)
        check_wsd(ctx, Q, Q.fn("fiber_scheduler_schedule"), Q.fn("fiber_scheduler_next"))
    ctx.config = "pinned"
    return {}
