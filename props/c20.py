"""C20 — double-word-CAS structures (LIFO, dist FIFO, flushable stack, multi-signal) are ABA-safe (structural part)."""
from core import is_atomic_load, atomic_load_order, strip, strip_parens, is_field, order_ge, key_str, key_mentions
from facts import AnalysisBroken
from rules import (check_init, through_local, nodeset, callpred, atom_from, reach, ev, Unevaluable, is_compiler_fence, ret_const)
from symword import Machine
from props import c01

EXPLANATION = (
    "Decides the structure that makes a stale snapshot fail: compare_and_swap2 is `lock cmpxchg16b` on the +m location with "
    "expected (high, low) in rdx:rax and desired (high, low) in rcx:rbx and the result taken from ZF; in each union the "
    "counter overlays blob.low and the pointer blob.high (16 bytes, 16-aligned); at each of the eight CAS2 sites the counter "
    "is loaded before the pointer (acquire loads or a compiler barrier between), the function is interpreted to the CAS for "
    "enumerated snapshots and the installed word must be (counter+1, the site's specified new pointer) with the expected "
    "word equal to the whole snapshot and the target the structure's own blob; a failed CAS takes fresh loads (or returns "
    "RETRY); a pushed node is linked inside the loop before the CAS, a popped node is returned only on the success edge and "
    "its successor is read before the CAS; multi-signal rows: RAISED is consumed without sleeping, a waiter pushes itself "
    "and sleeps by the ready-to-wake mechanism, raise on {none, raised} leaves RAISED, raise on a waiter pops exactly the head "
    "and wakes exactly its fiber after the marker spin; the flushable stack re-links inside its CAS loop and flushes with one "
    "exchange.  ABA-freedom and exactly-once as temporal facts are not decided.")
NOT_DECIDED = ["ABA-freedom / exactly-once over all interleavings (temporal)", "the i386 compare_and_swap2 variant (not parsable in this sandbox)"]
ASSUMPTIONS = ["reading ->next of a node that was popped concurrently is safe (nodes are never unmapped; stated in dist_fifo.h)"]
CAS2 = "compare_and_swap2"
RAISED = -1

UNIONS = {"mpmc_lifo_t": ("mpmc_lifo_t::data", "counter", "head"),
          "dist_fifo_pointer_wrapper_t": ("dist_fifo_pointer", "counter", "node"),
          "fiber_multi_signal": ("fiber_multi_signal::data", "counter", "head")}


def check_asm(ctx, P):
    f = P.fn(CAS2)
    o = ctx.ob("cas2.asm", f, "compare_and_swap2 = `lock cmpxchg16b` on the `+m`(*location) operand; rdx:rax = original (high, low); rcx:rbx = new (high, low); "
               "result from setz; the asm is volatile and clobbers cc", "swapped halves compare the counter against the pointer: every CAS fails or, worse, succeeds on a stale pair")
    asms = f.all(k="GCCAsmStmt")
    bad = None
    if len(asms) != 1:
        bad = "no single asm statement"
    else:
        a = asms[0].d
        txt = a["asm"]
        if "lock" not in txt or "cmpxchg16b %1" not in txt or "setz %0" not in txt:
            bad = "template is `%s`" % txt.replace("\n", "\\n")
        outs, ins = a["outs"], a["ins"]
        exp = {"d": ("original_value", "high"), "a": ("original_value", "low"), "c": ("new_value", "high"), "b": ("new_value", "low")}
        if len(outs) != 2 or outs[1]["c"] != "+m" or f.key(f.nodes[outs[1]["e"]]) != ("*", ("var", "location", f.params[0]["did"])):
            bad = bad or "operand %%1 is not +m(*location)"
        if not outs or not outs[0]["c"].startswith("="):
            bad = bad or "result operand"
        seen = {}
        for i in ins:
            k = f.key(f.nodes[i["e"]], resolve=True)
            seen[i["c"]] = (k[3][1][1], k[2]) if k[0] == "f" and k[3][0] == "*" and k[3][1][0] == "var" else None
        for c, want in exp.items():
            if seen.get(c) != want:
                bad = bad or "register constraint \"%s\" is bound to %s, expected %s->%s" % (c, seen.get(c), want[0], want[1])
        if not a["asmvolatile"] or "cc" not in a["clobbers"]:
            bad = bad or "asm not volatile / no cc clobber"
        rets = f.returns()
        if len(rets) != 1 or f.key(rets[0].kids[0]) != f.key(f.nodes[outs[0]["e"]]):
            bad = bad or "the function does not return the setz result"
    o.check(bad is None, "operand table", bad, site=f.loc, construct="cmpxchg16b operands")
    o = ctx.ob("layout", "", "pointer_pair_t is 16 bytes, 16-aligned (low at 0, high at 8); in every union the counter overlays blob.low and the pointer blob.high",
               "cmpxchg16b faults on a misaligned operand; a counter in the wrong half is never compared")
    bad = None
    pp = P.record("pointer_pair")
    if (pp["size"], pp["align"]) != (16, 16) or [(x["name"], x["off_bits"]) for x in pp["fields"]] != [("low", 0), ("high", 64)]:
        bad = "pointer_pair layout %s" % [(x["name"], x["off_bits"]) for x in pp["fields"]]
    for u, (inner, cf, pf) in UNIONS.items():
        ur = P.record(u)
        ir = P.record(inner)
        fl = {x["name"]: x for x in ir["fields"]}
        uf = {x["name"]: x for x in ur["fields"]}
        if ur["size"] != 16 or ur["align"] != 16 or uf["blob"]["off_bits"] != 0 or fl[cf]["off_bits"] != 0 or fl[pf]["off_bits"] != 64 or \
                [x for x in uf.values() if x["name"] != "blob"][0]["off_bits"] != 0:
            bad = bad or "%s: counter/pointer do not overlay blob.low/blob.high" % u
    o.check(bad is None, "3 unions", bad, site="include/machine_specific.h", construct="double-word layouts")


def shared_load(fn, field_names):
    """atom predicate: load (plain or atomic) of a shared (non-local) field with one of the names"""
    m = Machine(fn, fn.prog)

    def pred(n):
        if n.k == "AtomicExpr" and "load" in (n.aop or ""):
            t = strip(fn.nodes[n.ptr])
            if t.k == "UnaryOperator" and t.op == "&":
                t = strip_parens(t.kids[0])
            return t.k == "MemberExpr" and t.field in field_names and m.locate(t) is None
        if n.k == "ImplicitCastExpr" and n.ck == "LValueToRValue":
            t = strip_parens(n.kids[0])
            return t.k == "MemberExpr" and t.field in field_names and m.locate(t) is None
        return False
    return pred


def site_words(P, fn, call, atoms):
    """Interpret fn up to `call` (a compare_and_swap2 call): (expected 128-bit word, desired word) or None if not reached."""
    m = Machine(fn, P, atom_from(atoms))
    hit = m.run("entry", lambda n: n.k == "CallExpr" and n.callee == CAS2)
    if hit is not call:
        return None, m
    words = []
    for a in fn.args(call)[1:]:
        e = strip(a)
        if not (e.k == "UnaryOperator" and e.op == "&"):
            raise AnalysisBroken("%s: CAS2 operand is not &local.blob" % fn.name)
        loc = m.locate(e.kids[0])
        if loc is None:
            raise AnalysisBroken("%s: CAS2 operand is not a local" % fn.name)
        words.append(m.read(loc) & ((1 << 128) - 1))
    return words, m


def w(counter, ptr):
    return ((ptr & ((1 << 64) - 1)) << 64) | (counter & ((1 << 64) - 1))


def check_sites(ctx, P):
    NEXT = 0x8880
    specs = {
        # fn: (counter field names, pointer field names, snapshots of pointer, spec(ptr) -> {site_index: new ptr} )
        "mpmc_lifo_push": (["counter"], ["head"], [0, 0x4000], lambda p: [("param", 1)]),
        "mpmc_lifo_pop": (["counter"], ["head"], [0x4000], lambda p: [NEXT]),
        "dist_fifo_trypop": (["counter"], ["node"], [0x4000], lambda p: [NEXT]),
        "fiber_multi_signal_wait": (["counter"], ["head"], [RAISED, 0, 0x4000], lambda p: [0] if p == RAISED else ["node"]),
        "fiber_multi_signal_raise": (["counter"], ["head"], [RAISED, 0, 0x4000], lambda p: [RAISED] if p in (RAISED, 0) else [NEXT]),
        "fiber_multi_signal_raise_strict": (["counter"], ["head"], [0x4000], lambda p: [NEXT]),
    }
    nsites = 0
    for name, (cfs, pfs, ptrs, spec) in specs.items():
        fn = P.fn(name)
        calls = fn.calls(CAS2)
        nsites += len(calls)
        o = ctx.ob("snapshot", fn, "at every CAS2: counter loaded before pointer (acquire / compiler barrier between); expected word = the whole snapshot; "
                   "target = the structure's own blob; installed word = (snapshot counter + 1, the specified new pointer); a failed CAS re-loads both",
                   "a CAS whose counter is not advanced (or is loaded after the pointer) succeeds from a stale snapshot when the pointer value recurs "
                   "(pop, reuse, push again): the stale `next` is installed and nodes are lost or handed out twice")
        bad = None
        isC, isP = shared_load(fn, cfs), shared_load(fn, pfs)
        isNext = shared_load(fn, ["next"])
        cl = [n for n in fn.nodes if isC(n)]
        pl = [n for n in fn.nodes if isP(n)]
        if not cl or not pl:
            o.fail("snapshot loads not found", site=fn.loc, construct="snapshot loads")
            continue
        # order of the two loads and barrier between
        cf = is_compiler_fence(fn)
        for pn in pl:
            if fn.dominated_by(pn, nodeset(cl)) is not None:
                bad = bad or "the pointer is loaded before the counter"
        for cn in cl:
            atomic_ok = is_atomic_load(cn) and order_ge(atomic_load_order(cn), "acquire")
            for pn in pl:
                p_ok = is_atomic_load(pn) and order_ge(atomic_load_order(pn), "acquire")
                if not (atomic_ok or p_ok):
                    if fn.find_path(cn, lambda n: n is pn, barrier=cf) is not None:
                        bad = bad or "nothing keeps the compiler from re-ordering the counter and pointer loads"
        for c in calls:
            k0 = fn.key(fn.args(c)[0], resolve=True)
            if not (k0[0] == "&" and k0[1][0] == "f" and k0[1][2] == "blob" and key_mentions(k0, lambda x: x[0] == "var" and x[2] == fn.params[0]["did"])):
                bad = bad or "CAS2 target `%s` is not the structure's own blob" % fn.args(c)[0].text
        for ptr in ptrs:
            for C in (0, 41, 2 ** 64 - 1):
                want = spec(ptr)
                atoms = [(isC, C), (isP, ptr), (isNext, NEXT)]
                words, m = site_words(P, fn, None, atoms) if False else (None, None)
                mm = Machine(fn, P, atom_from(atoms))
                mm.param_values = True
                try:
                    hit = mm.run("entry", lambda n: n.k == "CallExpr" and n.callee == CAS2)
                except Unevaluable as e:
                    raise AnalysisBroken("%s: cannot interpret to the CAS (%s)" % (name, e))
                if hit is None:
                    if name == "fiber_multi_signal_raise_strict" or (name == "mpmc_lifo_pop" and ptr == 0):
                        continue
                    bad = bad or "snapshot pointer %#x: no CAS2 is attempted" % ptr
                    continue
                ops = []
                for a in fn.args(hit)[1:]:
                    e = strip(a)
                    loc = mm.locate(e.kids[0]) if e.k == "UnaryOperator" and e.op == "&" else None
                    if loc is None:
                        raise AnalysisBroken("%s: CAS2 operand is not &local.blob" % name)
                    ops.append(mm.read(loc) & ((1 << 128) - 1))
                if ops[0] != w(C, ptr):
                    bad = bad or "snapshot (counter %d, pointer %#x): CAS2 expects %#x, not the snapshot" % (C, ptr & (2 ** 64 - 1), ops[0])
                nc, np_ = ops[1] & (2 ** 64 - 1), ops[1] >> 64
                if nc != (C + 1) % 2 ** 64:
                    bad = bad or "snapshot counter %d: the installed counter is %d (must be counter+1)" % (C, nc)
                wp = want[0]
                if wp == ("param", 1):
                    okp = np_ == Machine.param_value(fn.params[1]["did"])  # the pushed node
                elif wp == "node":
                    okp = True  # the waiter's own node: checked in msignal rows
                else:
                    okp = np_ == (wp & (2 ** 64 - 1))
                if not okp:
                    bad = bad or "snapshot pointer %#x: installs pointer %#x, expected %#x" % (ptr & (2 ** 64 - 1), np_, wp & (2 ** 64 - 1))
                # failure: fresh snapshot (or RETRY)
                mf = Machine(fn, P, atom_from(atoms + [(lambda n, hit=hit: n is hit, 0)]))
                mf.param_values = True
                mf.vals = dict(mm.vals)
                try:
                    stop = mf.run(hit, lambda n: (n.k == "CallExpr" and n.callee == CAS2) or isC(n) or n.k == "ReturnStmt")
                except Unevaluable:
                    stop = None
                if stop is None or not (isC(stop) or (stop.k == "ReturnStmt" and name == "dist_fifo_trypop" and ret_const(fn, stop) == -1)):
                    bad = bad or "after a failed CAS2 the function neither re-loads the counter nor returns RETRY"
        o.check(bad is None, "%d site(s) x snapshots" % len(calls), bad, site=calls[0], construct="CAS2 snapshot discipline in " + name)
    ctx.expect_count("compare_and_swap2 call sites", nsites, 8)


def check_lifo_dist(ctx, P):
    f = P.fn("mpmc_lifo_push")
    o = ctx.ob("lifo.push", f, "node->next = snapshot head is written inside the retry loop before every CAS2, and the word installed points at that node",
               "a link written once before the loop goes stale when the head changes: the CAS succeeds and cuts off everything pushed meanwhile")
    c = f.calls(CAS2)
    nx = [s for s in f.stores_to("mpsc_fifo_node", "next")]
    bad = None
    if len(c) != 1 or len(nx) != 1:
        bad = "shape"
    else:
        if f.dominated_by(c[0], nodeset([nx[0].node])) is not None or f.find_path(c[0], lambda n: n is c[0], barrier=nodeset([nx[0].node])) is not None:
            bad = "a CAS2 attempt is reachable without a fresh node->next link"
        vk = f.key(nx[0].value, resolve=True)
        if not key_mentions(vk, lambda x: x[0] == "atomic" or (x[0] == "f" and x[2] == "head")):
            bad = bad or "node->next is set to `%s`, not to the snapshot head" % nx[0].value.text
        st = [s for s in f.stores() if Machine(f, P).locate(s.target) is not None and strip(s.target).k == "MemberExpr" and strip(s.target).field == "head"
              and s.value is not None and strip(s.value).k == "DeclRefExpr" and strip(s.value).dk == "param"]
        if not st:
            bad = bad or "the installed head is not the pushed node"
    o.check(bad is None, "link inside loop", bad, site=f.loc, construct="lifo push link")
    for name in ("mpmc_lifo_pop", "dist_fifo_trypop"):
        f = P.fn(name)
        o = ctx.ob("pop.claim", f, "the successor (and, for the dist FIFO, its data) is read before the CAS2; a node is returned only on the CAS2-success edge",
                   "returning the node after a lost CAS hands it to two poppers")
        c = f.calls(CAS2)
        bad = None
        if len(c) != 1:
            bad = "shape"
        else:
            isc = lambda leaf, pol: through_local(f, leaf) is c[0] and pol is True
            for r in f.returns():
                rc = ret_const(f, r)
                if rc is None and f.guarded(r, isc) is not None:
                    bad = bad or "a node is returned without having won the CAS2"
            for l in f.loads_of("mpsc_fifo_node", "next") + f.loads_of("mpsc_fifo_node", "data"):
                if f.find_path(c[0], lambda n: n is l.node, barrier=lambda n: n.k == "AtomicExpr" or is_atomic_load(n)) is not None and f.find_path("entry", lambda n: n is l.node, barrier=lambda n: n is c[0]) is None:
                    bad = bad or "`%s` is read only after the CAS2" % l.node.text
        o.check(bad is None, "read before, return behind CAS2", bad, site=f.loc, construct="pop claim " + name)
    f = P.fn("dist_fifo_push")
    o = ctx.ob("dist.push", f, "the single pusher terminates the node (next = NULL), then a compiler barrier, then links tail->next, then moves tail",
               "a node linked before it is terminated lets a popper follow a stale next")
    nul = [s.node for s in f.stores_to("mpsc_fifo_node", "next") if s.value is not None and strip(s.value).cv == 0]
    lk = [s.node for s in f.stores_to("mpsc_fifo_node", "next") if s.node not in nul]
    tl = [s.node for s in f.stores_to("dist_fifo", "tail")]
    bad = None
    if len(nul) != 1 or len(lk) != 1 or len(tl) != 1:
        bad = "shape"
    else:
        if f.dominated_by(lk[0], nodeset(nul)) is not None:
            bad = "linked before terminated"
        # next is volatile: volatile accesses are not reordered with each other; otherwise a barrier is needed
        vol = all(s.target.tvolatile or strip(s.target).d.get("fvolatile") for s in f.stores_to("mpsc_fifo_node", "next"))
        if not vol and f.find_path(nul[0], lambda n: n is lk[0], barrier=is_compiler_fence(f)) is not None:
            bad = bad or "no compiler barrier between terminating and linking"
    o.check(bad is None, "terminate -> link -> tail", bad, site=f.loc, construct="dist push order")
    o = ctx.ob("dist.single_pusher", "", "dist_fifo_push is called on a scheduler's queue only from that scheduler's own entry points (one pusher per FIFO)", "")
    bad = None
    for fn, c in P.callers_of("dist_fifo_push"):
        if not fn.name.startswith("fiber_scheduler_"):
            bad = bad or ("called from %s" % fn.name, c)
    o.check(bad is None, "callers table", "dist_fifo_push " + (bad[0] if bad else ""), site=bad[1] if bad else None, construct="dist_fifo_push caller")


def check_stack(ctx, P):
    for name in ("mpmc_stack_push", "mpmc_stack_push_timeout"):
        f = P.fn(name)
        o = ctx.ob("stack.push", f, "n->next = head is re-written inside the CAS loop before every attempt; the CAS is release or stronger and installs n",
                   "a link written once goes stale when the CAS fails and reloads head: the retry publishes a node that points at an old head")
        cas = [s for s in f.stores_to("mpmc_stack", "head") if s.aop == "cas"]
        nx = [s for s in f.stores_to("mpmc_stack_node", "next")]
        bad = None
        if len(cas) != 1 or len(nx) != 1:
            bad = "shape"
        else:
            c = cas[0]
            if f.dominated_by(c.node, nodeset([nx[0].node])) is not None or f.find_path(c.node, lambda n: n is c.node, barrier=nodeset([nx[0].node])) is not None:
                bad = "a CAS attempt is reachable without a fresh n->next link"
            if not order_ge(c.order or "relaxed", "release"):
                bad = bad or "CAS order %s" % c.order
            ev_ = strip(c.expected)
            hv = strip(ev_.kids[0]) if ev_.k == "UnaryOperator" and ev_.op == "&" else None
            if hv is None or not (strip(nx[0].value).k == "DeclRefExpr" and strip(nx[0].value).did == hv.did):
                bad = bad or "n->next is not the head value the CAS compares against"
            if not (strip(c.value).k == "DeclRefExpr" and strip(c.value).dk == "param"):
                bad = bad or "the CAS does not install n"
        o.check(bad is None, "link inside loop", bad, site=f.loc, construct="stack push link " + name)
    f = P.fn("mpmc_stack_lifo_flush")
    o = ctx.ob("stack.flush", f, "flush takes the whole list with one atomic exchange(NULL) (acq_rel or stronger)", "load-then-store loses nodes pushed in between")
    ops = [s for s in f.stores_to("mpmc_stack", "head")]
    ok = len(ops) == 1 and ops[0].aop == "exchange" and strip(ops[0].value).cv == 0 and order_ge(ops[0].order or "relaxed", "acq_rel")
    o.check(ok, "exchange(NULL)", "flush is `%s`" % (ops[0].node.text if ops else "?"), site=f.loc, construct="stack flush")


def check_sentinel(ctx, P):
    """the RAISED marker of the multi signal is one constant, the same in every translation unit, and not a possible node address"""
    global RAISED
    from rules import macro_constant
    o = ctx.ob("msignal.sentinel", "", "FIBER_MULTI_SIGNAL_RAISED is the same compile-time constant in every translation unit, and neither NULL nor a possible "
               "node address (it is stored in the shared word and compared by fibers compiled elsewhere)",
               "a marker that differs between translation units is not recognised by a waiter compiled in another one: it links itself in front of the marker "
               "and sleeps, the pending raise is dropped")
    v, bad, site = macro_constant(P, "FIBER_MULTI_SIGNAL_RAISED")
    if bad is None and (v == 0 or (v is not None and 4096 <= v < 2 ** 47 and v % 8 == 0)):
        bad = "FIBER_MULTI_SIGNAL_RAISED = %#x can be NULL / a node address" % v
    if bad:
        o.fail(bad, site=site, construct="per-translation-unit sentinel")
        raise AnalysisBroken("multi-signal marker is not a constant: the row tables cannot be evaluated")
    o.ok("FIBER_MULTI_SIGNAL_RAISED = %d" % v)
    RAISED = v


def check_msignal(ctx, P):
    wt = P.fn("fiber_multi_signal_wait")
    o = ctx.ob("msignal.wait", wt, "wait: on RAISED the CAS2 that installs NULL consumes the signal and the fiber does not sleep; otherwise the fiber links its own node "
               "in front of the snapshot head inside the loop, installs it, and sleeps by the ready-to-wake mechanism (C01 mechanism 3)",
               "sleeping after consuming a raise loses the wake-up; a node linked outside the loop goes stale")
    cs = wt.calls(CAS2)
    ys = wt.calls(("fiber_manager_yield", "fiber_manager_set_and_wait"))
    bad = None
    if len(cs) != 2 or len(ys) != 1:
        bad = "shape"
    else:
        isC, isP = shared_load(wt, ["counter"]), shared_load(wt, ["head"])
        for ptr, sleeps in ((RAISED, False), (0, True), (0x4000, True)):
            m = Machine(wt, P, atom_from([(isC, 7), (isP, ptr), (lambda n: n.k == "CallExpr" and n.callee == CAS2, 1)]))
            try:
                m.run("entry", lambda n: n.k == "ReturnStmt")
            except Unevaluable as e:
                raise AnalysisBroken("multi_signal_wait: %s" % e)
            slept = any(c.callee in ("fiber_manager_yield", "fiber_manager_set_and_wait") for c in m.trace)
            if slept != sleeps:
                bad = bad or "head %s: sleeps=%s" % ("RAISED" if ptr == RAISED else hex(ptr), slept)
        nx = [s for s in wt.stores_to("mpsc_fifo_node", "next")]
        if len(nx) != 1 or not key_mentions(wt.key(nx[0].value, True), lambda x: x[0] == "atomic" or (x[0] == "f" and x[2] == "head")):
            bad = bad or "node->next is not the snapshot head"
        else:
            push_cas = cs[1]
            if wt.dominated_by(push_cas, nodeset([nx[0].node])) is not None or \
                    wt.find_path(push_cas, lambda n: n is push_cas, barrier=nodeset([nx[0].node])) is not None:
                bad = bad or "the waiter's node is not re-linked before every CAS2 attempt"
        # the node installed is the fiber's own node and holds the fiber
        dt = [s for s in wt.stores_to("mpsc_fifo_node", "data")]
        if not dt or not key_mentions(wt.key(dt[0].value, True), lambda x: x[0] == "f" and x[2] == "current_fiber"):
            bad = bad or "the node does not record the waiting fiber"
    o.check(bad is None, "3 head states", bad, site=wt.loc, construct="multi-signal wait rows")
    for name in ("fiber_multi_signal_raise", "fiber_multi_signal_raise_strict"):
        f = P.fn(name)
        o = ctx.ob("msignal.raise", f, "raise on a waiter pops exactly the head (new head = head->next read before the CAS2) and wakes exactly the fiber stored in that "
                   "node, handing the node back to it, after the ready-to-wake spin; raise on none/raised leaves RAISED and wakes nobody",
                   "waking a different fiber than the one popped releases two waiters for one raise or none")
        bad = None
        isC, isP = shared_load(f, ["counter"]), shared_load(f, ["head"])
        isNext = shared_load(f, ["next"])
        isData = shared_load(f, ["data"])
        isScr = shared_load(f, ["scratch"])
        for ptr in ((RAISED, 0, 0x4000) if name.endswith("raise") else (0x4000,)):
            base = atom_from([(isC, 7), (isP, ptr), (isNext, 0x8880), (isScr, c01.rtw(P)),
                              (lambda n: n.k == "CallExpr" and n.callee == CAS2, 1)])
            m = Machine(f, P, None)

            def ext(n, m=m, base=base):
                v = base(n)
                if v is not None:
                    return v
                if isData(n):
                    # the fiber recorded in a node depends on which node it is read from
                    b = strip_parens(n.kids[0])
                    return m.eval(b.kids[0]) + 0x3770
                return None
            m.ext = ext
            try:
                stop = m.run("entry", lambda n: n.k == "ReturnStmt")
            except Unevaluable as e:
                raise AnalysisBroken("%s: %s" % (name, e))
            woke = [c for c in m.trace if c.callee in c01.SCHED]
            if (ptr == 0x4000) != bool(woke):
                bad = bad or "head %s: wakes=%s" % ("RAISED" if ptr == RAISED else hex(ptr), bool(woke))
            if woke:
                try:
                    v = m.eval(f.args(woke[0])[1])
                except Unevaluable:
                    v = None
                if v != 0x4000 + 0x3770:
                    bad = bad or "the fiber woken is not the one stored in the popped node"
            if name.endswith("raise") and stop is not None:
                try:
                    rv = m.eval(stop.kids[0])
                except Unevaluable:
                    rv = None
                if rv != (1 if ptr == 0x4000 else 0):
                    bad = bad or "head %s: returns %s" % (hex(ptr & 0xffff), rv)
        back = [s for s in f.stores_to("fiber", "mpsc_fifo_node")]
        if not back:
            bad = bad or "the popped node is not handed back to its fiber"
        o.check(bad is None, "head-state rows", bad, site=f.loc, construct="multi-signal raise rows " + name)


def check_writers(ctx, P):
    o = ctx.ob("dw.writers", "", "the (counter, pointer) pair of a double-word structure that is shared is modified only by compare_and_swap2 on the whole "
               "16-byte word; plain or single-word atomic writes to either half occur only in the *_init / *_destroy functions (exclusive access)",
               "a single-word CAS or store on the pointer half bypasses the ABA counter: a recurring head pointer whose successor changed in between is "
               "accepted and the nodes behind it fall off the list (a sleeping waiter is never raised, a free node is lost)")
    bad = None
    n = 0
    for fn in P.unique_functions():
        m = Machine(fn, P)
        for st in fn.stores():
            k = fn.target_key(st.target)
            for u, (inner, cf, pf) in UNIONS.items():
                if key_mentions(k, lambda x: x[0] == "f" and ((x[1] == inner and x[2] in (cf, pf)) or (x[1] == u and x[2] == "blob"))):
                    if m.locate(st.target) is not None:
                        continue          # a private snapshot / desired word
                    n += 1
                    if not fn.name.endswith(("_init", "_destroy")):
                        bad = bad or ("`%s` in %s (%s)" % (st.node.text[:70], fn.name, st.aop or st.kind), st.node)
    ctx.expect_count("shared double-word writers (init/destroy)", n, 4)
    o.check(bad is None, "%d shared writes, all in init/destroy" % n, "partial write to a double-word structure: " + (bad[0] if bad else ""),
            site=bad[1] if bad else None, construct="single-word write to a CAS2-protected pair")


def run(ctx):
    P = ctx.prog()
    check_sentinel(ctx, P)
    check_asm(ctx, P)
    check_writers(ctx, P)
    check_sites(ctx, P)
    check_lifo_dist(ctx, P)
    check_stack(ctx, P)
    check_msignal(ctx, P)
    check_init(ctx, P, "fiber_multi_signal_init", [("fiber_multi_signal::data", "counter", 0), ("fiber_multi_signal::data", "head", 0)], rule="init.msignal")
    check_init(ctx, P, "mpmc_stack_init", [("mpmc_stack", "head", 0)], rule="init.stack")
    check_init(ctx, P, "dist_fifo_init", [("dist_fifo_pointer", "counter", 0)], calls=["calloc"], rule="init.dist")
    check_init(ctx, P, "mpmc_lifo_init", [("mpmc_lifo_t::data", "counter", 0), ("mpmc_lifo_t::data", "head", 0)], rule="init.lifo")
