"""C18 — spinlock: mutual exclusion, FIFO ticket order, trylock never steals (structural part)."""
from core import strip, is_field, order_ge, key_str
from facts import AnalysisBroken
from rules import (writer_kind, field_load, check_init, nodeset, ev, Unevaluable, atom_from, reach, atomic_ops, ret_const)
from symword import Machine
import stale

EXPLANATION = (
    "Decides the ticket-lock structure: lock takes its ticket with one atomic fetch-add(1) on `users` (acquire or stronger) "
    "and leaves its only loop exactly when an atomic (acquire or stronger) load of `ticket` equals that ticket; unlock "
    "publishes ticket+1 with release or stronger; trylock has no loop and cannot reach a context switch, and its single CAS "
    "acts on the whole 64-bit word: interpreted over enumerated snapshots (including wrap-around) the expected word is "
    "(ticket := users, users) — i.e. it can only match an unlocked word with nobody queued — and the desired word is the same "
    "with users+1 (mod 2^32); SUCCESS only on the CAS-success edge.  `ticket` and `users` are the two 32-bit halves of `blob` "
    "(record layout), so both wrap modulo 2^32.  FIFO order and exclusion as runtime facts are not decided.")
NOT_DECIDED = ["mutual exclusion and FIFO hand-over as facts about all interleavings"]
ASSUMPTIONS = ["little-endian x86: `ticket` is the low half of `blob`"]
REC = "fiber_spinlock_internal_t"
CNT = "fiber_spinlock_internal_t::counters"


def check_foreign_thread(ctx, P):
    """the spinlock is also taken by plain threads (the close() shim takes the per-descriptor spinlock on whatever thread calls close()):
    its functions must not dereference the per-thread manager, which such threads do not have, without a NULL test"""
    o = ctx.ob("lock.foreign", "", "fiber_spinlock_lock / trylock / unlock dereference fiber_manager_get() only behind a non-NULL test",
               "a contender that is a thread without a manager (a plain pthread, or any thread before fiber_manager_init) takes its ticket and then "
               "crashes on the first spin: the lock is never released to the tickets behind it")
    bad = None
    n = 0
    for name in ("fiber_spinlock_lock", "fiber_spinlock_trylock", "fiber_spinlock_unlock"):
        fn = P.fn(name)
        for m in fn.nodes:
            if m.k != "MemberExpr" or not m.arrow:
                continue
            b = fn.resolve(m.kids[0])
            if b is None or b.k != "CallExpr" or b.callee != "fiber_manager_get":
                continue
            n += 1
            base = strip(m.kids[0])

            def cp(leaf, pol, base=base, b=b):
                l = fn.resolve(leaf)
                same = (l is b) or (strip(leaf).k == "DeclRefExpr" and base.k == "DeclRefExpr" and strip(leaf).did == base.did)
                return same and pol is True
            if fn.guarded(m, cp) is not None:
                bad = bad or ("`%s` in %s dereferences the manager of the calling thread without testing it" % (m.text[:50], name), m)
    o.check(bad is None, "%d manager dereference(s), all guarded" % n, bad[0] if bad else None, site=bad[1] if bad else None,
            construct="NULL manager dereferenced in the spinlock")


def run(ctx):
    P = ctx.prog()
    check_foreign_thread(ctx, P)
    lay = {f["name"]: f for f in P.record(CNT)["fields"]}
    top = {f["name"]: f for f in P.record(REC)["fields"]}
    o = ctx.ob("layout", "", "`ticket` and `users` are 32-bit atomics at bit offsets 0 and 32 of the 64-bit `blob`",
               "the trylock CAS on `blob` and the half-word operations of lock/unlock must address the same bits")
    ok = (lay.get("ticket", {}).get("off_bits") == 0 and lay.get("users", {}).get("off_bits") == 32 and
          lay["ticket"].get("bits_size") == 32 and lay["users"].get("bits_size") == 32 and
          top["blob"]["off_bits"] == 0 and top["blob"].get("bits_size") == 64 and top["counters"]["off_bits"] == 0 and P.record(REC)["size"] == 8)
    o.check(ok, "layout ok", "unexpected layout of %s" % REC, site=REC, construct="spinlock layout")

    f = P.fn("fiber_spinlock_lock")
    o = ctx.ob("lock", f, "one atomic fetch-add(1) on `users` (>= acquire) takes the ticket; the function returns exactly when an atomic (>= acquire) load "
               "of `ticket` equals it", "a plain or relaxed wait lets the compiler hoist the load out of the loop or the critical section move above the acquisition")
    ops = atomic_ops(f, CNT, "users")
    lds = [l for l in f.loads_of(CNT, "ticket")]
    bad = None
    if len(ops) != 1 or ops[0].aop != "fetch_add" or ops[0].value.cv != 1 or len(lds) != 1:
        bad = "expected one fetch_add(1) on users and one load of ticket"
    else:
        op, ld = ops[0], lds[0]
        if not order_ge(op.order or "relaxed", "acquire"):
            bad = "fetch_add order %s" % op.order
        if not (ld.kind == "atomic" and order_ge(ld.order or "relaxed", "acquire")):
            bad = bad or "ticket load is %s/%s" % (ld.kind, ld.order)
        for M in (0, 5, 4294967295):
            for T in (0, 4, 5, 4294967295):
                atom = atom_from([(lambda n: n is op.node, M), (lambda n: n is ld.node, T)])
                out = reach(f, ["exit"], atom, start=ld.node, barrier=lambda n: n is ld.node)
                if out != (T == M):
                    bad = bad or "my ticket %d, now serving %d: leaves the wait loop = %s" % (M, T, out)
        if atomic_ops(f, CNT, "ticket"):
            bad = bad or "lock writes `ticket`"
    o.check(bad is None, "ticket table", bad, site=f.loc, construct="spinlock lock")

    f = P.fn("fiber_spinlock_unlock")
    o = ctx.ob("unlock", f, "unlock stores (loaded ticket + 1) to `ticket` with release or stronger and touches nothing else",
               "`+2` skips a waiter for ever; a relaxed store lets critical-section writes sink below the release")
    st = [s for s in f.stores_to(CNT, "ticket")]
    lds = [l for l in f.loads_of(CNT, "ticket") if not any(s.node is l.node for s in st)]
    bad = None
    if len(st) != 1 or not lds:
        bad = "expected one store and one load of ticket"
    else:
        s = st[0]
        if not ((s.kind == "atomic" and order_ge(s.order or "relaxed", "release")) or s.order == "seq_cst"):
            bad = "ticket store order %s" % (s.order or "plain")
        for T in (0, 7, 4294967295):
            try:
                v = ev(f, s.value, atom_from([(nodeset([l.node for l in lds]), T)]))
            except Unevaluable:
                v = None
            if v != (T + 1) % (1 << 32):
                bad = bad or "ticket %d -> stores %s" % (T, v)
        if f.stores_to(CNT, "users") or f.stores_to(REC, "blob"):
            bad = bad or "unlock writes users/blob"
    o.check(bad is None, "ticket+1 release", bad, site=f.loc, construct="spinlock unlock")

    f = P.fn("fiber_spinlock_trylock")
    o = ctx.ob("trylock", f, "no loop, no reachable context switch; one CAS on the whole `blob` (success >= acquire) whose expected word is "
               "(ticket := users, users) of one snapshot and whose desired word is that with users+1; SUCCESS only on the CAS-success edge",
               "comparing only `ticket` (or CASing half the word) lets trylock succeed while others are queued — it steals the lock out of FIFO order "
               "or while it is held")
    cas = [s for s in f.stores() if s.kind == "atomic" and s.aop == "cas"]
    bad = None
    if len(cas) != 1:
        bad = "expected exactly one CAS, found %d" % len(cas)
    else:
        c = cas[0]
        tk = f.target_key(c.target)
        if not is_field(tk, REC, "blob"):
            bad = "the CAS acts on `%s`, not on the whole word" % key_str(tk)
        if not order_ge(c.order or "relaxed", "acquire"):
            bad = bad or "CAS success order %s" % c.order
        isblob = lambda n: field_load("blob")(n) and n.k == "ImplicitCastExpr" and Machine(f, P).locate(n.kids[0]) is None
        for t, u in ((0, 0), (3, 3), (3, 5), (7, 9), (4294967295, 4294967295), (4294967294, 4294967295),
                     (4294967295, 0), (4294967294, 1), (5, 3)):
            S = (u << 32) | t
            m = Machine(f, P, atom_from([(isblob, S)]))
            try:
                hit = m.run("entry", lambda n: n is c.node or n.k == "ReturnStmt")
                if hit is not None and hit.k == "ReturnStmt":
                    # an early exit without attempting the CAS: legal exactly for a word that is visibly not free
                    rv = m.eval(hit.kids[0])
                    if t == u:
                        bad = bad or "snapshot (ticket=%d, users=%d) is a free lock but trylock gives up without trying" % (t, u)
                    elif rv != 0:
                        bad = bad or "snapshot (ticket=%d, users=%d): trylock returns %s without a CAS" % (t, u, rv)
                    continue
                if hit is None:
                    raise Unevaluable("CAS not reached")
                e = strip(c.expected)
                if e.k == "UnaryOperator" and e.op == "&":
                    loc = m.locate(e.kids[0])
                    exp = m.read(loc) & ((1 << 64) - 1) if loc else None
                else:
                    exp = None
                des = m.eval(c.value) & ((1 << 64) - 1)
            except Unevaluable as ex:
                raise AnalysisBroken("trylock: cannot interpret the word construction (%s)" % ex)
            want_exp = (u << 32) | u
            want_des = (((u + 1) & 0xFFFFFFFF) << 32) | u
            if exp is not None and (exp & 0xFFFFFFFF) != (exp >> 32):
                bad = bad or ("snapshot (ticket=%d, users=%d): the CAS expects the word %#x in which ticket != users, i.e. it can succeed on a lock that is "
                              "held or has waiters queued (32-bit wrap-around makes `users > ticket` differ from `users != ticket`)" % (t, u, exp))
            elif exp != want_exp:
                bad = bad or "snapshot (ticket=%d, users=%d): CAS expects %#x, should expect %#x (unlocked word only)" % (t, u, exp or -1, want_exp)
            if des != want_des:
                bad = bad or "snapshot (ticket=%d, users=%d): CAS installs %#x, should install %#x" % (t, u, des, want_des)
        isop = lambda n: n is c.node
        for r in f.returns():
            rc = ret_const(f, r)
            if rc == 1 and reach(f, [r], atom_from([(isop, 0)])):
                bad = bad or "SUCCESS although the CAS failed"
            if rc == 0 and reach(f, [r], atom_from([(isop, 1)]), start=c.node):
                bad = bad or "ERROR although the CAS succeeded"
        if f.has_loop():
            bad = bad or "trylock loops"
        if f.name in stale.may_switch(P):
            bad = bad or "trylock can reach a context switch"
    o.check(bad is None, "word table incl. wrap-around", bad, site=f.loc, construct="spinlock trylock")

    o = ctx.ob("writers", "", "ticket/users/blob are written only by init (0), lock (users fetch-add), unlock (ticket store), trylock (blob CAS)",
               "any other writer breaks the ticket sequence")
    allowed = {("fiber_spinlock_init", "blob", "assign"), ("fiber_spinlock_lock", "users", "fetch_add"),
               ("fiber_spinlock_unlock", "ticket", "assign"), ("fiber_spinlock_trylock", "blob", "cas")}
    bad = None
    for fn in P.unique_functions():
        for rec, fld in ((CNT, "ticket"), (CNT, "users"), (REC, "blob")):
            for s in fn.stores_to(rec, fld):
                if fn.key(s.target)[0] == "f" and Machine(fn, P).locate(s.target) is not None:
                    continue  # a private copy on the stack
                kind = writer_kind(s)
                if (fn.name, fld, kind) not in allowed:
                    bad = bad or ("`%s` in %s" % (s.node.text, fn.name), s.node)
    o.check(bad is None, "writers table", "unexpected writer " + (bad[0] if bad else ""), site=bad[1] if bad else None, construct="spinlock writer")
    check_init(ctx, P, "fiber_spinlock_init", [("fiber_spinlock_internal_t", "blob", 0)])
