"""C13 — MPMC FIFO is a linearizable queue (structural part: hazard typestate + publication order)."""
from core import is_atomic_load, strip, is_field, order_ge, key_str, key_mentions
from facts import AnalysisBroken
from rules import (check_init, through_local, nodeset, callpred, atom_from, reach)
import hazard

EXPLANATION = (
    "Decides the safety skeleton of the optimistic FIFO: at each of the three publication sites the pointer taken from "
    "tail/head (and head->prev) is published in a hazard slot and re-validated against a fresh acquire load before its first "
    "dereference, a failed validation restarting the loop (typestate rule); push terminates the new node's prev link before "
    "the release CAS on tail that makes it reachable, and links the old tail to it only on the CAS-success edge while slot 0 "
    "still protects the old tail; pop reads prev->value before the CAS on head, returns it only on the success edge, retires "
    "exactly the old head and only there; empty is reported only for a validated head whose prev is NULL, after slot 0 was "
    "cleared.  Linearizability itself (a history property) is not decided.")
NOT_DECIDED = ["linearizability / exactly-once over all interleavings incl. node reuse (history property)", "real-time precedence against an observer outside the memory model (a push may return while its publishing store is still in the store buffer; under TSO no second thread can learn of the return through memory before it sees that store)"]
ASSUMPTIONS = ["x86-TSO for the plain prev/value accesses ordered by the release CASes"]
Q = "mpmc_fifo"
N = "mpmc_fifo_node"


def run(ctx):
    P = ctx.prog()
    push, pop = P.fn("mpmc_fifo_push"), P.fn("mpmc_fifo_trypop")
    for fn in (push, pop):
        for c in fn.calls(hazard.USING):
            hazard.check_site(ctx, P, fn, c, "hazard")
    ctx.expect_count("hazard sites in the FIFO", len(push.calls(hazard.USING)) + len(pop.calls(hazard.USING)), 3)

    o = ctx.ob("push.order", push, "new_node->prev = NULL before the tail CAS; the CAS is release or stronger; tail->prev = new_node only on the CAS-success "
               "edge and before slot 0 is released", "a node reachable as tail with a stale prev makes poppers walk a foreign list; linking after "
               "done_using lets the old tail be reclaimed under the write")
    newp = push.params[2]
    nul = [s.node for s in push.stores_to(N, "prev") if s.value is not None and strip(s.value).cv == 0
           and push.target_key(s.target)[3] == ("*", ("var", newp["name"], newp["did"]))]
    cas = [s for s in push.stores_to(Q, "tail") if s.aop == "cas"]
    links = [s for s in push.stores_to(N, "prev") if s.node not in nul]
    bad = None
    if len(cas) != 1 or not nul or len(links) != 1:
        bad = "shape not recognised"
    else:
        c = cas[0]
        if push.dominated_by(c.node, nodeset(nul)) is not None:
            bad = "the tail CAS is reachable before new_node->prev was cleared"
        if not order_ge(c.order or "relaxed", "release"):
            bad = bad or "tail CAS order %s" % c.order
        if not (strip(c.value).k == "DeclRefExpr" and strip(c.value).did == newp["did"]):
            bad = bad or "the CAS installs `%s`" % c.value.text
        lk = links[0]
        if push.guarded(lk.node, lambda leaf, pol: through_local(push, leaf) is c.node and pol is True) is not None:
            bad = bad or "tail->prev is written without having won the CAS"
        if not (strip(lk.value).k == "DeclRefExpr" and strip(lk.value).did == newp["did"]):
            bad = bad or "tail->prev is set to `%s`" % lk.value.text
        dn = push.calls("hazard_pointer_done_using")
        for d in dn:
            if push.find_path(d, lambda n: n is lk.node) is not None:
                bad = bad or "tail->prev is written after slot 0 was released"
        if not dn or push.find_path(c.node, "exit", barrier=nodeset(dn), edge_ok=None) is not None and False:
            pass
        # every return has released slot 0
        for r in push.returns():
            if push.dominated_by(r, nodeset(dn)) is not None:
                bad = bad or "push returns with the hazard slot still set"
    o.check(bad is None, "terminate -> CAS(release) -> link -> release slot", bad, site=push.loc, construct="mpmc push order")

    o = ctx.ob("pop.order", pop, "prev->value is read before the CAS on head, or after it while prev is still published in its hazard slot; the value is returned only on the CAS-success edge; exactly the "
               "old head is retired (hazard_pointer_free(&head->hazard)), only on that edge", "after the CAS another popper may already have "
               "retired prev (it is the new dummy head): reading it then is a use-after-free; retiring prev frees the live dummy")
    cas = [s for s in pop.stores_to(Q, "head") if s.aop == "cas"]
    vals = [l.node for l in pop.loads_of(N, "value")]
    frees = pop.calls("hazard_pointer_free")
    bad = None
    if len(cas) != 1 or not vals or len(frees) != 1:
        bad = "shape not recognised"
    else:
        c = cas[0]
        succ = lambda leaf, pol: through_local(pop, leaf) is c.node and pol is True
        # the hazard slot that protects prev: hazard_pointer_using(hptr, &prev->hazard, K) ... hazard_pointer_done_using(hptr, K)
        pv = [strip(l.target.kids[0]) for l in pop.loads_of(N, "value") if strip(l.target.kids[0]) is not None and strip(l.target.kids[0]).k == "DeclRefExpr"]
        slotk = None
        for u in pop.calls("hazard_pointer_using"):
            ua = pop.args(u)
            if pv and key_mentions(pop.key(ua[1], False), lambda x, d=pv[0].did: x[0] == "var" and x[2] == d):
                slotk = ua[2].cv
        released = [d for d in pop.calls("hazard_pointer_done_using") if slotk is not None and pop.args(d)[1].cv == slotk]
        for v in vals:
            if pop.find_path(c.node, lambda n: n is v, barrier=lambda n: n is not c.node and is_atomic_load(n)) is not None:
                # after the CAS the read is still safe while the slot that protects prev is published (C14: a scan sees every slot)
                if slotk is None or not released or any(pop.find_path(d, lambda n: n is v) is not None for d in released):
                    bad = bad or "prev->value is read after the CAS on head, when prev is no longer protected by its hazard slot"
        if pop.dominated_by(c.node, nodeset(vals)) is not None and bad is None and not all(
                pop.find_path(c.node, lambda n, v=v: n is v) is not None for v in vals):
            bad = bad or "the CAS on head is reachable before the value was read"
        if not order_ge(c.order or "relaxed", "release"):
            bad = bad or "head CAS order %s" % c.order
        hv = strip(c.expected)
        hvar = strip(hv.kids[0]) if hv.k == "UnaryOperator" and hv.op == "&" else None
        fa = strip(pop.args(frees[0])[1])
        fm = strip(fa.kids[0]) if fa.k == "UnaryOperator" and fa.op == "&" else None
        if not (hvar is not None and fm is not None and fm.k == "MemberExpr" and strip(fm.kids[0]).k == "DeclRefExpr" and strip(fm.kids[0]).did == hvar.did):
            bad = bad or "`%s` does not retire the old head" % frees[0].text
        if pop.guarded(frees[0], succ) is not None:
            bad = bad or "a node is retired without having won the CAS"
        # desired = prev (the node whose value was read)
        pk = pop.key(c.value, resolve=True)
        if not key_mentions(pk, lambda x: x[0] == "f" and x[1] == N and x[2] == "prev"):
            bad = bad or "head is advanced to `%s`, not to head->prev" % c.value.text
        for r in pop.returns():
            if r.kids and strip(r.kids[0]).cv == 0:
                continue
            # value return: only via the success edge (ret may be assigned in an iteration that lost the CAS)
            if pop.guarded(r, succ) is not None:
                bad = bad or "a value is returned without having won the CAS on head"
    o.check(bad is None, "read -> CAS -> retire old head", bad, site=pop.loc, construct="mpmc pop order")

    o = ctx.ob("empty", pop, "NULL (empty) is returned only when the validated head's prev is NULL, and slot 0 is cleared first",
               "reporting empty for a head that is no longer the head misses items; leaving the slot set pins a node for ever")
    bad = None
    nullrets = [r for r in pop.returns() if r.kids and strip(r.kids[0]).cv == 0]
    prevl = [l.node for l in pop.loads_of(N, "prev")]
    dn = pop.calls("hazard_pointer_done_using")
    if not nullrets:
        bad = "no empty return"
    for r in nullrets:
        def cp(leaf, pol):
            l = strip(leaf)
            if l.k == "DeclRefExpr" and l.did:
                v = pop.reaching_def(l)
                return v is not None and any(m in prevl for m in v.walk()) and pol is False
            return False
        if pop.guarded(r, cp) is not None:
            bad = bad or "empty is reported without having seen head->prev == NULL"
        if pop.dominated_by(r, nodeset(dn)) is not None:
            bad = bad or "empty is reported with hazard slot 0 still set"
    o.check(bad is None, "guarded empty", bad, site=pop.loc, construct="mpmc empty")

    # the FIFO's safety under node reuse rests on the reclamation scan: its rules (C14) are obligations of C13 too
    from props import c14
    import check as _chk
    sub = _chk.Ctx("C14", ctx.tier, ctx.seed)
    sub._progs = ctx._progs
    sub.config = ctx.config
    c14.run(sub)
    o = ctx.ob("reclaim.dep", "", "the hazard-pointer machinery the FIFO retires its nodes through satisfies every structural rule of C14 (publication fence, "
               "scan coverage, sort/search agreement, reclaim decision, thresholds, recycling only through the gc callback)",
               "a scan that misses a published hazard frees a node another popper still holds; the node is reused and the popper's CAS succeeds on the "
               "reused head (ABA): one value is popped twice and the list is cut")
    fails = [x for x in sub.obs if x.status == "fail"]
    if fails:
        x = fails[0]
        o.fail("C14.%s in %s: %s" % (x.rule, x.fn, x.found), site=x.sites[0] if x.sites else None, witness=x.witness, construct="C14 dependency: " + (x.construct or x.rule))
    else:
        o.ok("%d C14 obligations discharged" % len(sub.obs))

    o = ctx.ob("fields", "", "head is modified only by the pop CAS (and init/destroy), tail only by the push CAS (and init)", "")
    bad = None
    for fn in P.unique_functions():
        for fld, owner in (("head", "mpmc_fifo_trypop"), ("tail", "mpmc_fifo_push")):
            for s in fn.stores_to(Q, fld):
                ok = (fn.name == owner and s.aop == "cas") or fn.name in ("mpmc_fifo_init", "mpmc_fifo_destroy")
                if not ok:
                    bad = bad or ("`%s` in %s" % (s.node.text, fn.name), s.node)
    o.check(bad is None, "writers table", "unexpected writer " + (bad[0] if bad else ""), site=bad[1] if bad else None, construct="mpmc head/tail writer")
    f = P.fn("mpmc_fifo_init")
    o = ctx.ob("init", f, "init makes the given node the dummy: head == tail == initial_node with prev (and value) cleared", "a dummy with a stale prev makes the first pop return garbage")
    bad = None
    ts = f.stores_to(Q, "tail")
    hs = f.stores_to(Q, "head")
    pn = [s for s in f.stores_to(N, "prev") if strip(s.value).cv == 0]
    if len(ts) != 1 or len(hs) != 1 or not pn:
        bad = "head / tail / prev not initialised"
    else:
        tv = f.resolve(ts[0].value)
        if not (tv.k == "DeclRefExpr" and tv.name == "initial_node"):
            bad = "tail is not the initial node"
        hk = f.key(hs[0].value, True)
        if not (hk == f.key(ts[0].value, True) or (hk[0] == "f" and hk[2] == "tail")):
            bad = bad or "head is not the same node as tail"
    o.check(bad is None, "head == tail == dummy", bad, site=f.loc, construct="mpmc init")
