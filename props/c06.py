"""C06 — semaphore: never over-admits, never loses a post (structural part)."""
from core import strip, is_field, key_mentions, order_ge
from facts import AnalysisBroken
from rules import (writer_kind, check_init, nodeset, ev, Unevaluable, forced_edges, atom_from, reach, atomic_ops, ret_const, is_var_load)
from props import c01
from props import deps
import stale

EXPLANATION = (
    "Decides the shape of the counter protocol: wait is one atomic fetch-sub that succeeds exactly when the old value was "
    "positive and otherwise parks the caller on the semaphore's own waiter queue through the deferred-publish wait; "
    "trywait only ever CASes a value it has just seen positive down by one, reports success only on the CAS-success edge, "
    "reports failure for values <= 0, has no exit that is neither, and cannot reach a context switch; post wakes an "
    "announced waiter (counter < 0) and bumps the counter only after a successful wake, or CASes a non-negative value up "
    "by one — with no exit that neither woke nor incremented; with the counter at INT_MAX no increment is reachable (also not on the retry after "
    "a failed compare-exchange, which refreshes the expected value): the post fails with EOVERFLOW instead of wrapping.  The inequalities of the property as runtime invariants are not decided.")
NOT_DECIDED = ["the admission inequalities as runtime invariants over all interleavings"]
ASSUMPTIONS = ["FIBER_SUCCESS = 1, FIBER_ERROR = 0", "wait side: fewer than 2^31 fibers wait on one semaphore (the counter goes negative by one per waiter)"]
S = "fiber_semaphore"


def waiters_of(fn, arg, param="semaphore"):
    k = fn.key(arg, resolve=True)
    if k[0] == "&":
        k = k[1]
    pd = [p["did"] for p in fn.params if p["name"] == param]
    return bool(pd) and is_field(k, S, "waiters") and k[3] == ("*", ("var", param, pd[0]))


def run(ctx):
    P = ctx.prog()
    c01.core_dependency(ctx, P, "core.dep", ('fiber_manager_wait_in_mpmc_queue', 'fiber_manager_wake_from_mpmc_queue', 'fiber_semaphore_wait', 'fiber_semaphore_post', 'fiber_semaphore_post_internal'),
                        "the semaphore's sleep/wake path (wait_in_mpmc_queue / wake_from_mpmc_queue)",
                        'a unit handed to a waiter that never runs is lost')
    deps.depend(ctx, P, 'C13', 'queue.dep', "the semaphore's waiter queue (mpmc_fifo with hazard pointers)",
                'a queue that starts from a dirty dummy node, or hands one waiter to two posts, loses a post or admits a fiber that holds no unit', None)
    f = P.fn("fiber_semaphore_wait")
    o = ctx.ob("wait", f, "one atomic fetch-sub of 1 (acq_rel or stronger); returns at once exactly when the old value was >= 1, otherwise parks "
               "on this semaphore's waiters through fiber_manager_wait_in_mpmc_queue",
               "succeeding on old value 0 over-admits; parking although a unit was taken loses it")
    ops = atomic_ops(f, S, "counter")
    if len(ops) != 1 or ops[0].aop != "fetch_sub":
        o.fail("expected one fetch_sub, found %s" % [s.aop for s in ops], site=f.loc, construct="wait atomic op")
    else:
        op = ops[0]
        bad = None
        if not order_ge(op.order or "relaxed", "acq_rel") or op.value.cv != 1:
            bad = "fetch_sub order %s amount %s" % (op.order, op.value.text)
        waits = f.calls("fiber_manager_wait_in_mpmc_queue")
        for old in range(-2, 4):
            atom = atom_from([(lambda n: n is op.node, old)])
            nowait = reach(f, ["exit"], atom, barrier=nodeset(waits))
            w = reach(f, waits, atom)
            if old >= 1 and (not nowait or w):
                bad = bad or "old value %d (units available): immediate return=%s, parks=%s" % (old, nowait, w)
            if old < 1 and nowait:
                bad = bad or "old value %d (no unit): wait returns without parking" % old
        for w in waits:
            if not waiters_of(f, f.args(w)[1]):
                bad = bad or "parks on `%s`" % f.args(w)[1].text
        o.check(bad is None, "table old -2..3", bad, site=op.node, construct="wait decision")

    f = P.fn("fiber_semaphore_trywait")
    o = ctx.ob("trywait", f, "the CAS is reachable only for a counter value just seen > 0, moves it down by exactly one, SUCCESS only on the "
               "CAS-success edge, ERROR exactly for values <= 0, a failed CAS re-reads the counter, no context switch reachable",
               "CASing from 0 admits without a unit; returning ERROR after a lost CAS although units remain is allowed by the property only "
               "when ... it is not: trywait 'never succeeds without a unit' but may fail spuriously — the rule therefore accepts a spurious ERROR")
    ops = atomic_ops(f, S, "counter")
    lds = [l for l in f.loads_of(S, "counter") if not any(s.node is l.node for s in ops)]
    bad = None
    cas = [s for s in ops if s.aop == "cas"]
    if len(cas) != 1 or not lds:
        o.fail("expected one CAS and a load of counter", site=f.loc, construct="trywait shape")
    else:
        c = cas[0]
        # the local that holds the value read
        cv = strip(c.expected)
        var = strip(cv.kids[0]) if cv.k == "UnaryOperator" and cv.op == "&" else None
        if var is None or not var.did:
            raise AnalysisBroken("trywait: CAS expected operand is not &local")
        isld = lambda n: any(n is l.node for l in lds) or is_var_load(var.did)(n)
        for v in range(-2, 4):
            a_fail = atom_from([(isld, v), (lambda n: n is c.node, 0)])
            a_ok = atom_from([(isld, v), (lambda n: n is c.node, 1)])
            if v <= 0 and reach(f, [c.node], a_ok):
                bad = bad or "the CAS is reachable for counter value %d" % v
            if v > 0 and not reach(f, [c.node], a_ok):
                bad = bad or "counter value %d never reaches the CAS" % v
            try:
                if ev(f, c.value, atom_from([(isld, v)])) != v - 1:
                    bad = bad or "CAS desired value is `%s`" % c.value.text
            except Unevaluable:
                bad = bad or "CAS desired value not evaluable"
            for r in f.returns():
                rc = ret_const(f, r)
                if rc == 1 and (reach(f, [r], a_fail) and not reach(f, [r], a_ok)):
                    bad = bad or "SUCCESS after a failed CAS"
                if rc == 1 and v <= 0 and reach(f, [r], a_ok):
                    bad = bad or "SUCCESS with counter value %d" % v
                if rc == 0 and v > 0 and reach(f, [r], a_ok, start=c.node):
                    bad = bad or "ERROR after a successful CAS"
        # a failed CAS refreshes its `expected` operand: the next attempt must be preceded by a fresh `> 0` test of it
        def positive_test(b, i):
            ec = f.edge_cond(b, i)
            if ec is None:
                return False
            leaf, pol = ec
            if not any(isld(m) for m in leaf.walk()):
                return False
            try:
                from rules import truth_table
                tt = truth_table(f, leaf, pol, [isld], [range(-2, 4)])
            except Unevaluable:
                return False
            return bool(tt) and all(v[0] > 0 for v in tt)
        w = f.find_path(c.node, lambda n: n is c.node, edge_ok=lambda b, i: not positive_test(b, i))
        if w is not None:
            bad = bad or ("after a failed CAS (which refreshes the expected value) the CAS is retried without re-testing that the value is still > 0: "
                          "it can move the counter from 0 to -1 and report success")
        if f.name in stale.may_switch(P):
            bad = bad or "trywait can reach a context switch"
        if not order_ge(c.order or "relaxed", "acquire") and not order_ge(c.order or "relaxed", "release"):
            bad = bad or "CAS order %s" % c.order
        o.check(bad is None, "table -2..3", bad, site=c.node, construct="trywait")

    f = P.fn("fiber_semaphore_post_internal")
    o = ctx.ob("post", f, "for a negative counter (announced waiters) post wakes one waiter of this semaphore and increments the counter only after "
               "the wake succeeded; for a non-negative counter it CASes the value up by one; every return follows one of the two",
               "incrementing before the wake lets a trywait take the unit the woken waiter was promised (over-admission); returning "
               "without either loses the post")
    ops = atomic_ops(f, S, "counter")
    cas = [s for s in ops if s.aop == "cas"]
    adds = [s for s in ops if s.aop == "fetch_add"]
    wakes = f.calls("fiber_manager_wake_from_mpmc_queue")
    lds = [l for l in f.loads_of(S, "counter") if not any(s.node is l.node for s in ops)]
    bad = None
    if not cas and len(adds) == 1 and wakes:
        # the other sound protocol ("textbook"): one unconditional fetch-add; when the old value was negative a waiter has announced itself and
        # the unit is its: the post then asks the waker for (at least) one fiber and the waker does not come back before it woke one
        a = adds[0]
        for v in range(-2, 3):
            atom = atom_from([(lambda n: n is a.node, v)])
            rw = reach(f, wakes, atom)
            if (v < 0) != rw:
                bad = bad or "old counter %d: wake reachable = %s" % (v, rw)
            if v < 0 and reach(f, ["exit"], atom, start=a.node, barrier=nodeset(wakes)):
                bad = bad or "old counter %d: post returns without handing the unit to the announced waiter" % v
        if f.find_path("entry", "exit", barrier=nodeset([a.node])) is not None:
            bad = bad or "a path returns without incrementing the counter"
        if f.find_path(a.node, nodeset([a.node])) is not None:
            bad = bad or "the counter can be incremented twice by one post"
        if a.value.cv != 1 or not order_ge(a.order or "relaxed", "release"):
            bad = bad or "fetch_add amount `%s`, order %s (needs 1, release or stronger)" % (a.value.text, a.order)
        for wk in wakes:
            ar = f.args(wk)
            if not waiters_of(f, ar[1]) or ar[2].cv is None or ar[2].cv < 1:
                bad = bad or "wake arguments `%s` (the hand-over needs a blocking wake: count >= 1 on this semaphore's waiters)" % wk.text
        o.check(bad is None, "fetch-add then blocking hand-over; table -2..2", bad, site=a.node, construct="post")
    elif len(cas) != 1 or len(adds) != 1 or not wakes or not lds:
        o.fail("expected one CAS, one fetch_add, a wake call and a counter load", site=f.loc, construct="post shape")
    else:
        c, a = cas[0], adds[0]
        cv = strip(c.expected)
        var = strip(cv.kids[0]) if cv.k == "UnaryOperator" and cv.op == "&" else None
        isld = lambda n: any(n is l.node for l in lds) or (var is not None and is_var_load(var.did)(n))
        iswk = lambda n: any(n is w for w in wakes)
        for v in range(-2, 3):
            for wok in (0, 1):
                atom = atom_from([(isld, v), (iswk, wok), (lambda n: n is c.node, 1)])
                rw = reach(f, wakes, atom)
                rc = reach(f, [c.node], atom)
                if v < 0 and (not rw or rc):
                    bad = bad or "counter %d: wake reachable=%s, CAS reachable=%s" % (v, rw, rc)
                if v >= 0 and (rw or not rc):
                    bad = bad or "counter %d: wake reachable=%s, CAS reachable=%s" % (v, rw, rc)
                if v < 0:
                    inc = reach(f, [a.node], atom, start=wakes[0])
                    if wok and not inc:
                        bad = bad or "a successful wake is not followed by the increment"
                    if not wok and inc:
                        bad = bad or "the counter is incremented although no waiter was woken"
        w = f.dominated_by(a.node, nodeset(wakes))
        if w is not None:
            bad = bad or "the increment is reachable before any wake attempt"
        try:
            if ev(f, c.value, atom_from([(isld, 5)])) != 6:
                bad = bad or "CAS desired value `%s`" % c.value.text
        except Unevaluable:
            bad = bad or "CAS desired value not evaluable"
        if a.value.cv != 1:
            bad = bad or "fetch_add amount `%s`" % a.value.text
        for wk in wakes:
            ar = f.args(wk)
            if not waiters_of(f, ar[1]) or ar[2].cv != 0:
                bad = bad or "wake arguments `%s`" % wk.text
        def nonneg_test(b, i):
            ec = f.edge_cond(b, i)
            if ec is None:
                return False
            leaf, pol = ec
            if not any(isld(m) for m in leaf.walk()):
                return False
            try:
                from rules import truth_table
                tt = truth_table(f, leaf, pol, [isld], [range(-3, 3)])
            except Unevaluable:
                return False
            return bool(tt) and all(v[0] >= 0 for v in tt)
        if f.find_path(c.node, lambda n: n is c.node, edge_ok=lambda b, i: not nonneg_test(b, i)) is not None:
            bad = bad or "after a failed CAS post retries without re-testing that the refreshed value is still >= 0 (it would bump a negative counter past an announced waiter)"
        # no exit that neither woke+incremented nor won the CAS
        for v in (-1, 0, 1):
            atom = atom_from([(lambda n: n is c.node, 0), (iswk, 0), (isld, v)])
            if reach(f, ["exit"], atom):
                bad = bad or "post can return although the CAS failed and nobody was woken (counter %d)" % v
        if not order_ge(c.order or "relaxed", "release"):
            bad = bad or "CAS order %s (needs release)" % c.order
        o.check(bad is None, "table -2..2 x wake result", bad, site=c.node, construct="post")

    o = ctx.ob("post.overflow", f, "with the counter at INT_MAX post does not reach its increment (it reports the overflow instead): no compare-exchange to "
               "counter + 1 and no fetch-add is reachable for that value",
               "INT_MAX + 1 wraps to INT_MIN: 2^32 units vanish, trywait refuses although units are available, and every later post takes the negative value "
               "for an announced waiter and spins for ever trying to wake a fiber that does not exist")
    IMAX = 2 ** 31 - 1
    incs = [s for s in ops if s.aop in ("cas", "fetch_add")]
    if not incs:
        raise AnalysisBroken("C06 post.overflow: no increment found in post")
    cvs = [strip(s.expected) for s in incs if s.aop == "cas" and s.expected is not None]
    vdid = {strip(e.kids[0]).did for e in cvs if e is not None and e.k == "UnaryOperator" and e.op == "&" and e.kids}
    isld0 = lambda n: any(n is l.node for l in lds) or any(is_var_load(d)(n) for d in vdid)
    # locals that only ever hold a copy of the counter value just read (the parameter of an extracted predicate, a renamed temporary)
    copies = set()
    for did_, evs_ in f.defs().items():
        if did_ not in vdid and evs_ and all(k_ in ("init", "assign") and v_ is not None and isld0(v_) for k_, n_, v_ in evs_):
            copies.add(did_)
    isld2 = lambda n: isld0(n) or any(is_var_load(d)(n) for d in copies)
    atom = atom_from([(isld2, IMAX)] + [(lambda n, w=w: n is w, 0) for w in wakes])
    hit = [s for s in incs if reach(f, [s.node], atom)]
    # a failed compare-exchange refreshes the expected value: the retry must pass the overflow test again before the next attempt
    retry = None

    def ovf_test(b, i):
        for ec in (f.edge_cond(b, i), f.edge_cond_resolved(b, i)):
            if ec is None:
                continue
            leaf, pol = ec
            if leaf is None or not any(isld2(m) for m in leaf.walk()):
                continue
            try:
                from rules import truth_table
                tt = truth_table(f, leaf, pol, [isld2], [[-1, 0, 1, IMAX - 1, IMAX]])
            except Unevaluable:
                continue
            if bool(tt) and all(v[0] != IMAX for v in tt):
                return True
        return False
    for s_ in incs:
        if s_.aop == "cas" and not hit:
            w = f.find_path(s_.node, lambda n, s_=s_: n is s_.node, edge_ok=lambda b, i: not ovf_test(b, i))
            if w is not None:
                retry = (s_, w)
    if retry and not hit:
        o.fail("after a failed compare-exchange (which refreshes the expected value) the retry reaches `%s` again without re-testing for INT_MAX: a poster that "
               "saw INT_MAX-1, lost the race to another post and retries stores INT_MAX + 1" % retry[0].node.text[:60], site=retry[0].node, witness=retry[1],
               construct="post retry at INT_MAX")
        hit = None
    if hit is not None:
      o.check(not hit, "counter = INT_MAX: %d increment site(s) unreachable" % len(incs),
              "`%s` is reachable with the counter at INT_MAX: the post wraps the value to INT_MIN and still reports success" % (hit[0].node.text[:80] if hit else ""),
              site=hit[0].node if hit else None, construct="post at INT_MAX")

    o = ctx.ob("counter.writers", "", "`counter` is modified after init only by the atomic operations of wait / trywait / post",
               "a plain store forgets announced waiters or units")
    allowed = {"fiber_semaphore_init": {"assign"}, "fiber_semaphore_destroy": {"assign"}, "fiber_semaphore_wait": {"fetch_sub"},
               "fiber_semaphore_trywait": {"cas"}, "fiber_semaphore_post_internal": {"cas", "fetch_add"}}
    bad = None
    for fn in P.unique_functions():
        for s in fn.stores_to(S, "counter"):
            kind = writer_kind(s)
            if kind not in allowed.get(fn.name, ()):
                bad = bad or ("`%s` in %s" % (s.node.text, fn.name), s.node)
    o.check(bad is None, "writers table", "unexpected writer " + (bad[0] if bad else ""), site=bad[1] if bad else None, construct="semaphore counter writer")
    g = P.fn("fiber_semaphore_getvalue")
    o = ctx.ob("getvalue", g, "getvalue only reads the counter", "")
    o.check(not g.stores() and not [c for c in g.calls() if c.callee != "__assert_fail"], "pure read", "getvalue has side effects", site=g.loc, construct="getvalue side effect")
    wq = P.fn("fiber_manager_wake_from_mpmc_queue")
    o = ctx.ob("post.waker", wq, "the mpmc waker with count 0 makes one attempt and reports how many it woke; with count > 0 it retries until done; "
               "it marks the fiber READY before scheduling it", "post relies on the return value to decide whether to retry")
    pops = wq.calls("mpmc_fifo_trypop")
    bad = None
    if len(pops) != 1:
        bad = "shape"
    else:
        from rules import is_param_load, returned_local, locals_defined_by, locals_addressed_in
        wc = [returned_local(wq)] if returned_local(wq) is not None else []
        ov = locals_defined_by(wq, lambda m: m is pops[0]) or locals_addressed_in(wq, pops[0])
        if not wc or not ov:
            raise AnalysisBroken("wake_from_mpmc_queue: result / wake count locals not found")
        ispop = lambda n: n is pops[0] or (n.k == "BinaryOperator" and n.op == "=" and n.contains(pops[0]))
        at = atom_from([(ispop, 0), (is_var_load(ov[0]), 0), (is_var_load(wc[0]), 0), (is_param_load(wq, "count"), 0)])
        if reach(wq, pops, at, start=pops[0]):
            bad = "count=0: a failed pop is retried (post would spin inside the waker)"
        # the count > 0 contract ("retry until done") matters only if some caller asks for it
        passed = [wq_c.args(cc)[2].cv for wq_c, cc in P.callers_of("fiber_manager_wake_from_mpmc_queue")] if False else \
                 [g_.args(cc)[2].cv for g_, cc in P.callers_of("fiber_manager_wake_from_mpmc_queue")]
        ctx.derived["mpmc_wake_counts_passed"] = sorted({("?" if v is None else v) for v in passed}, key=str)
        if any(v is None or v > 0 for v in passed):
            at = atom_from([(ispop, 0), (is_var_load(ov[0]), 0), (is_var_load(wc[0]), 0), (is_param_load(wq, "count"), 1)])
            if reach(wq, ["exit"], at, start=pops[0], barrier=nodeset(pops)):
                bad = bad or "count=1 (requested by a caller): returns without having woken anybody"
        for r in wq.returns():
            v = strip(r.kids[0])
            if not (v.k == "DeclRefExpr" and v.did == wc[0]):
                bad = bad or "returns `%s`, not the number of fibers woken" % r.text
    o.check(bad is None, "count semantics", bad, site=wq.loc, construct="mpmc waker")
    check_init(ctx, P, "fiber_semaphore_init", [("fiber_semaphore", "counter", "param:value")], calls=["mpmc_fifo_init"])
