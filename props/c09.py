"""C09 — sleeping fibers wake exactly once and never early (structural part)."""
from core import strip, is_field, key_str, key_mentions
from facts import AnalysisBroken
from rules import (reach, field_load, nodeset, callpred, ev, Unevaluable, forced_edges, atom_from, one, some,
                   is_param_load, is_var_load, is_global_load)
import stale
from props import c01

EXPLANATION = (
    "Decides the structure the sleep guarantee rests on: the sleeper inserts its stack-resident node and marks itself "
    "WAITING under sleep_spinlock and hands that lock to its successor (never unlocks itself); the poller removes nodes "
    "and schedules their fibers under the same lock, unlinks a node before scheduling its fiber and never touches a "
    "node after its fiber was scheduled; a node is removed only when its wake tick is strictly below the tick counter "
    "(enumerated comparison table); the deadline arithmetic of fiber_sleep is evaluated over boundary durations with C "
    "integer widths and must not wrap and must add at least one tick; sleep/usleep/nanosleep convert units without "
    "losing time and are routed to fiber_sleep exactly when a manager exists and the thread is not I/O-locked.  "
    "Elapsed wall-clock time is not decided: the deadline is based on a tick counter that only idle pollers advance.")
NOT_DECIDED = ["actual elapsed time (depends on timerfd and on when a poller last folded expirations into timer_trigger_count)",
               "exactly-once wake-up as a runtime count under all interleavings"]
ASSUMPTIONS = ["one tick (FIBER_TIME_RESOLUTION_MS) is at least one millisecond", "timer_trigger_count is monotonic"]

LOCK, UNLOCK = "fiber_spinlock_lock", "fiber_spinlock_unlock"


def sleep_lock(fn, c):
    return key_mentions(fn.key(fn.args(c)[0], True), lambda x: x[0] == "glob" and x[1] == "sleep_spinlock")


def check_register(ctx, P):
    fs = P.fn("fiber_sleep")
    o = ctx.ob("register", fs, "fiber_sleep inserts its node, records itself in it and stores WAITING with sleep_spinlock held, hands that lock "
               "to the successor through spinlock_to_unlock before yielding, and never unlocks it itself",
               "released before the switch, a poller on another thread can expire the node and resume the fiber while it still runs")
    locks = [c for c in fs.calls(LOCK) if sleep_lock(fs, c)]
    ins = fs.calls("waiter_insert")
    ys = fs.calls("fiber_manager_yield")
    bad = None
    if not locks or not ins or not ys:
        raise AnalysisBroken("fiber_sleep: lock / insert / yield not found")
    if fs.calls(UNLOCK):
        bad = ("fiber_sleep unlocks a spinlock itself: `%s`" % fs.calls(UNLOCK)[0].text, fs.calls(UNLOCK)[0], None, "direct unlock in fiber_sleep")
    slot = [s for s in fs.stores_to("fiber_manager", "spinlock_to_unlock")]
    okslot = [s.node for s in slot if s.value is not None and key_mentions(fs.key(s.value, True), lambda x: x[0] == "glob" and x[1] == "sleep_spinlock")]
    wst = [s.node for s, v in c01.state_stores(fs) if v == c01.WAITING]
    wtr = [s.node for s in fs.stores_to("waiter_el", "waiter")]
    # a plain yield on a path that takes no lock and registers nothing (a zero-length sleep) is not part of the sleep protocol
    proto = locks + ins + wst + wtr + okslot
    ys = [y for y in ys if any(fs.find_path(a_, lambda n, y=y: n is y) is not None for a_ in proto)] or ys
    for what, nodes in (("the node insertion", ins), ("the WAITING store", wst), ("the waiter back-pointer store", wtr)):
        if not nodes:
            bad = bad or ("%s is missing" % what, fs.loc, None, "missing " + what)
            continue
        for n in nodes:
            w = fs.dominated_by(n, nodeset(locks))
            if w is not None:
                bad = bad or ("%s happens without sleep_spinlock held" % what, n, w, what + " outside lock")
            for y in ys:
                w = fs.dominated_by(y, nodeset([n]))
                if w is not None:
                    bad = bad or ("the yield is reachable without %s" % what, y, w, "yield without " + what)
    for y in ys:
        w = fs.dominated_by(y, nodeset(okslot))
        if w is not None:
            bad = bad or ("the yield is reachable without sleep_spinlock having been handed to the successor", y, w, "no deferred unlock")
    if bad:
        o.fail(bad[0], site=bad[1], witness=bad[2], construct=bad[3])
    else:
        o.ok("lock -> insert/waiter/WAITING -> spinlock_to_unlock -> yield", ins)
    # once
    o = ctx.ob("once", fs, "the node is inserted exactly once per call (one insertion, outside any loop), it is zero-initialised, "
               "and it is the node whose address is a local of this call",
               "a node inserted twice is woken twice; garbage child/next links corrupt the tree of every other sleeper")
    bad = None
    if len(ins) != 1:
        bad = ("%d insertions" % len(ins), ins[0])
    elif fs.find_path(ins[0], lambda n: n is ins[0]) is not None:
        bad = ("the insertion is inside a loop", ins[0])
    else:
        a = strip(fs.args(ins[0])[1])
        loc = None
        if a.k == "UnaryOperator" and a.op == "&":
            v = strip(a.kids[0])
            if v.k == "DeclRefExpr" and v.dk == "local":
                loc = v
        if loc is None:
            bad = ("the inserted node `%s` is not a local of the call" % a.text, ins[0])
        else:
            ds = [e for e in fs.defs().get(loc.did, []) if e[0] == "init"]
            if not ds:
                bad = ("the node `%s` is not initialised at its declaration" % loc.name, ins[0])
    if bad:
        o.fail(bad[0], site=bad[1], construct="sleep node insertion")
    else:
        o.ok("one zero-initialised stack node")


def check_wake(ctx, P):
    ws = P.fn("fiber_event_wake_sleepers")
    o = ctx.ob("wake.lock", ws, "expired nodes are removed and their fibers scheduled with sleep_spinlock held; the tick counter is advanced "
               "under the same lock; the lock is released on every path",
               "the tree is shared by all kernel threads' pollers and all sleepers")
    locks = [c for c in ws.calls(LOCK) if sleep_lock(ws, c)]
    unl = [c for c in ws.calls(UNLOCK) if sleep_lock(ws, c)]
    rm = ws.calls("waiter_remove_less_than")
    sc = ws.calls(c01.SCHED)
    tc = [s.node for s in ws.stores() if ws.target_key(s.target) == ("glob", "timer_trigger_count")]
    bad = None
    if not locks or not unl or not rm or not sc:
        raise AnalysisBroken("wake_sleepers: shape not recognised")
    for n in rm + sc + tc:
        w = c01.held_lock_ok(ws, n, locks, unl)
        if w is not None:
            bad = bad or ("`%s` without sleep_spinlock" % n.text[:50], n, w)
    for l in locks:
        w = ws.always_followed_by(l, nodeset(unl))
        if w is not None:
            bad = bad or ("sleep_spinlock is not released on a path", l, w)
    if not tc:
        bad = bad or ("the tick counter is never advanced", ws.loc, None)
    if bad:
        o.fail(bad[0], site=bad[1], witness=bad[2], construct="wake_sleepers lock discipline")
    else:
        o.ok("remove/schedule/count under the lock")
    # writers of the tick counter
    o = ctx.ob("wake.counter", "", "timer_trigger_count is written only in fiber_event_wake_sleepers (and only increased by the expirations read)",
               "a second writer, or a decrease, moves deadlines of sleeping fibers")
    bad = None
    for fn in P.unique_functions():
        for s in fn.stores():
            if fn.target_key(s.target) == ("glob", "timer_trigger_count"):
                if fn.name != "fiber_event_wake_sleepers" or not (s.kind == "compound" and s.aop == "+="):
                    bad = bad or ("`%s` in %s" % (s.node.text, fn.name), s.node)
    o.check(bad is None, "single += writer", "unexpected write " + (bad[0] if bad else ""), site=bad[1] if bad else None,
            construct="timer_trigger_count writer")
    o = ctx.ob("wake.unlink", ws, "a fiber is scheduled only from a node that waiter_remove_less_than has unlinked from the tree",
               "scheduling a fiber whose node is still linked lets the next poll wake it a second time (and follow a dangling node)")
    for s in sc:
        w = ws.dominated_by(s, nodeset(rm))
        if w is not None:
            o.fail("schedule reachable without a preceding removal", site=s, witness=w, construct="schedule before unlink")
            break
    else:
        # the scheduled fiber comes from the removed node chain
        a = ws.args(sc[0])[1]
        k = ws.key(a, resolve=True)
        if not key_mentions(k, lambda x: x[0] == "f" and x[1] == "waiter_el" and x[2] == "waiter"):
            o.fail("the scheduled fiber `%s` does not come from a removed node" % a.text, site=sc[0], construct="scheduled fiber origin")
        else:
            o.ok("removal dominates schedule")
    # no touch after schedule (shared rule with C01, restricted to this function)
    sr = c01.stack_resident_types(P)
    o = ctx.ob("wake.notouch", ws, "nothing of a node (it lives on the sleeper's stack) is read after its fiber was scheduled",
               "the woken fiber may return from fiber_sleep on another thread and reuse the frame: the poller follows a garbage `next`")
    bad = None
    for c in sc:
        for did, info in ws.local_by_did.items():
            t = (info.get("t") or "").replace("const ", "").strip()
            if not (t.endswith("*") and t[:-1].strip() in sr):
                continue
            kills = nodeset([e[1] for e in ws.defs().get(did, []) if e[0] in ("init", "assign")])
            for n in ws.nodes:
                if n.k == "MemberExpr" and n.arrow:
                    b = strip(n.kids[0])
                    if b is not None and b.k == "DeclRefExpr" and b.did == did:
                        w = ws.find_path(c, lambda m: m is b, barrier=kills)
                        if w is not None:
                            bad = bad or ("`%s` is read after `%s`" % (n.text, c.text), n, w, "deref of %s after schedule" % info["name"])
    if not sr:
        raise AnalysisBroken("no stack-resident node type derived (fiber_sleep changed shape)")
    if bad:
        o.fail(bad[0], site=bad[1], witness=bad[2], construct=bad[3])
    else:
        o.ok("stack-resident types: %s" % sorted(sr))


def timer_reads(fn):
    isread = lambda c: c.k == "CallExpr" and ((c.indirect and fn.key(c.kids[0]) == ("glob", "fibershim_read")) or c.callee in ("read", "fibershim_read"))
    return [c for c in fn.calls(pred=isread) if len(fn.args(c)) >= 3 and fn.key(fn.args(c)[0], True) == ("glob", "timer_fd")]


def check_wake_count(ctx, P):
    ws = P.fn("fiber_event_wake_sleepers")
    o = ctx.ob("wake.count", ws, "the expirations are read from the timer descriptor and added to timer_trigger_count inside ONE sleep_spinlock critical section "
               "(in fiber_event_wake_sleepers), only when the read returned a whole 8-byte count, with coefficient one; callers pass no count of their own",
               "between a read and the update of the counter the expirations exist only in one kernel thread's local variable: a sleeper that registers in "
               "between (its own read finds the timer empty) is credited with them afterwards and wakes early; a tick invented on a failed read counts an "
               "expiration twice")
    bad = None
    reads = timer_reads(ws)
    locks = [c for c in ws.calls(LOCK) if sleep_lock(ws, c)]
    unl = [c for c in ws.calls(UNLOCK) if sleep_lock(ws, c)]
    tc = [s_ for s_ in ws.stores() if ws.target_key(s_.target) == ("glob", "timer_trigger_count")]
    if not reads:
        bad = ("fiber_event_wake_sleepers does not read the timer descriptor itself: the count comes from outside its critical section", ws.loc)
    elif len(tc) != 1 or not locks:
        raise AnalysisBroken("wake_sleepers: counter update / lock not recognised")
    else:
        r = reads[0]
        if len(reads) != 1 or ws.args(r)[2].cv != 8:
            bad = bad or ("expected one 8-byte read of timer_fd", r)
        w = c01.held_lock_ok(ws, r, locks, unl)
        if w is not None:
            bad = bad or ("the timer is read without sleep_spinlock held", r)
        if ws.find_path(r, lambda n: n is tc[0].node, barrier=nodeset(unl)) is None or ws.find_path(r, nodeset(unl), barrier=lambda n: n is tc[0].node) is not None:
            bad = bad or ("the lock can be released between the read of the timer and the update of the counter", r)
        # the local filled by the read, credited only after a complete read, with coefficient one
        out = strip(ws.args(r)[1])
        L = strip(out.kids[0]) if out is not None and out.k == "UnaryOperator" and out.op == "&" else None
        if L is None or L.k != "DeclRefExpr" or not L.did:
            bad = bad or ("the read does not fill a local count", r)
        else:
            uses = [s_ for s_ in ws.stores() if s_.value is not None and any(m.k == "DeclRefExpr" and m.did == L.did for m in s_.value.walk())]
            for s_ in uses:
                if not (s_.kind == "compound" and s_.aop == "+=" and strip(s_.value).k == "DeclRefExpr" and strip(s_.value).did == L.did):
                    bad = bad or ("the count read is not added as it is: `%s`" % s_.node.text, s_.node)
                for rv in (-1, 0, 4, 8):
                    got = reach(ws, [s_.node], atom_from([(lambda n: n is r, rv)]), start=r)
                    if got != (rv == 8):
                        bad = bad or ("after the timer read returned %d the count is %s credited" % (rv, "" if got else "not"), s_.node)
            if not uses:
                bad = bad or ("the count read from the timer is never added to the tick counter", r)
            # nothing else is added: the value that reaches the counter is the parameter plus the count read
            tv = strip(tc[0].value) if tc[0].value is not None else None
            if tv is not None and tv.k == "DeclRefExpr" and tv.did:
                for s_ in ws.stores():
                    tk_ = ws.target_key(s_.target)
                    if tk_[0] == "var" and tk_[2] == tv.did and s_ not in uses:
                        bad = bad or ("`%s` adds something that was not read from the timer" % s_.node.text, s_.node)
            other = [e for e in ws.defs().get(L.did, []) if e[0] in ("assign", "mod") or (e[0] == "init" and strip(e[2]).cv != 0)]
            if other:
                bad = bad or ("`%s` is also set by `%s`" % (L.name, other[0][1].text[:50]), other[0][1])
    n = 0
    for fn, c in P.callers_of("fiber_event_wake_sleepers"):
        n += 1
        a = fn.args(c)[1]
        if reads and a.cv != 0:
            bad = bad or ("`%s` in %s hands in a count of its own (read outside the critical section)" % (c.text[:60], fn.name), c)
    o.check(bad is None, "read+credit under the lock; %d call sites pass 0" % n, bad[0] if bad else None, site=bad[1] if bad else None,
            construct="tick count not read and credited atomically")


def check_poll_idle(ctx, P):
    tf = P.fn("fiber_manager_thread_func")
    o = ctx.ob("poll.idle", tf, "a kernel thread with no runnable fiber polls the event engine (fiber_poll_events / fiber_poll_events_blocking) before it idles again, "
               "and polling is switched off (should_check_events = false) only by fiber_shutdown",
               "sleepers and fibers blocked on descriptors are woken only by a poller: if idle threads stop polling while every fiber is asleep nobody is ever woken")
    polls = tf.calls(("fiber_poll_events", "fiber_poll_events_blocking"))
    nx = tf.calls("fiber_scheduler_next")
    bad = None
    if not polls or not nx:
        bad = ("the idle loop does not poll the event engine", tf.loc)
    else:
        isflag = lambda n: n.k == "ImplicitCastExpr" and n.ck == "LValueToRValue" and strip(n).k == "DeclRefExpr" and strip(n).name == "should_check_events"
        at = atom_from([(lambda n: n is nx[0], 0), (isflag, 1), (lambda n: n.k == "ImplicitCastExpr" and n.ck == "LValueToRValue" and strip(n).k == "DeclRefExpr" and strip(n).name == "fiber_shutting_down", 0)])
        if not reach(tf, polls, at, start=nx[0]):
            bad = ("with nothing runnable and polling enabled the idle loop does not reach a poll", nx[0])
        if reach(tf, nx, at, start=nx[0], barrier=nodeset(polls)):
            bad = bad or ("with nothing runnable the idle loop can come round again without having polled", nx[0])
    for fn in P.unique_functions():
        for s_ in fn.stores():
            if fn.target_key(s_.target) == ("glob", "should_check_events") and s_.value is not None and strip(s_.value).cv == 0 and fn.name != "fiber_shutdown":
                bad = bad or ("`%s` in %s switches polling off" % (s_.node.text, fn.name), s_.node)
    o.check(bad is None, "idle loop polls", bad[0] if bad else None, site=bad[1] if bad else None, construct="idle thread does not poll")


def check_backlog(ctx, P):
    fs = P.fn("fiber_sleep")
    o = ctx.ob("early.backlog", fs, "before fiber_sleep computes its deadline it brings the tick counter up to date: a call of fiber_event_wake_sleepers (which reads "
               "the timer descriptor and credits the count under the lock) lies on every path to the deadline computation",
               "the timer descriptor accumulates expirations while no thread polls (every kernel thread busy with fibers that do not yield): the next poller "
               "adds the whole backlog to the counter after the sleeper has registered, and a 50 ms sleep that follows 400 ms of computation returns at once")
    st = [s_ for s_ in fs.stores_to("waiter_el", "wake_time")]
    if not st:
        raise AnalysisBroken("fiber_sleep: wake_time store not found")
    drains = fs.calls("fiber_event_wake_sleepers") if timer_reads(P.fn("fiber_event_wake_sleepers")) else []
    bad = None
    if not drains:
        bad = ("fiber_sleep does not drain the timer descriptor: unread expirations from before the call are credited to this sleeper", st[0].node, None)
    else:
        w = fs.dominated_by(st[0].node, nodeset(drains))
        if w is not None:
            bad = ("the deadline is computed on a path that has not drained the timer descriptor", st[0].node, w)
    o.check(bad is None, "drain before deadline", bad[0] if bad else None, site=bad[1] if bad else None, witness=bad[2] if bad else None,
            construct="deadline computed over an unread timer backlog")


def check_poll_yield(ctx, P):
    yl = P.fn("fiber_manager_yield")
    o = ctx.ob("poll.yield", yl, "fiber_manager_yield polls the event engine at a bounded interval (every 2^k-th yield of a kernel thread) when the yielding fiber is RUNNING "
               "and polling is enabled -- and not when the fiber is on its way to sleep (it may hold the spinlock its successor releases)",
               "the idle loop polls only when a kernel thread has nothing to run: while every thread has a fiber in a yield loop, expired sleepers and ready "
               "descriptors are never moved to a run queue (the polling fiber waits for ever for the very fiber it starves)")
    polls = yl.calls(("fiber_poll_events", "fiber_poll_events_blocking"))
    nx = yl.calls("fiber_scheduler_next")
    bad = None
    if not polls:
        bad = ("fiber_manager_yield never polls the event engine", yl.loc)
    else:
        isY = field_load("yield_count")
        isF = lambda n: n.k == "ImplicitCastExpr" and n.ck == "LValueToRValue" and strip(n).k == "DeclRefExpr" and strip(n).name == "should_check_events"
        isSt = field_load("state")
        hit = [yc for yc in (1 << k for k in range(0, 21)) if reach(yl, polls, atom_from([(isY, yc), (isF, 1), (isSt, c01.RUNNING)]))]
        if not hit:
            bad = ("no yield count up to 2^20 makes a RUNNING fiber's yield poll", polls[0])
        for stv in (c01.WAITING, c01.SAVING):
            if any(reach(yl, polls, atom_from([(isY, yc), (isF, 1), (isSt, stv)])) for yc in (1 << k for k in range(0, 21))):
                bad = bad or ("a fiber that is going to sleep (state %s) polls from its yield: it may hold the event engine's spinlock for its successor" % c01.STATE_NAME.get(stv, stv), polls[0])
        if any(reach(yl, polls, atom_from([(isY, yc), (isF, 0), (isSt, c01.RUNNING)])) for yc in (1 << k for k in range(0, 21))):
            bad = bad or ("the yield polls although polling is switched off (shutdown)", polls[0])
    o.check(bad is None, "periodic poll for RUNNING fibers", bad[0] if bad else None, site=bad[1] if bad else None, construct="yield never polls")


def check_tick(ctx, P):
    """units of the tick counter: it advances by u per timer expiration, expirations are T ms apart, sleepers add (ms + 1) and are woken by a
    strict comparison.  A sleeper registered just before a tick is woken at the k-th tick after it, k = floor((ms+1)/u) + 1, having slept
    at least (k-1)*T ms; this must be >= ms for every ms."""
    ws = P.fn("fiber_event_wake_sleepers")
    o = ctx.ob("early.tick", ws, "the tick counter advances by u per timer expiration with floor((ms+1)/u) * T >= ms for every ms (T = timer period in ms): "
               "one expiration never counts for more sleep-time units than its period covers",
               "advancing the counter by the period (5) per expiration while deadlines keep their 1-unit slack wakes a 4 ms sleep at the next tick, "
               "which may be microseconds away")
    st = [s for s in ws.stores() if ws.target_key(s.target) == ("glob", "timer_trigger_count")]
    if len(st) != 1 or st[0].value is None:
        raise AnalysisBroken("wake_sleepers: tick counter update not recognised")
    isP = is_param_load(ws, ws.params[1]["name"])
    try:
        inc = [ev(ws, st[0].value, atom_from([(isP, k)])) for k in (0, 1, 2, 3, 1000)]
    except Unevaluable as e:
        raise AnalysisBroken("wake_sleepers: cannot evaluate the increment (%s)" % e)
    init = P.fn("fiber_event_init")
    per = {}
    for s_ in init.stores():
        t = s_.target.text.replace(" ", "")
        for f in ("it_interval.tv_sec", "it_interval.tv_nsec"):
            if t.endswith(f) and s_.value is not None:
                try:
                    per[f] = ev(init, s_.value, lambda n: None)
                except Unevaluable:
                    raise AnalysisBroken("fiber_event_init: timer period not constant")
    if "it_interval.tv_nsec" not in per:
        raise AnalysisBroken("fiber_event_init: timer period not found")
    T = per.get("it_interval.tv_sec", 0) * 1000.0 + per["it_interval.tv_nsec"] / 1e6
    u = inc[1]
    bad = None
    if inc[0] != 0 or any(inc[i] != k * u for i, k in ((2, 2), (3, 3), (4, 1000))) or u < 1:
        bad = "the increment is not a positive multiple of the expiration count (0,1,2,3 -> %s)" % inc[:4]
    else:
        for ms in range(0, 20000):
            if ((ms + 1) // u) * T < ms:
                bad = "u=%d per expiration, period %.3g ms: a %d ms sleep registered just before a tick is resumed after %.3g ms" % (u, T, ms, ((ms + 1) // u) * T)
                break
    ctx.derived["tick"] = {"units_per_expiration": u, "period_ms": T}
    o.check(bad is None, "u=%d, T=%.3g ms; 20000 durations" % (u, T), bad, site=st[0].node, construct="tick unit mismatch")


def check_early(ctx, P):
    rm = P.fn("waiter_remove_less_than")
    o = ctx.ob("early.compare", rm, "a node is removed only when its wake tick is strictly below the tick count passed in (and is removed then)",
               "`>=` wakes a sleeper one tick early: a sleep of N ticks registered just before a tick boundary returns after N-1 ticks")
    isW = is_param_load(rm, "wake_time")
    isN = field_load("wake_time")
    isL = field_load("left")
    isT = lambda n: (n.k == "ImplicitCastExpr" and n.ck == "LValueToRValue" and strip(n).k == "UnaryOperator" and strip(n).op == "*")
    bad = None
    valrets = [r for r in rm.returns() if r.kids and strip(r.kids[0]).cv != 0]
    if not valrets:
        raise AnalysisBroken("waiter_remove_less_than: no node return")
    for W in range(0, 4):
        for N in range(0, 4):
            atom = atom_from([(isW, W), (isN, N), (isL, 0), (isT, 4096)])
            e = forced_edges(rm, atom)
            reach = any(rm.find_path("entry", lambda n, r=r: n is r, edge_ok=e) is not None for r in valrets)
            if reach and not N < W:
                bad = bad or "a node with wake tick %d is removed at tick count %d" % (N, W)
            if not reach and N < W:
                bad = bad or "a node with wake tick %d is not removed at tick count %d" % (N, W)
    o.check(bad is None, "16-case table", bad, site=rm.loc, construct="remove comparison")

    check_tick(ctx, P)
    check_backlog(ctx, P)
    check_wake_count(ctx, P)
    check_poll_idle(ctx, P)
    check_poll_yield(ctx, P)
    fs = P.fn("fiber_sleep")
    o = ctx.ob("early.width", fs, "the deadline added to the tick counter is at least seconds*1000 + useconds/1000 + 1 for every 32-bit "
               "(seconds, useconds), computed without wrap-around, and the node's wake tick is tick counter + that value",
               "a product computed in 32 bits wraps for long sleeps (sleep(4294968) returns after 3.5 s); dropping the +1 lets a "
               "sub-tick sleep return at once")
    st = [s for s in fs.stores_to("waiter_el", "wake_time")]
    if not st:
        raise AnalysisBroken("fiber_sleep: wake_time store not found")
    isS, isU = is_param_load(fs, "seconds"), is_param_load(fs, "useconds")
    isC = is_global_load("timer_trigger_count")
    bad = None
    cases = [(0, 0), (0, 1), (0, 999), (0, 1000), (0, 999999), (1, 0), (3, 500000), (4294967, 0), (4294968, 0), (4294967295, 999999), (2147483648, 1)]
    for s_, u_ in cases:
        for T in (0, 7, 1 << 40):
            atom = atom_from([(isS, s_), (isU, u_), (isC, T)])
            try:
                v = ev(fs, st[0].value, atom)
            except Unevaluable as e:
                raise AnalysisBroken("fiber_sleep: cannot evaluate the deadline (%s)" % e)
            want = T + s_ * 1000 + u_ // 1000 + 1
            if v < want:
                bad = bad or ("fiber_sleep(%d, %d) at tick %d: wake tick %d, needs at least %d" % (s_, u_, T, v, want))
    if bad:
        o.fail(bad, site=st[0].node, construct="32-bit multiplication" if "4294968" in bad or "429496" in bad else "deadline arithmetic")
    else:
        o.ok("%d durations x 3 tick counts" % len(cases))
    # the deadline is read under the lock (same critical section as the insertion)
    o = ctx.ob("early.base", fs, "the tick counter is read inside the critical section that inserts the node",
               "read before the lock, a poller can advance the counter in between and the node is inserted already expired-by-one")
    locks = [c for c in fs.calls(LOCK) if sleep_lock(fs, c)]
    ld = [n for n in fs.nodes if isC(n)]
    bad = None
    for n in ld:
        w = fs.dominated_by(n, nodeset(locks))
        if w is not None:
            bad = (n, w)
    if not ld:
        raise AnalysisBroken("fiber_sleep: tick counter read not found")
    o.check(bad is None, "read under the lock", "timer_trigger_count is read without sleep_spinlock", site=bad[0] if bad else None,
            witness=bad[1] if bad else None, construct="tick base outside lock")


def check_tree(ctx, P):
    ins = P.fn("waiter_insert")
    o = ctx.ob("tree.insert", ins, "waiter_insert descends left exactly for a smaller wake tick, right exactly for a larger one, and chains the node through `next` "
               "exactly for an equal one", "waiter_remove_less_than examines the leftmost node first and stops when it is not due: a smaller tick filed to the "
               "right is not seen until its larger parent expires (woken late or never); a node overwriting an equal-tick node loses that sleeper")
    isN = lambda n: (n.k == "ImplicitCastExpr" and n.ck == "LValueToRValue" and strip(n).k == "MemberExpr" and strip(n).field == "wake_time"
                     and strip(strip(n).kids[0]).k == "DeclRefExpr" and strip(strip(n).kids[0]).name == "node")
    isT = lambda n: (n.k == "ImplicitCastExpr" and n.ck == "LValueToRValue" and strip(n).k == "MemberExpr" and strip(n).field == "wake_time" and not isN(n))
    isStar = lambda n: n.k == "ImplicitCastExpr" and n.ck == "LValueToRValue" and strip(n).k == "UnaryOperator" and strip(n).op == "*"
    tp = [p for p in ins.params if p["name"] == "tree"]
    bad = None
    if not tp:
        bad = "shape"
    else:
        desc = {}
        for kind, node, val in ins.defs().get(tp[0]["did"], []):
            if kind == "assign" and val is not None:
                k = ins.key(val)
                for side in ("left", "right"):
                    if key_mentions(k, lambda x, side=side: x[0] == "f" and x[1] == "waiter_el" and x[2] == side):
                        desc[side] = node
        chain = [s_.node for s_ in ins.stores_to("waiter_el", "next") if strip(s_.value).k == "DeclRefExpr" and strip(s_.value).name == "node"]
        keep = [s_.node for s_ in ins.stores_to("waiter_el", "next") if s_.node not in chain]
        if set(desc) != {"left", "right"} or len(chain) != 1 or len(keep) != 1:
            bad = "descent / chaining statements not found"
        else:
            for N in range(3):
                for T in range(3):
                    atom = atom_from([(isN, N), (isT, T), (isStar, 4096)])
                    e = forced_edges(ins, atom)
                    # start inside the loop: from the first comparison on
                    gl = ins.find_path("entry", lambda n: n is desc["left"], edge_ok=e) is not None
                    gr = ins.find_path("entry", lambda n: n is desc["right"], edge_ok=e) is not None
                    gc = ins.find_path("entry", lambda n: n is chain[0], edge_ok=e) is not None
                    if (gl, gr, gc) != (N < T, N > T, N == T):
                        bad = bad or "new tick %d vs node tick %d: goes left=%s right=%s chained=%s" % (N, T, gl, gr, gc)
            if ins.dominated_by(chain[0], nodeset(keep)) is not None:
                bad = bad or "the equal-tick chain is overwritten (the earlier sleepers of that tick are lost)"
    o.check(bad is None, "3x3 comparison table", bad, site=ins.loc, construct="sleep tree insertion order")
    rm = P.fn("waiter_remove_less_than")
    o = ctx.ob("tree.remove", rm, "waiter_remove_less_than descends to the leftmost node before it decides, and unlinks the removed node by putting its right subtree in its place",
               "deciding on an inner node misses smaller ticks in its left subtree (they wake late); dropping the right subtree loses every later sleeper")
    bad = None
    isL = field_load("left")
    valrets = [r for r in rm.returns() if r.kids and strip(r.kids[0]).cv != 0]
    isW = is_param_load(rm, "wake_time")
    atom = atom_from([(isL, 4096), (isStar, 4096), (isW, 9), (isT, 1)])
    e = forced_edges(rm, atom)
    if any(rm.find_path("entry", lambda n, r=r: n is r, edge_ok=e) is not None for r in valrets):
        bad = "a node with a left child is removed although its left subtree holds smaller ticks"
    repl = [s_ for s_ in rm.stores() if rm.target_key(s_.target)[0] == "*" and s_.value is not None and key_mentions(rm.key(s_.value), lambda x: x[0] == "f" and x[2] == "right")]
    if len(repl) != 1 or any(rm.dominated_by(r, nodeset([repl[0].node])) is not None for r in valrets):
        bad = bad or "the removed node is not replaced by its right subtree"
    o.check(bad is None, "leftmost first; right subtree kept", bad, site=rm.loc, construct="sleep tree removal")


def guaranteed_ms(ctx, P, s_, u_):
    """the time fiber_sleep(s_, u_) is guaranteed to keep its caller suspended, in ms: 0 when it returns without registering (a plain yield), else
    floor(ticks / u) * T for the `ticks` it adds to the tick counter (u units per expiration, period T ms; see early.tick)"""
    fs = P.fn("fiber_sleep")
    tick = ctx.derived.get("tick") or {"units_per_expiration": 1, "period_ms": 5.0}
    isS, isU = is_param_load(fs, "seconds"), is_param_load(fs, "useconds")
    isC = is_global_load("timer_trigger_count")
    isE = is_global_load("event_fd")
    BASE = 1000
    atom = atom_from([(isS, s_), (isU, u_), (isC, BASE), (isE, 3), (lambda n: n.k == "CallExpr" and n.indirect, -1)])
    st = [x for x in fs.stores_to("waiter_el", "wake_time")]
    if not st:
        raise AnalysisBroken("fiber_sleep: wake_time store not found")
    if fs.find_path("entry", lambda n: n is st[0].node, edge_ok=forced_edges(fs, atom)) is None:
        return 0.0
    try:
        ticks = ev(fs, st[0].value, atom) - BASE
    except Unevaluable as e:
        raise AnalysisBroken("fiber_sleep: cannot evaluate the deadline (%s)" % e)
    return (ticks // tick["units_per_expiration"]) * tick["period_ms"]


def check_shims(ctx, P):
    isTL = is_global_load("thread_locked")
    isMG = lambda n: n.k == "CallExpr" and n.callee == "fiber_manager_get"
    specs = {
        "sleep": ([("seconds", v) for v in (0, 1, 59, 4294967295)], lambda a: a["seconds"] * 1000000),
        "usleep": ([("useconds", v) for v in (0, 1, 999999, 1000000, 1500000, 4294967295)], lambda a: a["useconds"]),
    }
    for name, (vals, want_us) in specs.items():
        fn = P.fn(name)
        o = ctx.ob("shims", fn, "%s() calls fiber_sleep with a (seconds, microseconds) pair for which fiber_sleep guarantees at least the requested time, and goes to fiber_sleep "
                   "exactly when a manager exists and the thread is not I/O-locked (else to the real libc call)" % name,
                   "a lossy unit conversion shortens the sleep; calling the real sleep from a fiber stalls the whole kernel thread")
        cs = fn.calls("fiber_sleep")
        real = [c for c in fn.calls() if c.indirect]
        bad = None
        if len(cs) != 1 or not real:
            o.fail("shape not recognised", site=fn.loc, construct="shim shape")
            continue
        for pname, v in vals:
            atom = atom_from([(is_param_load(fn, pname), v)])
            try:
                s_ = ev(fn, fn.args(cs[0])[0], atom)
                u_ = ev(fn, fn.args(cs[0])[1], atom)
            except Unevaluable as e:
                raise AnalysisBroken("%s: cannot evaluate fiber_sleep arguments (%s)" % (name, e))
            g_ = guaranteed_ms(ctx, P, s_, u_)
            if g_ * 1000.0 < want_us({pname: v}):
                bad = bad or "%s(%d) calls fiber_sleep(%d, %d), which guarantees %.3f ms: shorter than requested" % (name, v, s_, u_, g_)
        bad = bad or route(fn, cs, real, isTL, isMG)
        o.check(bad is None, "conversion table + routing", bad, site=cs[0], construct=name + " conversion/routing")
    fn = P.fn("nanosleep")
    o = ctx.ob("shims", fn, "nanosleep() calls fiber_sleep with a pair for which fiber_sleep guarantees at least the requested time (end to end: conversion, the +1, the tick period, a zero-length fast path) and is routed like sleep()", "")
    cs = fn.calls("fiber_sleep")
    real = [c for c in fn.calls() if c.indirect]
    bad = None
    if len(cs) != 1 or not real:
        o.fail("shape not recognised", site=fn.loc, construct="shim shape")
    else:
        isSec = field_load("tv_sec")
        isNs = field_load("tv_nsec")
        for sec, ns in ((0, 0), (0, 1), (0, 999), (0, 1000), (0, 999999999), (2, 500000000), (100000, 1), (2 ** 32, 0), (2 ** 32 + 7, 5), (2 ** 40, 0)):
            atom = atom_from([(isSec, sec), (isNs, ns)])
            try:
                s_ = ev(fn, fn.args(cs[0])[0], atom)
                u_ = ev(fn, fn.args(cs[0])[1], atom)
            except Unevaluable as e:
                raise AnalysisBroken("nanosleep: cannot evaluate fiber_sleep arguments (%s)" % e)
            g_ = guaranteed_ms(ctx, P, s_, u_)
            if g_ * 1e6 < sec * 1000000000 + ns:
                bad = bad or "nanosleep({%d, %d}) calls fiber_sleep(%d, %d), which guarantees %.3f ms: shorter than requested" % (sec, ns, s_, u_, g_)
        bad = bad or route(fn, cs, real, isTL, isMG)
        o.check(bad is None, "conversion table + routing", bad, site=cs[0], construct="nanosleep conversion/routing")


def route(fn, cs, real, isTL, isMG):
    for tl in (0, 1):
        for mg in (0, 4096):
            atom = atom_from([(isTL, tl), (isMG, mg)])
            e = forced_edges(fn, atom)
            to_fiber = fn.find_path("entry", nodeset(cs), edge_ok=e) is not None
            to_real = fn.find_path("entry", nodeset(real), edge_ok=e) is not None
            want_fiber = (tl == 0 and mg != 0)
            if to_fiber != want_fiber or to_real == want_fiber:
                return "thread_locked=%d manager=%s: fiber_sleep reachable=%s, real call reachable=%s" % (tl, "yes" if mg else "none", to_fiber, to_real)
    return None


def run(ctx):
    P = ctx.prog()
    c01.core_dependency(ctx, P, "core.dep", ('fiber_sleep', 'fiber_wait_for_event', 'fiber_event_wake_waiters', 'fiber_event_wake_sleepers', 'fiber_poll_events_internal'),
                        'the sleep path (fiber_sleep / fiber_event_wake_sleepers)',
                        'a sleeper resumed before its context is saved runs twice')
    check_register(ctx, P)
    check_wake(ctx, P)
    check_early(ctx, P)
    check_tree(ctx, P)
    check_shims(ctx, P)
