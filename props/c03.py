"""C03 — mutex: mutual exclusion and hand-off without lost or duplicated wake-ups (structural part)."""
from core import strip, is_field, key_str, key_mentions, order_ge
from facts import AnalysisBroken
from rules import (writer_kind, check_init, nodeset, callpred, ev, Unevaluable, forced_edges, atom_from, one, some, reach, atomic_ops,
                   ret_const, is_param_load, is_var_load, field_of)
from props import c01
from props import deps
import stale

EXPLANATION = (
    "Decides the counter protocol's structure: lock is one atomic fetch-sub whose old value 1 (and only 1) means "
    "'acquired', every other path enqueues on the mutex's own waiter list; trylock is one CAS 1->0 (acquire or "
    "stronger), cannot loop or reach a context switch and reports success only on the CAS-success edge; unlock is one "
    "atomic fetch-add (release or stronger) and wakes exactly one waiter of the same mutex exactly when the new value "
    "is not 1; the shared waker leaves its loop only after waking `count` fibers, yields (does not spin) while an "
    "announced waiter is not yet poppable, and returns the popped node to its fiber before scheduling it; only the "
    "unlock path consumes a mutex's waiter list.  Mutual exclusion and no-lost-wake-up over all interleavings are not decided.")
NOT_DECIDED = ["mutual exclusion / no lost wake-up over all interleavings (correctness of the counter protocol)",
               "visibility of critical-section writes beyond the memory orders checked"]
ASSUMPTIONS = ["FIBER_SUCCESS = 1, FIBER_ERROR = 0"]
M = "fiber_mutex"
WAITQ = "fiber_manager_wait_in_mpsc_queue"
WAKEQ = "fiber_manager_wake_from_mpsc_queue"


def same_waiters(fn, arg, param):
    """arg denotes &<param>->waiters"""
    k = fn.key(arg, resolve=True)
    if k[0] == "&":
        k = k[1]
    return is_field(k, M, "waiters") and k[3] == ("*", ("var", param, [p["did"] for p in fn.params if p["name"] == param][0]))


def check_lock(ctx, P):
    f = P.fn("fiber_mutex_lock")
    ops = atomic_ops(f, M, "counter")
    o = ctx.ob("lock", f, "ownership is decided by one atomic fetch-sub (acq_rel or stronger) on `counter`; the function returns without "
               "waiting exactly when the old value was 1, and otherwise enqueues on this mutex's waiter list",
               "`>= 0` (or any other test) lets a second locker in while the mutex is held; a path that neither owns nor enqueues "
               "returns to the caller without the lock")
    if len(ops) != 1 or ops[0].aop != "fetch_sub":
        o.fail("expected exactly one atomic fetch_sub on counter, found %s" % [s.aop for s in ops], site=f.loc, construct="lock atomic op")
        return
    op = ops[0]
    bad = None
    if not order_ge(op.order or "relaxed", "acq_rel"):
        bad = "fetch_sub has order %s" % op.order
    try:
        if ev(f, op.value, None) != 1:
            bad = bad or "fetch_sub subtracts `%s`" % op.value.text
    except Unevaluable:
        bad = bad or "fetch_sub amount not constant"
    waits = f.calls(WAITQ)
    isop = lambda n: n is op.node
    for old in range(-3, 4):
        atom = atom_from([(isop, old)])
        nowait = reach(f, ["exit"], atom, barrier=nodeset(waits))
        canwait = reach(f, waits, atom)
        if old == 1 and (not nowait or canwait):
            bad = bad or "old value 1 (free): returns-without-waiting=%s, may-wait=%s" % (nowait, canwait)
        if old != 1 and nowait:
            bad = bad or "old value %d (not free): the function can return without enqueueing" % old
    for w in waits:
        if not same_waiters(f, f.args(w)[1], "mutex"):
            bad = bad or "waits on `%s`, not on this mutex's waiters" % f.args(w)[1].text
    for r in f.returns():
        if ret_const(f, r) != 1:
            bad = bad or "returns %s" % r.text
    o.check(bad is None, "table over old value -3..3", bad, site=op.node, construct="lock decision")


def check_trylock(ctx, P):
    f = P.fn("fiber_mutex_trylock")
    o = ctx.ob("trylock", f, "one CAS on `counter` from expected 1 to desired 0 with success order acquire or stronger; SUCCESS only on the "
               "CAS-success edge; no loop; cannot reach a context switch",
               "a CAS from any other value steals a held mutex; a trylock that can block or spin is not a trylock")
    ops = atomic_ops(f, M, "counter")
    bad = None
    if len(ops) != 1 or ops[0].aop != "cas":
        o.fail("expected exactly one CAS on counter, found %s" % [s.aop for s in ops], site=f.loc, construct="trylock atomic op")
        return
    op = ops[0]
    if not order_ge(op.order or "relaxed", "acquire"):
        bad = "CAS success order is %s" % op.order
    # expected: &old where old's reaching value is 1
    e = strip(op.expected)
    ev_exp = None
    if e.k == "UnaryOperator" and e.op == "&":
        v = strip(e.kids[0])
        ds = [d for d in f.defs().get(v.did, []) if d[0] in ("init", "assign")]
        if len(ds) == 1 and ds[0][2].cv is not None:
            ev_exp = ds[0][2].cv
    if ev_exp != 1:
        bad = bad or "CAS expects %s, not 1" % ev_exp
    if op.value.cv != 0:
        bad = bad or "CAS desired value is `%s`, not 0" % op.value.text
    isop = lambda n: n is op.node
    for r in f.returns():
        c = ret_const(f, r)
        if c == 1 and reach(f, [r], atom_from([(isop, 0)])):
            bad = bad or "SUCCESS is returned although the CAS failed"
        if c == 0 and reach(f, [r], atom_from([(isop, 1)])):
            bad = bad or "ERROR is returned although the CAS succeeded"
    if f.has_loop():
        bad = bad or "trylock contains a loop"
    if f.name in stale.may_switch(P):
        bad = bad or "trylock can reach a context switch"
    o.check(bad is None, "CAS 1->0", bad, site=op.node, construct="trylock")


def check_unlock(ctx, P):
    f = P.fn("fiber_mutex_unlock_internal")
    o = ctx.ob("unlock", f, "one atomic fetch-add of 1 (release or stronger); exactly one waiter of this mutex is woken (count 1) exactly when the "
               "new value is not 1, i.e. the old value was not 0",
               "waking when nobody announced spins for ever on an empty queue; not waking when somebody did strands that waiter on a "
               "mutex nobody holds; waking two hands the mutex to two fibers")
    ops = atomic_ops(f, M, "counter")
    if len(ops) != 1 or ops[0].aop != "fetch_add":
        o.fail("expected exactly one atomic fetch_add on counter, found %s" % [s.aop for s in ops], site=f.loc, construct="unlock atomic op")
        return
    op = ops[0]
    bad = None
    if not order_ge(op.order or "relaxed", "release"):
        bad = "fetch_add has order %s" % op.order
    if op.value.cv != 1:
        bad = bad or "fetch_add adds `%s`" % op.value.text
    wakes = f.calls(WAKEQ)
    if not wakes:
        bad = bad or "no waiter is ever woken"
    isop = lambda n: n is op.node
    for old in range(-3, 1):
        atom = atom_from([(isop, old)])
        woke = reach(f, wakes, atom)
        skip = reach(f, ["exit"], atom, barrier=nodeset(wakes))
        if old != 0 and (not woke or skip):
            bad = bad or "old value %d (waiters announced): wake reachable=%s, return without waking=%s" % (old, woke, skip)
        if old == 0 and woke:
            bad = bad or "old value 0 (uncontended): a wake-up is attempted on an empty queue"
    for w in wakes:
        a = f.args(w)
        if not same_waiters(f, a[1], "mutex"):
            bad = bad or "wakes `%s`, not this mutex's waiters" % a[1].text
        if a[2].cv != 1:
            bad = bad or "wake count is `%s`, not 1" % a[2].text
        w2 = stale.switch_calls(P, f)
    o.check(bad is None, "table over old value -3..0", bad, site=op.node, construct="unlock decision")
    u = P.fn("fiber_mutex_unlock")
    o = ctx.ob("unlock.wrapper", u, "fiber_mutex_unlock releases through fiber_mutex_unlock_internal exactly once on every path", "")
    cs = u.calls("fiber_mutex_unlock_internal")
    bad = None
    if len(cs) != 1 or u.find_path("entry", "exit", barrier=nodeset(cs)) is not None or u.find_path(cs[0], nodeset(cs)) is not None:
        bad = "unlock_internal called %d times / skipped on a path" % len(cs)
    o.check(bad is None, "one call", bad, site=u.loc, construct="unlock wrapper")


def announce_windows(P):
    """For every caller of the mpsc wait functions: can the fiber be switched away between an atomic read-modify-write that announces it (the last
    RMW before the wait call) and its enqueue?  Returns [(function, call, witness-path)] for the windows that contain a call that may switch."""
    out = []
    names = (WAITQ, "fiber_manager_wait_in_mpsc_queue_and_unlock")
    for fn in P.unique_functions():
        if fn.name in names:
            # inside the wait functions themselves: from entry to the push
            sw = stale.switch_calls(P, fn)
            for pcall in fn.calls("mpsc_fifo_push"):
                for c in sw:
                    if c is not pcall and fn.find_path("entry", lambda n, c=c: n is c) is not None and fn.find_path(c, lambda n, pcall=pcall: n is pcall) is not None:
                        out.append((fn, c, None))
            continue
        waits = fn.calls(names)
        if not waits:
            continue
        rmw = [s_.node for s_ in fn.stores() if s_.kind in ("atomic", "sync") and s_.aop != "store"]
        sw = [c for c in stale.switch_calls(P, fn) if c.callee not in names]
        for wcall in waits:
            for a in rmw:
                if fn.find_path(a, lambda n, wcall=wcall: n is wcall) is None:
                    continue
                for c in sw:
                    if c is a:
                        continue
                    if fn.find_path(a, lambda n, c=c: n is c, barrier=lambda n, wcall=wcall: n is wcall) is not None and \
                            fn.find_path(c, lambda n, wcall=wcall: n is wcall) is not None:
                        out.append((fn, c, None))
    return out


def check_handoff(ctx, P):
    f = P.fn(WAKEQ)
    o = ctx.ob("handoff", f, "the waker returns only after waking `count` fibers; when the queue is momentarily empty and count > 0 it retries, and it yields between "
               "the attempts unless no announced waiter can be switched away before it is enqueued; a popped node is stored back into its fiber's mpsc_fifo_node before the fiber is scheduled",
               "the announced waiter may be between its fetch-sub and its enqueue on the same kernel thread: a pure spin never lets it run "
               "(live-lock with one kernel thread); returning early strands it; a fiber scheduled without its node cannot block again")
    pops = f.calls("mpsc_fifo_trypop")
    ys = f.calls("fiber_manager_yield")
    sc = f.calls(("fiber_manager_schedule", "fiber_scheduler_schedule"))
    bad = None
    if len(pops) != 1 or not sc:
        o.fail("shape not recognised", site=f.loc, construct="waker shape")
        return
    outvar = None
    p = pops[0].parent
    while p is not None and p.k in ("ImplicitCastExpr", "ParenExpr", "CStyleCastExpr"):
        p = p.parent
    if p is not None and p.k == "BinaryOperator" and p.op == "=":
        outvar = strip(p.kids[0]).did
    elif p is not None and p.k == "DeclStmt":
        outvar = ([dc["did"] for dc in p.d["decls"] if dc.get("init") is not None and f.nodes[dc["init"]].contains(pops[0])] or [None])[0]
    from rules import returned_local
    wc = [returned_local(f)] if returned_local(f) is not None else []
    if outvar is None or not wc:
        raise AnalysisBroken("wake_from_mpsc_queue: result / wake_count variables not found")
    ispop = lambda n: n is pops[0] or (n.k == "BinaryOperator" and n.op == "=" and n.contains(pops[0]))
    isout = is_var_load(outvar)
    for count in (1, 2):
        atom = atom_from([(ispop, 0), (isout, 0), (is_var_load(wc[0]), 0), (is_param_load(f, "count"), count)])
        if reach(f, ["exit"], atom, start=pops[0], barrier=nodeset(pops)):
            bad = bad or "with count=%d and nothing woken yet, a failed pop can lead to return" % count
        def maint_branch(leaf, pol):
            # edges taken only when the current fiber is the kernel thread's maintenance fiber: it runs only when nothing else was runnable on
            # this thread, so an announced waiter that was switched away cannot be waiting in this thread's queue (C01 stale.exempt.maintenance
            # requires this branch not to yield)
            l = strip(leaf)
            if l is None or l.k != "BinaryOperator" or l.op not in ("==", "!="):
                return False
            ks = [f.key(x, resolve=True) for x in l.kids[:2]]
            cur = [key_mentions(k, lambda x: x[0] == "f" and x[2] == "current_fiber") for k in ks]
            mai = [key_mentions(k, lambda x: x[0] == "f" and x[2] == "maintenance_fiber") for k in ks]
            return ((cur[0] and mai[1]) or (cur[1] and mai[0])) and ((l.op == "==") == pol)
        if reach(f, pops, atom, start=pops[0], barrier=nodeset(ys), forbid=maint_branch):
            # a pure spin is safe exactly when an announced waiter cannot be switched away before it has enqueued itself (then it is running
            # on another kernel thread and the spin ends); it live-locks when some waiter's announce -> enqueue window contains a switch
            wins = announce_windows(P)
            if wins:
                wf, wc_, _ = wins[0]
                bad = bad or ("with count=%d a failed pop retries without yielding (pure spin) while %s can be switched away between announcing itself and "
                              "enqueueing (`%s`): on the waker's own kernel thread the announced waiter then never runs" % (count, wf.name, wc_.text[:40]))
    atom = atom_from([(ispop, 0), (isout, 0), (is_var_load(wc[0]), 0), (is_param_load(f, "count"), 0)])
    if reach(f, pops, atom, start=pops[0]):
        bad = bad or "with count=0 an empty queue is retried instead of returning 0"
    # node ownership round trip
    back = [s.node for s in f.stores_to("fiber", "mpsc_fifo_node") if s.value is not None and strip(s.value).k == "DeclRefExpr" and strip(s.value).did == outvar]
    for c in sc:
        w = f.dominated_by(c, nodeset(back))
        if w is not None:
            bad = bad or "the fiber is scheduled without its queue node having been handed back"
    # wake_count counts scheduled fibers
    inc = [s.node for s in f.stores() if f.target_key(s.target) == ("var", "wake_count", wc[0]) and s.kind in ("compound", "incdec")]
    for c in sc:
        if not inc or f.find_path(c, "exit", barrier=lambda n: n in inc or n is c or n.id in {x.id for x in inc}) is not None and False:
            pass
    if not inc:
        bad = bad or "wake_count is never advanced"
    o.check(bad is None, "loop/yield/node rules", bad, site=pops[0], construct="waker loop")
    w = P.fn(WAITQ)
    o = ctx.ob("handoff.node", w, "the waiter detaches its queue node from itself (mpsc_fifo_node = NULL) before pushing it and stores itself in the node",
               "the node is owned by the queue while enqueued; a fiber that keeps the pointer would push the same node twice")
    pushes = w.calls("mpsc_fifo_push")
    nul = [s.node for s in w.stores_to("fiber", "mpsc_fifo_node") if s.value is not None and strip(s.value).cv == 0]
    dat = [s.node for s in w.stores_to("mpsc_fifo_node", "data")]
    bad = None
    for pcall in pushes:
        if w.dominated_by(pcall, nodeset(nul)) is not None or w.dominated_by(pcall, nodeset(dat)) is not None:
            bad = "push reachable before the node is detached / filled"
    if not pushes:
        bad = "no push"
    o.check(bad is None, "detach + fill before push", bad, site=w.loc, construct="waiter node detach")


def check_consumer(ctx, P):
    o = ctx.ob("consumer", "", "a mutex's waiter list is consumed only by fiber_mutex_unlock_internal (the holder): no other function passes "
               "a fiber_mutex's `waiters` to a pop/wake function", "the list is single-consumer; a second popper corrupts it")
    bad = None
    n = 0
    for fn in P.unique_functions():
        for c in fn.calls((WAKEQ, "mpsc_fifo_trypop", "mpsc_fifo_peek")):
            for a in fn.args(c):
                k = fn.key(a, resolve=True)
                if key_mentions(k, lambda x: x[0] == "f" and x[1] == M and x[2] == "waiters"):
                    n += 1
                    if fn.name != "fiber_mutex_unlock_internal":
                        bad = bad or ("`%s` in %s" % (c.text, fn.name), c)
    ctx.expect_count("consumers of mutex waiters", n, 1)
    o.check(bad is None, "%d consumer site(s)" % n, "extra consumer " + (bad[0] if bad else ""), site=bad[1] if bad else None,
            construct="mutex waiters consumer")
    o = ctx.ob("counter.writers", "", "`counter` is modified after initialisation only by the three atomic operations above",
               "a plain store to the counter (e.g. resetting it) forgets announced waiters")
    allowed = {"fiber_mutex_init": {"assign"}, "fiber_mutex_destroy": {"assign"}, "fiber_mutex_lock": {"fetch_sub"},
               "fiber_mutex_trylock": {"cas"}, "fiber_mutex_unlock_internal": {"fetch_add"}}
    bad = None
    for fn in P.unique_functions():
        for s in fn.stores_to(M, "counter"):
            kind = writer_kind(s)
            if kind not in allowed.get(fn.name, ()):
                bad = bad or ("`%s` in %s" % (s.node.text, fn.name), s.node)
    o.check(bad is None, "writers table", "unexpected writer " + (bad[0] if bad else ""), site=bad[1] if bad else None, construct="mutex counter writer")


def run(ctx):
    P = ctx.prog()
    c01.core_dependency(ctx, P, "core.dep", ('fiber_manager_wait_in_mpsc_queue', 'fiber_manager_wait_in_mpsc_queue_and_unlock', 'fiber_manager_wake_from_mpsc_queue', 'fiber_mutex_lock', 'fiber_mutex_unlock', 'fiber_mutex_unlock_internal', 'fiber_mutex_trylock'),
                        "the mutex's sleep/wake path (wait_in_mpsc_queue / wake_from_mpsc_queue)",
                        'a waiter resumed before its context is saved, or never scheduled, breaks mutual exclusion or strands the lock')
    deps.depend(ctx, P, 'C15', 'queue.dep', "the mutex's waiter queue (mpsc_fifo)",
                'a waiter that the queue drops or hands out twice is never woken / woken twice', lambda x: x.rule.startswith(("mpsc.", "mpsc_fifo.")) or x.fn == "mpsc_fifo_init")
    check_lock(ctx, P)
    check_trylock(ctx, P)
    check_unlock(ctx, P)
    check_handoff(ctx, P)
    check_consumer(ctx, P)
    check_init(ctx, P, "fiber_mutex_init", [("fiber_mutex", "counter", 1)], calls=["mpsc_fifo_init"])
