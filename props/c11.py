"""C11 — channels and signals: every message delivered once, in order, no stranded peer (structural part)."""
from core import is_atomic_load, strip, strip_parens, is_field, order_ge, key_str, key_mentions
from facts import AnalysisBroken
from rules import (field_load, check_init, through_local, nodeset, callpred, atom_from, reach, ev, Unevaluable, ret_const, is_var_load)
from props import c01, c16

EXPLANATION = (
    "Decides the publish/raise and clear/re-check structure: every send publishes the message (queue push or slot store) "
    "before it raises the channel's signal, and the raise is a release exchange; every blocking receive re-checks the queue "
    "after each wait before it can return, and returns only what a pop produced; fiber_signal_wait publishes itself with a "
    "CAS that expects NO_WAITER only, and clears the signal on every path to its return (a raise that wins the race is "
    "consumed exactly there); fiber_signal_raise is one atomic exchange(RAISED) and wakes a fiber exactly when the old "
    "value was a fiber (not NO_WAITER, not RAISED), after the ready-to-wake spin (C01); the bounded channel's send uses the "
    "ring-buffer claim table (slot empty and high-low < size, slot written behind the won CAS) and its single receiver "
    "consumes exactly when the slot is non-NULL and high > low, clearing the slot before it advances low (release); the "
    "multi channel tests capacity / non-emptiness under its mutex again after every wait, indexes by counter & mask, "
    "advances the counter once, and wakes one waiter before unlocking; blocked senders and blocked receivers park on different lists and each "
    "completed operation wakes the other kind (a shared list lets a send wake a sender and the wake-up is lost); counters narrower than 64 "
    "bits are also checked across their wrap.  Exactly-once / order / no stranded peer over "
    "interleavings are not decided.")
NOT_DECIDED = ["exactly-once, per-sender order and 'no stranded peer' over all interleavings"]
ASSUMPTIONS = ["one receiver per bounded / unbounded channel (documented contract)", "64-bit message counters do not wrap (2^64 messages); counters narrower than 64 bits are checked across their wrap"]
SIG = "fiber_signal"
NO_WAITER, RAISED, RTW = 0, -1, -1


def check_send_recv(ctx, P):
    sends = {
        "fiber_unbounded_channel_send": ("call", "mpsc_fifo_push"),
        "fiber_unbounded_sp_channel_send": ("call", "spsc_fifo_push"),
        "fiber_bounded_channel_send": ("slot", "fiber_bounded_channel"),
    }
    for name, (kind, what) in sends.items():
        f = P.fn(name)
        o = ctx.ob("send.order", f, "the message is published (%s) before the signal is raised, on every path; a channel with a signal always raises after publishing"
                   % ("queue push" if kind == "call" else "slot store"),
                   "raise-then-publish: the receiver wakes, clears the signal, finds the queue empty and sleeps again — the message published a moment "
                   "later raises nothing: the receiver is stranded with a message queued")
        pubs = f.calls(what) if kind == "call" else [s.node for s in f.stores() if strip(s.target).k == "ArraySubscriptExpr"
                                                   and is_field(f.key(strip(s.target).kids[0], True), what, "buffer")]
        raises = f.calls("fiber_signal_raise")
        bad = None
        if not pubs or not raises:
            bad = "publish / raise not found"
        else:
            for r in raises:
                if f.dominated_by(r, nodeset(pubs)) is not None:
                    bad = bad or "the raise is reachable before the message is published"
            isrs = field_load("ready_signal")
            for p in pubs:
                if reach(f, ["exit"], atom_from([(isrs, 4096)]), start=p, barrier=nodeset(raises)):
                    bad = bad or "with a signal attached, a path returns after publishing without raising"
        o.check(bad is None, "publish -> raise", bad, site=f.loc, construct="send order " + name)
    recvs = {
        "fiber_unbounded_channel_receive": "mpsc_fifo_trypop",
        "fiber_unbounded_sp_channel_receive": "spsc_fifo_trypop",
        "fiber_bounded_channel_receive": None,
    }
    for name, popf in recvs.items():
        f = P.expanded(name, ("fiber_bounded_channel_try_receive",)) if popf is None else P.fn(name)   # receive may be written as a loop around try_receive
        o = ctx.ob("recv.recheck", f, "after every fiber_signal_wait (or yield) the queue is examined again before the function can return; only a "
                   "queue item is returned", "returning (or sleeping again) without re-checking after the wake-up loses the message that caused it")
        waits = f.calls(("fiber_signal_wait", "fiber_yield"))
        if popf:
            checks = f.calls(popf)
        else:
            checks = [n for n in f.nodes if c16.slot_load(n)]
        bad = None
        if not waits or not checks:
            bad = "wait / queue check not found"
        else:
            for w_ in waits:
                if f.find_path(w_, "exit", barrier=nodeset(checks)) is not None:
                    bad = bad or "a path from the wait to the return skips the queue check"
                if f.find_path(w_, nodeset(waits), barrier=nodeset(checks)) is not None:
                    bad = bad or "the function can wait twice without looking at the queue in between"
            for r in f.returns():
                if not r.kids or strip(r.kids[0]).cv == 0:
                    continue
                v = strip(r.kids[0])
                vk = f.key(v, resolve=True)
                src_ok = False
                from rules import may_flow_from
                if may_flow_from(f, v, lambda m: m in checks):
                    src_ok = True
                if v.k == "DeclRefExpr" and v.did:
                    for e in f.defs().get(v.did, []):
                        if e[2] is not None and any(m in checks for m in e[2].walk()):
                            src_ok = True
                    # assigned inside the loop condition: `while (!(ret = pop(...)))`
                    for n in f.nodes:
                        if n.k == "BinaryOperator" and n.op == "=" and strip(n.kids[0]).k == "DeclRefExpr" and strip(n.kids[0]).did == v.did \
                                and any(m in checks for m in n.kids[1].walk()):
                            src_ok = True
                if not src_ok:
                    bad = bad or "`%s` returns something that is not the result of the queue check" % r.text
                elif f.guarded(r, lambda leaf, pol: any(m in checks or (m.k == "DeclRefExpr" and m.did == v.did) for m in leaf.walk()) and pol is True) is not None:
                    bad = bad or "an item is returned without the queue check having succeeded"
        o.check(bad is None, "wait -> re-check", bad, site=f.loc, construct="receive recheck " + name)
        # progress of the spinning mode: with no signal attached, a failed look at the queue is followed by a yield before the next look
        o = ctx.ob("recv.progress", f, "when the channel has no signal (the documented spinning mode) a receiver that finds the queue empty yields before it looks again",
                   "a receiver that spins without yielding keeps its kernel thread for ever: with one kernel thread (or as many such receivers as threads) the "
                   "sender never runs and the message is never sent")
        bad = None
        if checks:
            isrs_ = field_load("ready_signal")
            ischk = nodeset(checks)
            at = atom_from([(lambda n: ischk(n) or (n.k == "BinaryOperator" and n.op == "=" and any(ischk(m) for m in n.walk())), 0), (isrs_, 0)])
            ys_ = f.calls(("fiber_yield", "fiber_manager_yield", "fiber_signal_wait"))
            for c0 in checks:
                if reach(f, checks, at, start=c0, barrier=nodeset(ys_)):
                    bad = bad or "with no signal attached, an empty queue is looked at again without a yield in between (busy loop)"
        o.check(bad is None, "spinning mode yields", bad, site=f.loc, construct="receive busy loop " + name)


def check_signal(ctx, P):
    w = P.fn("fiber_signal_wait")
    o = ctx.ob("signal.wait", w, "the publishing CAS expects NO_WAITER only; the signal word is reset to NO_WAITER on every path to the return (a raise that beat "
               "the CAS is consumed there, once); the fiber sleeps only behind a won CAS",
               "a CAS from any value overwrites RAISED and loses the raise; returning without clearing leaves RAISED set and the next wait returns at once "
               "for a message already consumed (harmless) — or, if it is not cleared after a real wake-up, never sleeps again (busy loop)")
    cas = [s for s in w.stores_to(SIG, "waiter") if s.aop == "cas"]
    clr = [s.node for s in w.stores_to(SIG, "waiter") if s.kind == "assign" and s.value is not None and strip(s.value).cv == NO_WAITER]
    bad = None
    if len(cas) != 1 or not clr:
        bad = "shape not recognised"
    else:
        c = cas[0]
        e = strip(c.expected)
        ev_ = None
        if e.k == "UnaryOperator" and e.op == "&":
            v = strip(e.kids[0])
            ds = [d for d in w.defs().get(v.did, []) if d[0] in ("init", "assign")]
            if len(ds) == 1:
                ev_ = strip(ds[0][2]).cv
        if ev_ != NO_WAITER:
            bad = "the CAS expects %s, not NO_WAITER" % ev_
        if not order_ge(c.order or "relaxed", "release"):
            bad = bad or "CAS order %s" % c.order
        if not key_mentions(w.key(c.value, True), lambda x: x[0] == "f" and x[2] == "current_fiber"):
            bad = bad or "the CAS does not install the calling fiber"
        if w.find_path("entry", "exit", barrier=nodeset(clr)) is not None:
            bad = bad or "a path returns without resetting the signal to NO_WAITER"
        for y in w.calls(("fiber_manager_yield", "fiber_manager_set_and_wait")):
            if w.guarded(y, lambda leaf, pol: through_local(w, leaf) is c.node and pol is True) is not None:
                bad = bad or "the fiber sleeps without having won the CAS"
            if w.find_path(y, "exit", barrier=nodeset(clr)) is not None:
                bad = bad or "after the wake-up the signal is not reset"
    o.check(bad is None, "CAS(NO_WAITER) + clear on all paths", bad, site=w.loc, construct="signal wait")
    r = P.fn("fiber_signal_raise")
    o = ctx.ob("signal.raise", r, "one atomic exchange(RAISED), release or stronger; a fiber is woken (READY + schedule, return 1) exactly when the old value was a "
               "fiber — not NO_WAITER, not RAISED; the raise delivered to a waiter resets the word to NO_WAITER",
               "exchange weaker than release lets the message publication sink below the raise; waking on RAISED dereferences (fiber_t*)-1")
    xs = [s for s in r.stores_to(SIG, "waiter") if s.aop == "exchange"]
    bad = None
    if len(xs) != 1 or strip(xs[0].value).cv != RAISED:
        bad = "expected one exchange(RAISED)"
    else:
        x = xs[0]
        if not order_ge(x.order or "relaxed", "release"):
            bad = "exchange order %s" % x.order
        sc = r.calls(c01.SCHED)
        isx = lambda n: n is x.node
        isscr = nodeset([l.node for l in r.loads_of("fiber", "scratch")])
        for old in (NO_WAITER, RAISED, 0x4000):
            atom = atom_from([(isx, old), (isscr, RTW)])
            woke = reach(r, sc, atom)
            if woke != (old == 0x4000):
                bad = bad or "old value %s: wakes=%s" % ({NO_WAITER: "NO_WAITER", RAISED: "RAISED"}.get(old, "fiber"), woke)
            for rt in r.returns():
                if reach(r, [rt], atom) and ret_const(r, rt) != (1 if old == 0x4000 else 0):
                    bad = bad or "old value %s: returns %s" % ({NO_WAITER: "NO_WAITER", RAISED: "RAISED"}.get(old, "fiber"), ret_const(r, rt))
        rst = [s.node for s in r.stores_to(SIG, "waiter") if s.kind == "assign" and strip(s.value).cv == NO_WAITER]
        for q in sc:
            if not rst or r.dominated_by(q, nodeset(rst)) is not None:
                bad = bad or "the delivered raise is not reset (the word stays RAISED after waking the waiter)"
            a = r.args(q)[1]
            if not key_mentions(r.key(a, True), lambda y: y[0] == "atomic" and y[1] == "exchange"):
                bad = bad or "the fiber scheduled is not the one taken from the signal word"
    o.check(bad is None, "exchange table", bad, site=r.loc, construct="signal raise")
    o = ctx.ob("signal.writers", "", "the signal word is written only by init / wait / raise", "")
    bad = None
    for fn in P.unique_functions():
        for s in fn.stores_to(SIG, "waiter"):
            if fn.name not in ("fiber_signal_init", "fiber_signal_wait", "fiber_signal_raise"):
                bad = bad or ("`%s` in %s" % (s.node.text, fn.name), s.node)
    o.check(bad is None, "writers", "unexpected writer " + (bad[0] if bad else ""), site=bad[1] if bad else None, construct="signal writer")


def check_bounded(ctx, P):
    BC = "fiber_bounded_channel"
    c16.check_claim(ctx, P, P.fn("fiber_bounded_channel_send"), BC, "push", "bounded.send")
    for name in ("fiber_bounded_channel_receive", "fiber_bounded_channel_try_receive"):
        f = P.expanded(name, ("fiber_bounded_channel_try_receive",)) if name.endswith("_receive") and not name.endswith("try_receive") else P.fn(name)
        o = ctx.ob("bounded.recv", f, "load high before low; the message is consumed (slot cleared, then low advanced by one with release or stronger) exactly when "
                   "the slot is non-NULL and high > low; only then is it returned", "advancing low for an unwritten slot skips a message a sender is about to write; "
                   "advancing before clearing lets a sender refill the slot and the clear then erases the new message")
        lh = [l for l in f.loads_of(BC, "high") if is_atomic_load(l.node)]
        ll = [l for l in f.loads_of(BC, "low") if is_atomic_load(l.node)]
        st = [s for s in f.stores_to(BC, "low")]
        clr = [s for s in f.stores() if strip(s.target).k == "ArraySubscriptExpr" and is_field(f.key(strip(s.target).kids[0], True), BC, "buffer")]
        bad = None
        if not lh or not ll or len(st) != 1 or len(clr) != 1:
            bad = "shape not recognised"
        else:
            for l in ll:
                if f.dominated_by(l.node, nodeset([x.node for x in lh])) is not None:
                    bad = bad or "low is loaded before high"
            isH, isL = nodeset([x.node for x in lh]), nodeset([x.node for x in ll])
            N = 4
            for H in (0, 1, 4, 5):
                for L in (0, 1, 4):
                    for V in (0, 4096):
                        atom = atom_from([(isH, H), (isL, L), (c16.slot_load, V), (c16.fld_load("power_of_2_mod", BC), N - 1), (c16.fld_load("size", BC), N)])
                        want = V != 0 and H > L
                        got = reach(f, [st[0].node], atom)
                        if got != want:
                            bad = bad or "high=%d low=%d slot %s: consumes=%s, must be %s" % (H, L, "NULL" if V == 0 else "set", got, want)
                        if want:
                            try:
                                if ev(f, st[0].value, atom) != L + 1:
                                    bad = bad or "low advanced to %s" % ev(f, st[0].value, atom)
                                if ev(f, strip(clr[0].target).kids[1], atom) != L & (N - 1):
                                    bad = bad or "clears slot %s, not low & mask" % ev(f, strip(clr[0].target).kids[1], atom)
                            except Unevaluable:
                                bad = bad or "not evaluable"
            if not (st[0].kind == "atomic" and order_ge(st[0].order or "relaxed", "release")):
                bad = bad or "low store order %s" % st[0].order
            if f.dominated_by(st[0].node, nodeset([clr[0].node])) is not None:
                bad = bad or "low is advanced before the slot is cleared"
            if strip(clr[0].value).cv != 0:
                bad = bad or "slot cleared with `%s`" % clr[0].value.text
        o.check(bad is None, "consume table", bad, site=f.loc, construct="bounded receive " + name)


def check_multi(ctx, P):
    MC = "fiber_multi_channel"
    for name, mode in (("fiber_multi_channel_send", "send"), ("fiber_multi_channel_receive", "recv")):
        f = P.fn(name)
        o = ctx.ob("multi." + mode, f, "under the channel mutex: %s is tested; if it fails the fiber waits (internal_wait) and the test is repeated under the mutex "
                   "after the wake-up; on success the slot at counter & mask is %s, the counter advanced by one, one waiter woken, and the mutex released — in that order"
                   % ("high-low < size" if mode == "send" else "high > low", "written" if mode == "send" else "read and cleared"),
                   "`if` instead of `while` around the wait acts on a condition another fiber invalidated meanwhile: a full ring is overwritten / an empty one read")
        locks = f.calls("fiber_mutex_lock")
        unl = f.calls(("fiber_mutex_unlock", "fiber_mutex_unlock_internal"))
        waits = f.calls("fiber_multi_channel_internal_wait")
        wakes = f.calls("fiber_multi_channel_internal_wake")
        cnt = "high" if mode == "send" else "low"
        sl = [s for s in f.stores() if strip(s.target).k == "ArraySubscriptExpr" and is_field(f.key(strip(s.target).kids[0], True), MC, "buffer")]
        adv = [s for s in f.stores_to(MC, cnt)]
        bad = None
        if not locks or len(unl) != 1 or len(waits) != 1 or len(wakes) != 1 or len(sl) != 1 or len(adv) != 1:
            bad = "shape not recognised"
        else:
            fH, fL, fS = c16.fld_load("high", MC), c16.fld_load("low", MC), c16.fld_load("size", MC)
            N = 4
            # counters narrower than 64 bits wrap within a channel's lifetime: the tests must then also be right across the wrap
            bits = min(fl["bits_size"] for fl in P.record(MC)["fields"] if fl["name"] in ("high", "low"))
            rows = [(H, L) for H in (0, 3, 4, 7) for L in (0, 3, 4) if H >= L]
            if bits < 64:
                M = 2 ** bits
                rows += [(1, M - 1), (2, M - 2), (0, M - 4), (3, M - 1), (M - 1, M - 1)]
            for H, L in rows:
                    atom = atom_from([(fH, H), (fL, L), (fS, N), (c16.fld_load("power_of_2_mod", MC), N - 1)])
                    held = (H - L) % (2 ** bits)
                    ok = (held < N) if mode == "send" else (held > 0)
                    go = reach(f, [sl[0].node], atom, barrier=nodeset(waits))
                    wt = reach(f, waits, atom)
                    if go != ok or wt == ok:
                        bad = bad or "high=%d low=%d: proceeds=%s waits=%s" % (H, L, go, wt)
                    try:
                        want = (H if mode == "send" else L) & (N - 1)
                        if ev(f, strip(sl[0].target).kids[1], atom) != want:
                            bad = bad or "slot index %s, expected %d" % (ev(f, strip(sl[0].target).kids[1], atom), want)
                    except Unevaluable:
                        bad = bad or "index not evaluable"
            # after a wait: lock again and test again before touching the ring
            if f.find_path(waits[0], nodeset([sl[0].node, adv[0].node]), barrier=nodeset(locks)) is not None:
                bad = bad or "after waiting the ring is touched without re-taking the mutex"
            if f.find_path(waits[0], nodeset([sl[0].node]), edge_ok=lambda b, i: not cond_mentions(f, b, i, ("high", "low"))) is not None:
                bad = bad or "after waiting the ring is touched without re-testing the condition"
            for n in (sl[0].node, adv[0].node, wakes[0]):
                if c01.held_lock_ok(f, n, locks, unl) is not None:
                    bad = bad or "`%s` without the channel mutex" % n.text[:40]
            if f.dominated_by(unl[0], nodeset(wakes)) is not None or f.find_path(sl[0].node, "exit", barrier=nodeset(wakes)) is not None:
                bad = bad or "a successful operation does not wake a waiter before unlocking"
            if not (adv[0].kind in ("compound", "incdec") and (adv[0].value is None or strip(adv[0].value).cv == 1)):
                bad = bad or "the counter is not advanced by exactly one"
            if f.find_path(adv[0].node, lambda n: n is adv[0].node) is not None:
                bad = bad or "the counter can be advanced twice"
            if mode == "recv" and strip(sl[0].value).cv != 0:
                bad = bad or "the slot is not cleared"
        o.check(bad is None, "capacity table + re-test + wake before unlock", bad, site=f.loc, construct="multi channel " + mode)
    wk = P.fn("fiber_multi_channel_internal_wake")
    o = ctx.ob("multi.wake", wk, "internal_wake unlinks exactly the first waiter from the list before it marks it READY and schedules it, and touches nothing of it afterwards", "")
    bad = None
    sc = wk.calls(c01.SCHED)
    # the unlink: a store to a waiter-list field of the channel, or through the list pointer the caller passed
    lp = {p["did"] for p in wk.params if "**" in (p.get("t") or "").replace(" ", "")}
    un = [s.node for s in wk.stores() if (strip(s.target).k == "UnaryOperator" and strip(s.target).op == "*" and strip(strip(s.target).kids[0]) is not None
                                          and wk.resolve(strip(s.target).kids[0]) is not None and strip(wk.resolve(strip(s.target).kids[0])).did in lp)]
    un += [s.node for fld in waiter_fields(P) for s in wk.stores_to(MC, fld)]
    if len(sc) != 1 or not un or wk.dominated_by(sc[0], nodeset(un)) is not None:
        bad = "the waiter is scheduled before it is unlinked"
    o.check(bad is None, "unlink -> READY -> schedule", bad, site=wk.loc, construct="multi wake order")


def waiter_fields(P):
    """fields of the multi channel that hold a list of waiting fibers (type fiber_t*)"""
    rec = P.record("fiber_multi_channel")
    return [f["name"] for f in rec["fields"] if (f.get("t") or "").replace(" ", "") in ("fiber_t*", "structfiber*")]


def list_of(P, f, call, helper):
    """the waiter-list field(s) of the channel a call of internal_wait / internal_wake operates on"""
    MC = "fiber_multi_channel"
    flds = waiter_fields(P)
    h = P.fn(helper)
    out = set()
    for a in f.args(call):
        k = f.key(a, resolve=True)
        for fld in flds:
            if key_mentions(k, lambda y, fld=fld: y[0] == "f" and y[1] == MC and y[2] == fld):
                out.add(fld)
    if out:
        return out
    # no list argument: the helper names the list itself
    for fld in flds:
        if h.stores_to(MC, fld) or h.loads_of(MC, fld):
            out.add(fld)
    return out


def check_multi_lists(ctx, P):
    snd, rcv = P.fn("fiber_multi_channel_send"), P.fn("fiber_multi_channel_receive")
    WAIT, WAKE = "fiber_multi_channel_internal_wait", "fiber_multi_channel_internal_wake"
    o = ctx.ob("multi.lists", snd, "the list a blocked sender parks on is the list a completed receive wakes from, the list a blocked receiver parks on is the one a "
               "completed send wakes from, and the two are different lists (or every wake-up empties the whole list)",
               "with one shared list a completed send can pop a blocked *sender*: it re-tests, finds the channel still full and sleeps again, and the "
               "wake-up is gone while a receiver deeper in the list sleeps for ever next to a full channel")
    flds = waiter_fields(P)
    if not flds:
        raise AnalysisBroken("C11 multi.lists: no waiter list field in fiber_multi_channel")
    try:
        sw = list_of(P, snd, snd.calls(WAIT)[0], WAIT)
        sk = list_of(P, snd, snd.calls(WAKE)[0], WAKE)
        rw = list_of(P, rcv, rcv.calls(WAIT)[0], WAIT)
        rk = list_of(P, rcv, rcv.calls(WAKE)[0], WAKE)
    except IndexError:
        raise AnalysisBroken("C11 multi.lists: wait / wake call sites not found")
    wk = P.fn(WAKE)
    sc = wk.calls(c01.SCHED)
    wakes_all = bool(sc) and all(wk.find_path(q, lambda n, q=q: n is q) is not None for q in sc)
    bad = None
    if not (sw and sk and rw and rk):
        bad = "cannot name the waiter lists (send waits on %s, wakes %s; receive waits on %s, wakes %s)" % (sorted(sw), sorted(sk), sorted(rw), sorted(rk))
    elif len(sw) != 1 or len(sk) != 1 or len(rw) != 1 or len(rk) != 1:
        bad = "a wait / wake site names more than one list"
    elif sw != rk or rw != sk:
        bad = "senders park on `%s` but a receive wakes `%s`; receivers park on `%s` but a send wakes `%s`" % (min(sw), min(rk), min(rw), min(sk))
    elif sw == rw and not wakes_all:
        bad = ("blocked senders and blocked receivers share the single list `%s` and a completed operation wakes only its first entry: a send can wake a sender "
               "(a receive a receiver), which sleeps again, and the wake-up never reaches the peer that could proceed" % min(sw))
    o.check(bad is None, "send: wait %s / wake %s; receive: wait %s / wake %s" % (sorted(sw), sorted(sk), sorted(rw), sorted(rk)), bad,
            site=snd.calls(WAKE)[0], construct="multi channel waiter lists")


def cond_mentions(f, b, i, fields):
    ec = f.edge_cond(b, i)
    if ec is None:
        return False
    return any(m.k == "MemberExpr" and m.field in fields for m in ec[0].walk())


def check_handoff_dep(ctx, P):
    """the signal / multi-channel sleep-wake hand-off is mechanism 3 / 4 of C01: those obligations are obligations of C11 too"""
    import check as _chk
    sub = _chk.Ctx("C01", ctx.tier, ctx.seed)
    sub._progs = ctx._progs
    sub.config = ctx.config
    c01.check_wait_sites(sub, P)
    c01.check_wake_sites(sub, P)
    mine = ("fiber_signal_wait", "fiber_signal_raise", "fiber_multi_signal_wait", "fiber_multi_signal_raise", "fiber_multi_signal_raise_strict",
            "fiber_multi_channel_internal_wait", "fiber_multi_channel_internal_wake", "fiber_manager_set_and_wait")
    o = ctx.ob("handoff.dep", "", "the sleep / wake hand-off of signals and of the multi channel satisfies the C01 rules of its mechanism (scratch cleared before the "
               "fiber publishes itself, sleep only behind the won CAS, raisers schedule only after the ready-to-wake marker; multi channel: registration "
               "under the mutex, mutex released by the successor)",
               "a raise that schedules the receiver before its context switch completed resumes it from a stale context: the message is processed twice or the "
               "receiver crashes — and a receiver that is never scheduled strands the sender")
    fails = [x for x in sub.obs if x.status == "fail" and (x.fn in mine or x.rule.startswith(("wait.3", "wake.3", "wait.4.caller")))]
    if fails:
        x = fails[0]
        o.fail("C01.%s in %s: %s" % (x.rule, x.fn, x.found), site=x.sites[0] if x.sites else None, witness=x.witness, construct="C01 dependency: " + (x.construct or x.rule))
    else:
        o.ok("hand-off obligations of %d signal/channel functions discharged" % len(mine))


def check_sentinels(ctx, P):
    global NO_WAITER, RAISED, RTW
    from rules import macro_constant
    o = ctx.ob("signal.sentinel", "", "FIBER_SIGNAL_NO_WAITER, FIBER_SIGNAL_RAISED and FIBER_SIGNAL_READY_TO_WAKE are compile-time constants, the same in every "
               "translation unit; NO_WAITER differs from RAISED; none of them other than NO_WAITER can be a fiber's address",
               "the signal word and the scratch marker are written by one translation unit and compared by another")
    bad = site = None
    vals = {}
    for nm in ("FIBER_SIGNAL_NO_WAITER", "FIBER_SIGNAL_RAISED", "FIBER_SIGNAL_READY_TO_WAKE"):
        v, b, st = macro_constant(P, nm)
        vals[nm] = v
        if b:
            bad, site = bad or b, site or st
    if bad is None:
        if vals["FIBER_SIGNAL_NO_WAITER"] == vals["FIBER_SIGNAL_RAISED"]:
            bad = "NO_WAITER and RAISED have the same value"
        for nm in ("FIBER_SIGNAL_RAISED", "FIBER_SIGNAL_READY_TO_WAKE"):
            v = vals[nm]
            if v == 0 or (4096 <= v < 2 ** 47 and v % 8 == 0):
                bad = bad or "%s = %#x can be NULL / a fiber's address" % (nm, v)
    if bad:
        o.fail(bad, site=site, construct="signal sentinel")
        raise AnalysisBroken("signal markers are not constants: the tables cannot be evaluated")
    o.ok("NO_WAITER=%d RAISED=%d READY_TO_WAKE=%d" % (vals["FIBER_SIGNAL_NO_WAITER"], vals["FIBER_SIGNAL_RAISED"], vals["FIBER_SIGNAL_READY_TO_WAKE"]))
    NO_WAITER, RAISED, RTW = vals["FIBER_SIGNAL_NO_WAITER"], vals["FIBER_SIGNAL_RAISED"], vals["FIBER_SIGNAL_READY_TO_WAKE"]


def run(ctx):
    P = ctx.prog()
    check_sentinels(ctx, P)
    check_handoff_dep(ctx, P)
    from props import deps
    deps.depend(ctx, P, "C15", "queue.dep", "the unbounded channels' message queues (mpsc_fifo, spsc_fifo)",
                "a message the queue drops or returns twice is lost / delivered twice whatever the channel code does",
                lambda x: x.rule.startswith(("mpsc.", "mpsc_fifo.", "spsc.", "spsc_fifo.")) or x.fn in ("mpsc_fifo_init", "spsc_fifo_init"))
    check_send_recv(ctx, P)
    check_signal(ctx, P)
    check_bounded(ctx, P)
    check_multi(ctx, P)
    check_multi_lists(ctx, P)
    check_init(ctx, P, "fiber_signal_init", [("fiber_signal", "waiter", 0)])
    check_init(ctx, P, "fiber_unbounded_channel_init", [("fiber_unbounded_channel", "ready_signal", "param:signal")], calls=["mpsc_fifo_init"], rule="init.unbounded",
               why="a channel that forgets its signal never wakes its sleeping receiver; one that keeps a stale signal raises somebody else's")
    check_init(ctx, P, "fiber_unbounded_sp_channel_init", [("fiber_unbounded_sp_channel", "ready_signal", "param:signal")], calls=["spsc_fifo_init"], rule="init.sp",
               why="as for the unbounded channel")
    from rules import check_zeroed_alloc, check_alloc_size
    check_alloc_size(ctx, P, "fiber_bounded_channel_create", "fiber_bounded_channel", "bounded.create.size",
                     "a block smaller than the capacity stored in `size`: messages are written outside the channel (heap overflow) and lost")
    check_alloc_size(ctx, P, "fiber_multi_channel_create", "fiber_multi_channel", "multi.create.size", "as for the bounded channel")
    check_zeroed_alloc(ctx, P, "fiber_bounded_channel_create", "bounded.create.zero", "the message slots of a new bounded channel",
                       "NULL marks a free / not yet written slot: on a stale non-NULL slot the sender yields for ever and the receiver sleeps on a signal "
                       "that is never raised; a stale pointer can also be delivered as a message that was never sent")
    check_zeroed_alloc(ctx, P, "fiber_multi_channel_create", "multi.create.zero", "the slots of a new multi channel",
                       "as for the bounded channel")
