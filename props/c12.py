"""C12 — barrier: nobody passes round k before all arrived; reusable at once (structural part)."""
from core import strip, is_field, key_mentions, order_ge, key_str
from facts import AnalysisBroken
from rules import (writer_kind, field_load, check_init, nodeset, ev, Unevaluable, forced_edges, atom_from, reach, atomic_ops, ret_const, is_var_load)
from props import c01
from props import deps

EXPLANATION = (
    "Decides the arrival protocol's structure: one atomic fetch-add per arrival; the arrival whose number is a multiple "
    "of `count` (and only it) takes the serial path, returns FIBER_BARRIER_SERIAL_FIBER and on that path wakes exactly "
    "count-1 waiters of this barrier; every other arrival parks on this barrier's waiter list and returns 0; nothing else "
    "writes the arrival counter.  Round separation under immediate reuse is decided by recognising a certificate: the "
    "waiter list used is selected by the arrival number (generation-indexed lists), or the release loop schedules nothing "
    "before it has collected all count-1 entries, or entries carry a round tag that is compared — a single list shared by "
    "all rounds with incremental release is the defective shape (a fiber re-entering round k+1 can be popped in place of "
    "a round-k straggler that has arrived but not yet enqueued).  Other interleaving behaviour is not decided.")
NOT_DECIDED = ["'nobody passes early' and 'all return' over all interleavings beyond the structural rules"]
ASSUMPTIONS = ["count >= 1 (asserted by fiber_barrier_init)", "the barrier is used by exactly `count` fibers (the statement's 'reused immediately by the same fibers'): with more participants than count the releasers of rounds k and k+2 can overlap on one single-consumer waiter list (hunt/H01 finding 1)"]
B = "fiber_barrier"
WAITQ = "fiber_manager_wait_in_mpsc_queue"
WAKEQ = "fiber_manager_wake_from_mpsc_queue"


def run(ctx):
    P = ctx.prog()
    c01.core_dependency(ctx, P, "core.dep", ('fiber_manager_wait_in_mpsc_queue', 'fiber_manager_wait_in_mpsc_queue_and_unlock', 'fiber_manager_wake_from_mpsc_queue'),
                        "the barrier's sleep/wake path (wait_in_mpsc_queue / wake_from_mpsc_queue)",
                        'an arrival that is never rescheduled leaves the round incomplete for ever')
    deps.depend(ctx, P, 'C15', 'queue.dep', "the barrier's waiter queues (mpsc_fifo)",
                'an arrival that the queue drops is never released', lambda x: x.rule.startswith(("mpsc.", "mpsc_fifo.")) or x.fn == "mpsc_fifo_init")
    f = P.fn("fiber_barrier_wait")
    ops = atomic_ops(f, B, "counter")
    o = ctx.ob("arrive", f, "one atomic fetch-add of 1 on `counter`; the serial path is taken exactly when (old+1) % count == 0; it returns "
               "FIBER_BARRIER_SERIAL_FIBER after waking count-1 waiters; every other arrival parks on the waiter list and returns 0",
               "`== count` works for the first round only; waking `count` waits for a waiter that never comes; waking fewer strands one")
    if len(ops) != 1 or ops[0].aop != "fetch_add" or ops[0].value.cv != 1:
        o.fail("expected one fetch_add(1) on counter, found %s" % [s.aop for s in ops], site=f.loc, construct="barrier atomic op")
        return
    op = ops[0]
    wakes, waits = f.calls(WAKEQ), f.calls(WAITQ)
    bad = None
    if not wakes or not waits:
        o.fail("wake / wait call missing", site=f.loc, construct="barrier shape")
        return
    isop = lambda n: n is op.node
    iscount = field_load("count", B)
    for count in (1, 2, 3, 5):
        for old in list(range(0, 12)) + [2 ** 32 - 2, 2 ** 32 - 1, 2 ** 32, 3 * (2 ** 32 // 3) + 2]:
            atom = atom_from([(isop, old), (iscount, count)])
            serial = (old + 1) % count == 0
            rw = reach(f, wakes, atom)
            rq = reach(f, waits, atom)
            if serial and (not rw or rq):
                bad = bad or "count=%d arrival #%d is the last of its round: wakes=%s parks=%s" % (count, old + 1, rw, rq)
            if not serial and (rw or not rq):
                bad = bad or "count=%d arrival #%d is not the last of its round: wakes=%s parks=%s" % (count, old + 1, rw, rq)
            for r in f.returns():
                if not reach(f, [r], atom):
                    continue
                rc = ret_const(f, r)
                if serial and rc != 1:
                    bad = bad or "count=%d arrival #%d (last) returns %s, not SERIAL" % (count, old + 1, rc)
                if not serial and rc != 0:
                    bad = bad or "count=%d arrival #%d (not last) returns %s" % (count, old + 1, rc)
            if serial:
                for w in wakes:
                    try:
                        n = ev(f, f.args(w)[2], atom)
                    except Unevaluable:
                        n = None
                    if n != count - 1:
                        bad = bad or "count=%d: the last arrival wakes %s waiters, expected %d" % (count, n, count - 1)
                if reach(f, ["exit"], atom, barrier=nodeset(wakes)):
                    bad = bad or "the serial path can return without waking the waiters"
    if not order_ge(op.order or "relaxed", "acq_rel"):
        bad = bad or "fetch_add order %s" % op.order
    pd = [p["did"] for p in f.params][0]
    for c in wakes + waits:
        k = list_key(P, f, f.args(c)[1])
        mine = key_mentions(k, lambda x: x[0] == "f" and x[1] == B and x[2] == "waiters" and x[3] == ("*", ("var", f.params[0]["name"], pd)))
        if not mine:
            bad = bad or "`%s` does not use this barrier's waiter list" % c.text
    if len({list_key(P, f, f.args(c)[1]) for c in wakes + waits}) != 1:
        bad = bad or "the wait path and the wake path select their waiter list by different expressions"
    o.check(bad is None, "table count {1,2,3,5} x 12 arrivals", bad, site=op.node, construct="barrier arrival")

    o = ctx.ob("arrive.width", f, "the arrival counter and the ticket taken from it are 64 bits wide", "a 32-bit arrival number wraps after 2^32 arrivals (minutes of "
               "tight looping); for a count that is not a power of two the arrival numbered 0 is then declared last of a round nobody else is in: it waits for ever, "
               "and so do the others")
    cf = P.field(B, "counter")
    okw = cf.get("bits_size") == 64
    from rules import locals_defined_by
    tick = [f.local_by_did[d] for d in locals_defined_by(f, lambda m: m is op.node) if d in f.local_by_did]
    from rules import type_info
    if tick and (type_info(tick[0]["t"]) or (0,))[0] != 64:
        okw = False
    o.check(okw, "64-bit", "counter is %s bits, ticket local is `%s`" % (cf.get("bits_size"), tick[0]["t"] if tick else "?"), site=f.loc, construct="barrier counter width")

    o = ctx.ob("counter.writers", "", "`counter` is written only by init (0) and the arrival fetch-add; `count` only by init",
               "resetting the counter between rounds races with arrivals of the next round")
    bad = None
    for fn in P.unique_functions():
        for fld in ("counter", "count"):
            for s in fn.stores_to(B, fld):
                kind = writer_kind(s)
                ok = (fn.name == "fiber_barrier_init" and kind == "assign") or (fld == "counter" and fn.name == "fiber_barrier_wait" and kind == "fetch_add")
                if not ok:
                    bad = bad or ("`%s` in %s" % (s.node.text, fn.name), s.node)
    o.check(bad is None, "writers table", "unexpected writer " + (bad[0] if bad else ""), site=bad[1] if bad else None, construct="barrier counter writer")

    # rounds: certificate of separation
    o = ctx.ob("rounds", f, "rounds are separated under immediate reuse: (a) the waiter list is selected by the arrival number, or (b) the release "
               "collects all count-1 entries before scheduling any, or (c) entries carry a round tag that is compared before release",
               "one list for all rounds + one-at-a-time release: the serial fiber of round k releases F, F re-enters round k+1 and enqueues on the "
               "same list before straggler S of round k (arrived, not yet enqueued) does; the serial fiber pops F's round-k+1 entry as its last "
               "waiter: F leaves round k+1 early and S is never released (replayed: D7)")
    qk_wait = [list_key(P, f, f.args(w)[1]) for w in waits]
    qk_wake = [list_key(P, f, f.args(w)[1]) for w in wakes]
    depends = lambda k: key_mentions(k, lambda x: x[0] == "atomic" or (x[0] == "var" and x[1] in ("new_value",)))

    def mentions_arrival(k):
        # the list expression mentions the arrival number: the ticket returned by the arrival fetch-add (a fresh load of
        # the counter is NOT the caller's ticket: other fibers may have arrived since)
        return key_mentions(k, lambda x: x[0] == "atomic" and x[1] == "fetch_add")
    cert_a = all(mentions_arrival(k) for k in qk_wait + qk_wake)
    wk = P.fn(WAKEQ)
    sc = wk.calls(("fiber_manager_schedule", "fiber_scheduler_schedule"))
    pops = wk.calls("mpsc_fifo_trypop")
    cert_b = bool(sc and pops) and all(wk.find_path(s, nodeset(pops)) is None for s in sc) and "fiber_manager_wake_from_mpsc_queue" in {c.callee for c in wakes}
    same_q = all(k == qk_wait[0] for k in qk_wait + qk_wake)
    if cert_a:
        # the selection must be constant within a round and differ between consecutive rounds
        bad = None
        from rules import is_param_load
        subs = []   # (call, evaluator(atom) -> list index)
        for c in wakes + waits:
            e = f.resolve(f.args(c)[1])
            found = False
            for n in e.walk():
                if n.k == "ArraySubscriptExpr":
                    subs.append((c, (lambda atom, ix=n.kids[1]: ev(f, ix, atom))))
                    found = True
                    break
            if not found and e.k == "CallExpr" and e.callee and P.has_fn(e.callee):
                g = P.fn(e.callee)
                rets = g.returns()
                gsub = [n for n in (g.resolve(rets[0].kids[0]).walk() if len(rets) == 1 and rets[0].kids else []) if n.k == "ArraySubscriptExpr"]
                if gsub:
                    def evaluator(atom, e=e, g=g, ix=gsub[0].kids[1]):
                        pairs = []
                        for i, p in enumerate(g.params):
                            try:
                                pairs.append((is_param_load(g, p["name"]), ev(f, f.args(e)[i], atom)))
                            except Unevaluable:
                                pass
                        ga = atom_from(pairs)
                        return ev(g, ix, lambda n: ga(n) if ga(n) is not None else atom(n))
                    subs.append((c, evaluator))
                    found = True
            if not found:
                raise AnalysisBroken("barrier round separation: list selection is not a subscript")
        for count in (1, 2, 3, 5):
            idx = {}
            for old in range(0, 4 * count + 2):
                atom = atom_from([(isop, old), (iscount, count)])
                serial = (old + 1) % count == 0
                for c, ix in subs:
                    if (c in wakes) != serial:
                        continue
                    try:
                        v = ix(atom)
                    except Unevaluable:
                        raise AnalysisBroken("barrier round separation: cannot evaluate the list index")
                    rnd = old // count
                    if rnd in idx and idx[rnd] != v:
                        bad = bad or "count=%d: arrivals of round %d use different lists (%d and %d): the last arriver looks for waiters where they are not" % (count, rnd + 1, idx[rnd], v)
                    idx.setdefault(rnd, v)
            for rnd in idx:
                if rnd + 1 in idx and idx[rnd] == idx[rnd + 1]:
                    bad = bad or "count=%d: rounds %d and %d share list %d" % (count, rnd + 1, rnd + 2, idx[rnd])
        if bad:
            o.fail(bad, site=waits[0], construct="round-indexed list selection")
        else:
            o.ok("certificate (a): waiter list `%s` is selected by the arrival number; same list within a round, different list in the next" % key_str(qk_wait[0]))
    elif cert_b:
        o.ok("certificate (b): the release loop schedules nothing until all entries are collected")
    elif same_q and not any(mentions_arrival(k) for k in qk_wait + qk_wake):
        o.fail("all rounds wait on and are released from the single list `%s`, and the shared waker schedules inside its pop loop" % key_str(qk_wait[0]),
               site=waits[0], construct="single waiter list, incremental release")
    elif not same_q:
        o.fail("the wait path uses `%s` but the wake path uses `%s`" % (key_str(qk_wait[0]), key_str(qk_wake[0])), site=wakes[0],
               construct="wait and wake lists differ")
    else:
        raise AnalysisBroken("barrier round separation: shape is neither the defective one nor a recognised certificate")
    check_init(ctx, P, "fiber_barrier_init", [("fiber_barrier", "counter", 0), ("fiber_barrier", "count", "param:count")], calls=[("mpsc_fifo_init", 1)])

def subst(key, mapping):
    if not isinstance(key, tuple):
        return key
    if key[0] == "var" and key[2] in mapping:
        return mapping[key[2]]
    return tuple(subst(x, mapping) if isinstance(x, tuple) else x for x in key)


def list_key(P, f, arg):
    """access path of the waiter list; a call to a library helper is replaced by the helper's returned path with the
    arguments substituted (one level), so that moving the selection into a helper does not change the verdict"""
    k = f.key(arg, resolve=True)
    if k[0] == "call" and P.has_fn(k[1]):
        g = P.fn(k[1])
        rets = g.returns()
        if len(rets) == 1 and rets[0].kids:
            rk = g.key(rets[0].kids[0], resolve=True)
            mapping = {p["did"]: k[2 + i] for i, p in enumerate(g.params) if 2 + i < len(k)}
            return subst(rk, mapping)
    return k


def thorough(ctx):
    return {}
