// factgen: dump per-function AST + CFG facts of one translation unit as JSON.
//
// usage: factgen <out.json> "<func-root>[:...]|<record-root>[:...]" <file.c> -- <compiler flags...>
//
// Only functions / records / globals whose (expansion) file lies under one of the
// root prefixes are emitted.  Built against clang 14 libTooling.
#include "clang/AST/ASTConsumer.h"
#include "clang/AST/ASTContext.h"
#include "clang/AST/Attr.h"
#include "clang/AST/Expr.h"
#include "clang/AST/RecordLayout.h"
#include "clang/AST/Stmt.h"
#include "clang/Analysis/CFG.h"
#include "clang/Basic/SourceManager.h"
#include "clang/Frontend/CompilerInstance.h"
#include "clang/Frontend/FrontendAction.h"
#include "clang/Lex/Lexer.h"
#include "clang/Tooling/CompilationDatabase.h"
#include "clang/Tooling/Tooling.h"
#include "llvm/Support/JSON.h"
#include "llvm/Support/raw_ostream.h"

#include <map>
#include <string>
#include <vector>

using namespace clang;
namespace json = llvm::json;

static std::string g_out;
static std::vector<std::string> g_roots;     // functions / globals
static std::vector<std::string> g_recroots;  // records
static bool g_had_error = false;

namespace {

static bool underRoot(llvm::StringRef f) {
  for (auto& r : g_roots)
    if (f.startswith(r)) return true;
  return false;
}
static bool underRecRoot(llvm::StringRef f) {
  for (auto& r : g_recroots)
    if (f.startswith(r)) return true;
  return false;
}

static std::string recName(const RecordDecl* RD) {
  if (!RD) return "?";
  if (RD->getIdentifier()) return RD->getNameAsString();
  if (auto* TD = RD->getTypedefNameForAnonDecl()) return TD->getNameAsString();
  // anonymous: find the parent record and the field that has this type
  if (auto* P = dyn_cast_or_null<RecordDecl>(RD->getDeclContext())) {
    for (auto* F : P->fields()) {
      QualType T = F->getType();
      if (auto* RT = T->getAs<RecordType>())
        if (RT->getDecl() == RD) return recName(P) + "::" + F->getNameAsString();
    }
    return recName(P) + "::(anon)";
  }
  return "(anon)";
}

static const char* orderName(int64_t v) {
  switch (v) {
    case 0: return "relaxed";
    case 1: return "consume";
    case 2: return "acquire";
    case 3: return "release";
    case 4: return "acq_rel";
    case 5: return "seq_cst";
  }
  return "?";
}

static const char* atomicOpName(AtomicExpr::AtomicOp op) {
  switch (op) {
#define BUILTIN(ID, TYPE, ATTRS)
#define ATOMIC_BUILTIN(ID, TYPE, ATTRS) \
  case AtomicExpr::AO##ID:              \
    return #ID;
#include "clang/Basic/Builtins.def"
  }
  return "?";
}

class FnDumper {
 public:
  FnDumper(ASTContext& C) : Ctx(C), SM(C.getSourceManager()) {}

  ASTContext& Ctx;
  SourceManager& SM;
  std::map<const Stmt*, int> ids;
  std::map<const Decl*, int> declIds;
  json::Array nodes;
  json::Array locals;

  int declId(const Decl* D) {
    auto it = declIds.find(D);
    if (it != declIds.end()) return it->second;
    int id = (int)declIds.size() + 1;
    declIds[D] = id;
    return id;
  }

  std::string fileOf(SourceLocation L) {
    return SM.getFilename(SM.getExpansionLoc(L)).str();
  }

  void macroInfo(SourceLocation L, json::Object& o) {
    if (!L.isMacroID()) return;
    std::string inner = Lexer::getImmediateMacroName(L, SM, Ctx.getLangOpts()).str();
    o["m"] = inner;
    std::string top = inner;
    SourceLocation cur = L;
    int guard = 0;
    while (cur.isMacroID() && guard++ < 32) {
      top = Lexer::getImmediateMacroName(cur, SM, Ctx.getLangOpts()).str();
      cur = SM.getImmediateMacroCallerLoc(cur);
    }
    if (top != inner) o["mtop"] = top;
  }

  bool constValue(const Expr* E, int64_t& out) {
    if (!E || E->isValueDependent()) return false;
    QualType T = E->getType();
    if (T.isNull()) return false;
    if (!(T->isIntegralOrEnumerationType() || T->isPointerType())) return false;
    if (!E->isPRValue()) return false;
    Expr::EvalResult R;
    if (!E->EvaluateAsRValue(R, Ctx)) return false;
    if (R.HasSideEffects) return false;
    if (R.Val.isInt()) {
      out = R.Val.getInt().getExtValue();
      return true;
    }
    if (R.Val.isLValue() && !R.Val.getLValueBase() && !R.Val.hasLValuePath()) {
      out = R.Val.getLValueOffset().getQuantity();
      return true;
    }
    if (R.Val.isLValue() && !R.Val.getLValueBase()) {
      out = R.Val.getLValueOffset().getQuantity();
      return true;
    }
    return false;
  }

  std::string pretty(const Stmt* S) {
    std::string s;
    llvm::raw_string_ostream os(s);
    S->printPretty(os, nullptr, PrintingPolicy(Ctx.getLangOpts()));
    os.flush();
    for (auto& c : s)
      if (c == '\n' || c == '\t') c = ' ';
    // squeeze spaces
    std::string r;
    bool sp = false;
    for (char c : s) {
      if (c == ' ') {
        if (!sp) r.push_back(c);
        sp = true;
      } else {
        r.push_back(c);
        sp = false;
      }
    }
    if (r.size() > 160) r = r.substr(0, 157) + "...";
    return r;
  }

  int visit(const Stmt* S) {
    if (!S) return -1;
    auto it = ids.find(S);
    if (it != ids.end()) return it->second;
    int id = (int)nodes.size();
    ids[S] = id;
    nodes.push_back(nullptr);
    json::Object o;
    o["k"] = S->getStmtClassName();
    SourceLocation B = S->getBeginLoc();
    o["l"] = (int64_t)SM.getExpansionLineNumber(B);
    o["col"] = (int64_t)SM.getExpansionColumnNumber(B);
    macroInfo(B, o);

    if (auto* E = dyn_cast<Expr>(S)) {
      o["t"] = E->getType().getAsString();
      if (E->getType()->isAtomicType()) o["tatomic"] = true;
      if (E->getType().isVolatileQualified()) o["tvolatile"] = true;
      int64_t cv;
      if (constValue(E, cv)) o["cv"] = cv;
      if (E->isLValue()) o["lv"] = true;
    }

    json::Array ch;
    bool childrenDone = false;

    if (auto* DR = dyn_cast<DeclRefExpr>(S)) {
      const ValueDecl* D = DR->getDecl();
      o["name"] = D->getNameAsString();
      if (auto* VD = dyn_cast<VarDecl>(D)) {
        if (isa<ParmVarDecl>(VD))
          o["dk"] = "param";
        else if (VD->isLocalVarDecl() && !VD->isStaticLocal())
          o["dk"] = "local";
        else {
          o["dk"] = "global";
          if (VD->getTLSKind() != VarDecl::TLS_None) o["tls"] = true;
          if (VD->getStorageClass() == SC_Static) {
            o["gstatic"] = true;
            o["gfile"] = fileOf(VD->getLocation());
          }
        }
        if (VD->hasLocalStorage() || isa<ParmVarDecl>(VD)) o["did"] = declId(VD);
      } else if (isa<FunctionDecl>(D)) {
        o["dk"] = "func";
      } else if (isa<EnumConstantDecl>(D)) {
        o["dk"] = "enum";
      } else {
        o["dk"] = "other";
      }
    } else if (auto* ME = dyn_cast<MemberExpr>(S)) {
      const ValueDecl* MD = ME->getMemberDecl();
      o["field"] = MD->getNameAsString();
      o["arrow"] = ME->isArrow();
      if (auto* FD = dyn_cast<FieldDecl>(MD)) {
        o["rec"] = recName(FD->getParent());
        if (FD->getType()->isAtomicType()) o["fatomic"] = true;
        if (FD->getType().isVolatileQualified()) o["fvolatile"] = true;
        if (FD->isBitField()) o["bits"] = (int64_t)FD->getBitWidthValue(Ctx);
      }
    } else if (auto* UO = dyn_cast<UnaryOperator>(S)) {
      o["op"] = UnaryOperator::getOpcodeStr(UO->getOpcode()).str();
      if (UO->isPostfix()) o["postfix"] = true;
    } else if (auto* BO = dyn_cast<BinaryOperator>(S)) {
      o["op"] = BO->getOpcodeStr().str();
    } else if (auto* CE = dyn_cast<CastExpr>(S)) {
      o["ck"] = CE->getCastKindName();
    } else if (auto* IL = dyn_cast<IntegerLiteral>(S)) {
      o["v"] = (int64_t)IL->getValue().getLimitedValue();
    } else if (auto* SL = dyn_cast<StringLiteral>(S)) {
      if (SL->isAscii()) o["str"] = SL->getString().str();
    } else if (auto* UE = dyn_cast<UnaryExprOrTypeTraitExpr>(S)) {
      o["trait"] = (int64_t)UE->getKind();
    } else if (auto* DS = dyn_cast<DeclStmt>(S)) {
      json::Array ds;
      for (auto* D : DS->decls()) {
        if (auto* VD = dyn_cast<VarDecl>(D)) {
          json::Object d;
          d["name"] = VD->getNameAsString();
          d["did"] = declId(VD);
          d["t"] = VD->getType().getAsString();
          if (VD->getType().isConstQualified()) d["const"] = true;
          if (VD->isStaticLocal()) d["static"] = true;
          if (VD->hasInit()) {
            int c = visit(VD->getInit());
            d["init"] = c;
            ch.push_back(c);
          }
          json::Object l;
          l["name"] = VD->getNameAsString();
          l["did"] = declId(VD);
          l["t"] = VD->getType().getAsString();
          l["line"] = (int64_t)SM.getExpansionLineNumber(VD->getLocation());
          if (VD->getType().isConstQualified()) l["const"] = true;
          if (auto* RT = VD->getType()->getAs<RecordType>())
            l["rec"] = recName(RT->getDecl());
          locals.push_back(std::move(l));
          ds.push_back(std::move(d));
        }
      }
      o["decls"] = std::move(ds);
      childrenDone = true;
    } else if (auto* AE = dyn_cast<AtomicExpr>(S)) {
      o["aop"] = atomicOpName(AE->getOp());
      int64_t v;
      o["ptr"] = visit(AE->getPtr());
      ch.push_back(visit(AE->getPtr()));
      if (constValue(AE->getOrder(), v)) o["order"] = orderName(v);
      else o["order"] = "?";
      ch.push_back(visit(AE->getOrder()));
      unsigned n = AE->getNumSubExprs();
      // layout of sub-exprs: ptr, order, [val1, [orderfail, val2, [weak]]]
      if (n >= 3) {
        o["val1"] = visit(AE->getVal1());
        ch.push_back(visit(AE->getVal1()));
      }
      if (AE->isCmpXChg()) {
        if (constValue(AE->getOrderFail(), v)) o["order_fail"] = orderName(v);
        ch.push_back(visit(AE->getOrderFail()));
        o["val2"] = visit(AE->getVal2());
        ch.push_back(visit(AE->getVal2()));
        if (n >= 6) ch.push_back(visit(AE->getWeak()));
      } else if (n >= 5) {
        // e.g. __atomic_exchange has val2
      }
      if (AE->isVolatile()) o["avolatile"] = true;
      childrenDone = true;
    } else if (auto* CL = dyn_cast<CallExpr>(S)) {
      if (const FunctionDecl* FD = CL->getDirectCallee()) {
        o["callee"] = FD->getNameAsString();
        if (FD->getBuiltinID()) o["builtin"] = true;
        if (FD->isNoReturn() || FD->hasAttr<NoReturnAttr>()) o["noreturn"] = true;
      } else {
        o["indirect"] = true;
      }
      o["nargs"] = (int64_t)CL->getNumArgs();
    } else if (auto* AS = dyn_cast<GCCAsmStmt>(S)) {
      o["asm"] = AS->getAsmString()->getString().str();
      o["asmvolatile"] = AS->isVolatile();
      json::Array outs, ins, clob;
      for (unsigned i = 0; i < AS->getNumOutputs(); ++i) {
        json::Object x;
        x["c"] = AS->getOutputConstraint(i).str();
        x["name"] = AS->getOutputName(i).str();
        int c = visit(AS->getOutputExpr(i));
        x["e"] = c;
        ch.push_back(c);
        outs.push_back(std::move(x));
      }
      for (unsigned i = 0; i < AS->getNumInputs(); ++i) {
        json::Object x;
        x["c"] = AS->getInputConstraint(i).str();
        x["name"] = AS->getInputName(i).str();
        int c = visit(AS->getInputExpr(i));
        x["e"] = c;
        ch.push_back(c);
        ins.push_back(std::move(x));
      }
      for (unsigned i = 0; i < AS->getNumClobbers(); ++i)
        clob.push_back(AS->getClobber(i).str());
      o["outs"] = std::move(outs);
      o["ins"] = std::move(ins);
      o["clobbers"] = std::move(clob);
      childrenDone = true;
    }

    if (!childrenDone) {
      for (const Stmt* C : S->children()) {
        if (!C) {
          ch.push_back(-1);
          continue;
        }
        ch.push_back(visit(C));
      }
    }
    o["c"] = std::move(ch);
    if (isa<Expr>(S) || isa<ReturnStmt>(S) || isa<DeclStmt>(S) || isa<GCCAsmStmt>(S))
      o["src"] = pretty(S);
    nodes[id] = std::move(o);
    return id;
  }
};

class Consumer : public ASTConsumer {
 public:
  json::Array functions;
  json::Array records;
  json::Array globals;
  json::Array fundecls;
  std::set<const RecordDecl*> seenRecs;

  void dumpRecord(ASTContext& Ctx, const RecordDecl* RD) {
    RD = RD->getDefinition();
    if (!RD || RD->isInvalidDecl() || seenRecs.count(RD)) return;
    seenRecs.insert(RD);
    SourceManager& SM = Ctx.getSourceManager();
    std::string file = SM.getFilename(SM.getExpansionLoc(RD->getLocation())).str();
    if (!underRecRoot(file)) return;
    const ASTRecordLayout& L = Ctx.getASTRecordLayout(RD);
    json::Object o;
    o["name"] = recName(RD);
    o["file"] = file;
    o["line"] = (int64_t)SM.getExpansionLineNumber(RD->getLocation());
    o["union"] = RD->isUnion();
    o["size"] = (int64_t)L.getSize().getQuantity();
    o["align"] = (int64_t)L.getAlignment().getQuantity();
    json::Array fs;
    unsigned i = 0;
    for (auto* F : RD->fields()) {
      json::Object f;
      f["name"] = F->getNameAsString();
      f["t"] = F->getType().getAsString();
      f["off_bits"] = (int64_t)L.getFieldOffset(i);
      if (F->isBitField())
        f["bits"] = (int64_t)F->getBitWidthValue(Ctx);
      else if (!F->getType()->isIncompleteType())
        f["bits_size"] = (int64_t)Ctx.getTypeSize(F->getType());
      if (F->getType()->isAtomicType()) f["atomic"] = true;
      if (F->getType().isVolatileQualified()) f["volatile"] = true;
      if (auto* RT = F->getType()->getAs<RecordType>()) {
        f["rec"] = recName(RT->getDecl());
        dumpRecord(Ctx, RT->getDecl());
      }
      fs.push_back(std::move(f));
      ++i;
    }
    o["fields"] = std::move(fs);
    records.push_back(std::move(o));
  }

  void dumpFunction(ASTContext& Ctx, const FunctionDecl* FD) {
    SourceManager& SM = Ctx.getSourceManager();
    std::string file = SM.getFilename(SM.getExpansionLoc(FD->getLocation())).str();
    if (!underRoot(file)) return;
    json::Object f;
    f["name"] = FD->getNameAsString();
    f["file"] = file;
    f["line"] = (int64_t)SM.getExpansionLineNumber(FD->getBeginLoc());
    f["endline"] = (int64_t)SM.getExpansionLineNumber(FD->getEndLoc());
    f["static"] = FD->getStorageClass() == SC_Static;
    f["inline"] = FD->isInlineSpecified();
    f["ret"] = FD->getReturnType().getAsString();
    f["variadic"] = FD->isVariadic();
    if (FD->hasAttr<NoSplitStackAttr>()) f["no_split_stack"] = true;
    if (FD->hasAttr<NoInlineAttr>()) f["noinline"] = true;

    FnDumper D(Ctx);
    json::Array params;
    for (auto* P : FD->parameters()) {
      json::Object p;
      p["name"] = P->getNameAsString();
      p["t"] = P->getType().getAsString();
      p["did"] = D.declId(P);
      params.push_back(std::move(p));
    }
    f["params"] = std::move(params);
    int body = D.visit(FD->getBody());
    f["body"] = body;

    CFG::BuildOptions BO;
    BO.setAllAlwaysAdd();
    BO.PruneTriviallyFalseEdges = true;
    std::unique_ptr<CFG> cfg = CFG::buildCFG(FD, FD->getBody(), &Ctx, BO);
    if (!cfg) {
      llvm::errs() << "factgen: no CFG for " << FD->getNameAsString() << "\n";
      g_had_error = true;
      return;
    }
    json::Object c;
    c["entry"] = (int64_t)cfg->getEntry().getBlockID();
    c["exit"] = (int64_t)cfg->getExit().getBlockID();
    json::Array blocks;
    for (const CFGBlock* B : *cfg) {
      json::Object b;
      b["id"] = (int64_t)B->getBlockID();
      json::Array el;
      for (const CFGElement& E : *B) {
        if (auto S = E.getAs<CFGStmt>()) {
          auto it = D.ids.find(S->getStmt());
          if (it != D.ids.end()) el.push_back(it->second);
          else {
            // statements synthesised by the CFG builder (e.g. DeclStmt splitting)
            int nid = D.visit(S->getStmt());
            el.push_back(nid);
          }
        }
      }
      b["elems"] = std::move(el);
      json::Array succs;
      for (auto I = B->succ_begin(); I != B->succ_end(); ++I) {
        json::Object s;
        const CFGBlock* R = I->getReachableBlock();
        const CFGBlock* P = R ? R : I->getPossiblyUnreachableBlock();
        if (!P) {
          succs.push_back(nullptr);
          continue;
        }
        s["b"] = (int64_t)P->getBlockID();
        s["r"] = R != nullptr;
        succs.push_back(std::move(s));
      }
      b["succs"] = std::move(succs);
      if (const Stmt* T = B->getTerminatorStmt()) {
        auto it = D.ids.find(T);
        b["term"] = it != D.ids.end() ? it->second : -1;
        b["termk"] = T->getStmtClassName();
      }
      if (const Stmt* TC = B->getTerminatorCondition(false)) {
        auto it = D.ids.find(TC);
        b["cond"] = it != D.ids.end() ? it->second : -1;
      }
      if (const Stmt* LS = B->getLoopTarget()) {
        auto it = D.ids.find(LS);
        if (it != D.ids.end()) b["looptarget"] = it->second;
      }
      if (B->hasNoReturnElement()) b["noreturn"] = true;
      if (const Stmt* L = B->getLabel()) {
        // switch labels: `case K:` (also the GNU range form) and `default:`; stacked labels (case 1: case 2:) nest
        json::Array cases;
        const Stmt* cur = L;
        bool isdef = false;
        while (cur) {
          if (auto* CS = dyn_cast<CaseStmt>(cur)) {
            int64_t lo, hi;
            if (D.constValue(CS->getLHS(), lo)) {
              hi = lo;
              if (CS->getRHS()) D.constValue(CS->getRHS(), hi);
              json::Array pr;
              pr.push_back(lo);
              pr.push_back(hi);
              cases.push_back(std::move(pr));
            }
            cur = CS->getSubStmt();
            if (!(cur && (isa<CaseStmt>(cur) || isa<DefaultStmt>(cur)))) break;
          } else if (auto* DS = dyn_cast<DefaultStmt>(cur)) {
            isdef = true;
            cur = DS->getSubStmt();
            if (!(cur && (isa<CaseStmt>(cur) || isa<DefaultStmt>(cur)))) break;
          } else {
            break;
          }
        }
        if (!cases.empty()) b["cases"] = std::move(cases);
        if (isdef) b["default"] = true;
      }
      blocks.push_back(std::move(b));
    }
    c["blocks"] = std::move(blocks);
    f["cfg"] = std::move(c);
    f["nodes"] = std::move(D.nodes);
    f["locals"] = std::move(D.locals);
    functions.push_back(std::move(f));
  }

  void HandleTranslationUnit(ASTContext& Ctx) override {
    SourceManager& SM = Ctx.getSourceManager();
    if (Ctx.getDiagnostics().hasErrorOccurred()) {
      g_had_error = true;
    }
    for (Decl* D : Ctx.getTranslationUnitDecl()->decls()) {
      if (auto* FD = dyn_cast<FunctionDecl>(D)) {
        if (FD->doesThisDeclarationHaveABody()) dumpFunction(Ctx, FD);
        else {
          std::string file = SM.getFilename(SM.getExpansionLoc(FD->getLocation())).str();
          if (underRoot(file)) {
            json::Object o;
            o["name"] = FD->getNameAsString();
            o["file"] = file;
            o["line"] = (int64_t)SM.getExpansionLineNumber(FD->getLocation());
            fundecls.push_back(std::move(o));
          }
        }
      } else if (auto* RD = dyn_cast<RecordDecl>(D)) {
        if (RD->isCompleteDefinition()) dumpRecord(Ctx, RD);
      } else if (auto* TD = dyn_cast<TypedefNameDecl>(D)) {
        if (auto* RT = TD->getUnderlyingType()->getAs<RecordType>())
          dumpRecord(Ctx, RT->getDecl());
      } else if (auto* VD = dyn_cast<VarDecl>(D)) {
        std::string file = SM.getFilename(SM.getExpansionLoc(VD->getLocation())).str();
        if (!underRoot(file)) continue;
        json::Object o;
        o["name"] = VD->getNameAsString();
        o["file"] = file;
        o["line"] = (int64_t)SM.getExpansionLineNumber(VD->getLocation());
        o["t"] = VD->getType().getAsString();
        o["static"] = VD->getStorageClass() == SC_Static;
        o["tls"] = VD->getTLSKind() != VarDecl::TLS_None;
        o["def"] = VD->isThisDeclarationADefinition() != VarDecl::DeclarationOnly;
        if (VD->getType()->isAtomicType()) o["atomic"] = true;
        if (VD->getType().isVolatileQualified()) o["volatile"] = true;
        globals.push_back(std::move(o));
      }
    }
  }
};

class Action : public ASTFrontendAction {
 public:
  std::string mainFile;
  std::unique_ptr<ASTConsumer> CreateASTConsumer(CompilerInstance& CI,
                                                 llvm::StringRef InFile) override {
    mainFile = InFile.str();
    auto c = std::make_unique<Consumer>();
    consumer = c.get();
    return c;
  }
  void EndSourceFileAction() override {
    if (!consumer) return;
    if (getCompilerInstance().getDiagnostics().hasErrorOccurred()) g_had_error = true;
    json::Object top;
    top["unit"] = mainFile;
    top["functions"] = std::move(consumer->functions);
    top["records"] = std::move(consumer->records);
    top["globals"] = std::move(consumer->globals);
    top["fundecls"] = std::move(consumer->fundecls);
    std::error_code EC;
    llvm::raw_fd_ostream os(g_out, EC);
    if (EC) {
      llvm::errs() << "factgen: cannot write " << g_out << "\n";
      g_had_error = true;
      return;
    }
    os << json::Value(std::move(top));
    os << "\n";
  }
  Consumer* consumer = nullptr;
};

class Factory : public tooling::FrontendActionFactory {
 public:
  std::unique_ptr<FrontendAction> create() override { return std::make_unique<Action>(); }
};

}  // namespace

int main(int argc, const char** argv) {
  if (argc < 5) {
    llvm::errs() << "usage: factgen <out.json> <roots> <file.c> -- <flags...>\n";
    return 2;
  }
  g_out = argv[1];
  {
    // "<func roots, ':'-separated>|<record roots, ':'-separated>"
    std::string all = argv[2];
    size_t bar = all.find('|');
    std::string parts[2] = {all.substr(0, bar), bar == std::string::npos ? all : all.substr(bar + 1)};
    for (int k = 0; k < 2; ++k) {
      const std::string& r = parts[k];
      size_t p = 0;
      while (p <= r.size()) {
        size_t q = r.find(':', p);
        if (q == std::string::npos) q = r.size();
        if (q > p) (k == 0 ? g_roots : g_recroots).push_back(r.substr(p, q - p));
        p = q + 1;
      }
    }
  }
  std::string file = argv[3];
  int dd = 4;
  if (std::string(argv[dd]) != "--") {
    llvm::errs() << "factgen: expected --\n";
    return 2;
  }
  std::vector<std::string> flags;
  for (int i = dd + 1; i < argc; ++i) flags.push_back(argv[i]);
  tooling::FixedCompilationDatabase db(".", flags);
  tooling::ClangTool tool(db, {file});
  Factory f;
  int rc = tool.run(&f);
  if (rc != 0 || g_had_error) return 1;
  return 0;
}
