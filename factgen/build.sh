#!/bin/sh
# builds /verif/bin/factgen from factgen/factgen.cc (clang 14 libTooling), offline
set -e
cd "$(dirname "$0")/.."
mkdir -p bin
if [ bin/factgen -nt factgen/factgen.cc ]; then exit 0; fi
clang++ $(llvm-config-14 --cxxflags) -fno-rtti -O1 -std=c++17 factgen/factgen.cc -o bin/factgen.tmp \
  /usr/lib/llvm-14/lib/libclang-cpp.so.14 /usr/lib/llvm-14/lib/libLLVM-14.so
mv bin/factgen.tmp bin/factgen
