#!/usr/bin/env python3
import os, sys
sys.path.insert(0, os.path.join(os.path.dirname(os.path.dirname(os.path.abspath(__file__))), "lib"))
import check
sys.exit(check.main())
