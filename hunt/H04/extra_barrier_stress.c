#include <stdio.h>
#include <stdlib.h>
#include <stdatomic.h>
#include <pthread.h>
#include <unistd.h>
#include "fiber_manager.h"
#include "fiber_barrier.h"
#define ROUNDS 20000
static fiber_barrier_t bar; static int COUNT;
static _Atomic int arrivals[ROUNDS], serial[ROUNDS]; static _Atomic int bad;
static void* fn(void* p) {
  unsigned seed = (unsigned)(long)p;
  for (int k = 0; k < ROUNDS; k++) {
    if (rand_r(&seed) % 4 == 0) fiber_yield();
    arrivals[k]++;
    int r = fiber_barrier_wait(&bar);
    if (arrivals[k] != COUNT) { bad++; printf("early pass round %d: %d\n", k, arrivals[k]); }
    if (r == FIBER_BARRIER_SERIAL_FIBER) serial[k]++;
  }
  return 0;
}
static void* watchdog(void* p) { sleep(100); printf("WATCHDOG hang\n"); _exit(3); }
int main(int argc, char** argv) {
  setvbuf(stdout,0,_IONBF,0);
  int nt = atoi(argv[1]); COUNT = atoi(argv[2]);
  pthread_t w; pthread_create(&w, 0, watchdog, 0);
  fiber_manager_init(nt);
  fiber_barrier_init(&bar, COUNT);
  fiber_t* f[COUNT];
  for (int i = 1; i < COUNT; i++) f[i] = fiber_create(20000, fn, (void*)(long)i);
  fn((void*)77);
  for (int i = 1; i < COUNT; i++) fiber_join(f[i], 0);
  for (int k = 0; k < ROUNDS; k++) if (serial[k] != 1) { bad++; printf("serial[%d]=%d\n", k, serial[k]); }
  printf("nt=%d count=%d bad=%d\n", nt, COUNT, bad);
  return bad != 0;
}
