/*
 * demo_1: fiber_rwlock reader_count is a 21-bit field that silently wraps.
 *
 * 64 reader fibers share the lock (legal: "any number of readers may share
 * it"), each holding 32768 read locks, one of them one fewer: 2^21-1 read
 * holds in total.  At that point a trywrlock correctly fails.  Then ONE more
 * reader enters (tryrdlock, the 2^21-th concurrent read hold).  The library
 * grants it, reader_count wraps to 0, the whole state word becomes 0 ("free")
 * and a writer is admitted although 2^21 read holds (64 fibers) are still
 * outstanding -> writer and readers hold the lock at the same time.
 *
 * exit 0: property held (the extra reader was refused / the writer refused)
 * exit 1: violation demonstrated
 */
#include <stdatomic.h>
#include <stdio.h>
#include <stdlib.h>

#include "fiber_manager.h"
#include "fiber_rwlock.h"

#define NREADERS 64
#define TOTAL (1L << 21) /* 2097152 */
#define PER (TOTAL / NREADERS)

static fiber_rwlock_t rw;
static _Atomic long read_holds;    /* read locks granted and not yet released */
static _Atomic int readers_parked; /* reader fibers that took all their locks */
static _Atomic int release_readers;
static _Atomic int writer_result = -1;
static _Atomic long holds_seen_by_writer = -1;

static void* reader(void* p) {
  const long id = (long)p;
  const long mine = (id == 0) ? PER - 1 : PER;
  long i;
  for (i = 0; i < mine; ++i) {
    fiber_rwlock_rdlock(&rw); /* no writer anywhere: granted immediately */
    atomic_fetch_add(&read_holds, 1);
  }
  atomic_fetch_add(&readers_parked, 1);
  while (!atomic_load(&release_readers)) {
    fiber_yield(); /* keep holding the read locks */
  }
  for (i = 0; i < mine; ++i) {
    atomic_fetch_sub(&read_holds, 1);
    fiber_rwlock_rdunlock(&rw);
  }
  return NULL;
}

static void* writer(void* p) {
  (void)p;
  const int got = fiber_rwlock_trywrlock(&rw);
  if (got) {
    /* we are "the only holder" now - look at the readers */
    atomic_store(&holds_seen_by_writer, atomic_load(&read_holds));
  }
  atomic_store(&writer_result, got);
  return NULL;
}

int main(void) {
  setvbuf(stdout, NULL, _IONBF, 0);
  fiber_manager_init(1);
  fiber_rwlock_init(&rw);

  fiber_t* r[NREADERS];
  long i;
  for (i = 0; i < NREADERS; ++i) {
    r[i] = fiber_create(32768, &reader, (void*)i);
  }
  while (atomic_load(&readers_parked) < NREADERS) {
    fiber_yield();
  }
  printf("%ld read locks held by %d fibers; state: write_locked=%u "
         "reader_count=%u waiting_readers=%u waiting_writers=%u\n",
         atomic_load(&read_holds), NREADERS, rw.state.state.write_locked,
         rw.state.state.reader_count, rw.state.state.waiting_readers,
         rw.state.state.waiting_writers);

  /* control: with 2^21-1 read holds a writer is (correctly) refused */
  if (fiber_rwlock_trywrlock(&rw)) {
    printf("VIOLATION (unexpected, control step): trywrlock succeeded with "
           "%ld read holds\n", atomic_load(&read_holds));
    return 1;
  }
  printf("control: trywrlock refused while 2^21-1 read locks are held - ok\n");

  /* the 2^21-th concurrent reader: main itself, through the try variant */
  const int extra = fiber_rwlock_tryrdlock(&rw);
  if (extra) {
    atomic_fetch_add(&read_holds, 1);
  }
  printf("2^21-th reader: tryrdlock returned %d; state: write_locked=%u "
         "reader_count=%u blob=0x%llx, read locks really held: %ld\n",
         extra, rw.state.state.write_locked, rw.state.state.reader_count,
         (unsigned long long)rw.state.blob, atomic_load(&read_holds));

  /* now a writer comes */
  fiber_t* w = fiber_create(32768, &writer, NULL);
  fiber_join(w, NULL);

  int rc = 0;
  if (atomic_load(&writer_result) == 1) {
    printf("VIOLATION: trywrlock SUCCEEDED: a writer holds the lock while "
           "%ld read locks are held by %d reader fibers\n",
           atomic_load(&holds_seen_by_writer), NREADERS + 1);
    rc = 1;
  } else {
    printf("writer refused while readers hold the lock - property held\n");
  }
  /* do not try to unwind the corrupted lock state; exit right away */
  fflush(stdout);
  _Exit(rc);
}
