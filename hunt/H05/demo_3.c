/*
 * demo_3: fiber_rwlock waiting_writers (and waiting_readers) are 21-bit
 * fields that silently wrap, so 2^21 blocked fibers are forgotten.
 *
 * One kernel thread.  main holds the write lock.  2^21 = 2097152 fibers call
 * fiber_rwlock_wrlock() and block (each is counted in waiting_writers and
 * enqueued in write_waiters).  The 2^21-th increment wraps waiting_writers to
 * 0.  main then calls fiber_rwlock_wrunlock(): it sees "no waiters", stores
 * state 0 and wakes nobody.  The lock is now free (a trywrlock succeeds) while
 * 2097152 fibers stay blocked in wrlock for ever.
 *
 * Needs a library built with -DFIBER_STACK_STRATEGY=malloc (2M split stacks
 * would exceed vm.max_map_count) and about 9 GB of memory.
 *
 * exit 0: property held (all writers were admitted one after the other)
 * exit 1: violation demonstrated
 */
#include <stdatomic.h>
#include <stdio.h>
#include <stdlib.h>

#include "fiber_manager.h"
#include "fiber_rwlock.h"

#define STACK 4096

static fiber_rwlock_t rw;
static _Atomic long entered, acquired;

static void* writer(void* p) {
  (void)p;
  atomic_fetch_add(&entered, 1);
  fiber_rwlock_wrlock(&rw);
  atomic_fetch_add(&acquired, 1);
  fiber_rwlock_wrunlock(&rw);
  return NULL;
}

int main(int argc, char** argv) {
  const long n = argc > 1 ? atol(argv[1]) : (1L << 21);
  setvbuf(stdout, NULL, _IONBF, 0);
  fiber_manager_init(1);
  fiber_rwlock_init(&rw);
  fiber_rwlock_wrlock(&rw); /* main is the writer */

  long i;
  for (i = 0; i < n; ++i) {
    fiber_t* const f = fiber_create(STACK, &writer, NULL);
    if (!f) {
      printf("INCONCLUSIVE: could not create fiber %ld (out of memory?)\n", i);
      _Exit(0);
    }
    fiber_detach(f);
  }
  /* one kernel thread: a writer fiber runs until it blocks inside wrlock, so
     when main runs again with entered == n, all n fibers are blocked */
  while (atomic_load(&entered) < n) {
    fiber_yield();
  }
  for (i = 0; i < 10; ++i) {
    fiber_yield();
  }
  printf("%ld fibers are blocked in fiber_rwlock_wrlock(); state: "
         "write_locked=%u waiting_writers=%u\n",
         atomic_load(&entered), rw.state.state.write_locked,
         rw.state.state.waiting_writers);

  fiber_rwlock_wrunlock(&rw);
  const unsigned long long blob_after_unlock = rw.state.blob;
  printf("main called wrunlock; state blob=0x%llx\n", blob_after_unlock);

  /* give the waiters every chance to run */
  long last = -1;
  int idle = 0;
  while (atomic_load(&acquired) < n && idle < 10000) {
    fiber_yield();
    const long a = atomic_load(&acquired);
    idle = (a == last) ? idle + 1 : 0;
    last = a;
  }
  const long a = atomic_load(&acquired);
  printf("writers admitted after the unlock: %ld of %ld\n", a, n);
  if (a == n) {
    printf("every blocked writer was admitted - property held\n");
    _Exit(0);
  }
  const int free_now = fiber_rwlock_trywrlock(&rw);
  printf("VIOLATION: %ld fibers stay blocked in wrlock while nobody holds the "
         "lock (state after the unlock was 0x%llx; a trywrlock by main now "
         "returned %d)\n",
         n - a, blob_after_unlock, free_now);
  _Exit(1);
}
