#!/bin/bash
# usage: run_demo_3.sh <path-to-library-source-tree>
# exit 0: property held; non-zero: property violated (or the demo could not run)
SRC="${1:?usage: $0 <path-to-library-source-tree>}"
SRC="$(cd "$SRC" && pwd)" || exit 2
HERE="$(cd "$(dirname "$0")" && pwd)"
TMP="$(mktemp -d /tmp/hunt-H06-demo3.XXXXXX)" || exit 2
trap 'rm -rf "$TMP"' EXIT
cmake -G Ninja -S "$SRC" -B "$TMP/b" -DCMAKE_BUILD_TYPE=RelWithDebInfo \
  -DFIBER_RUN_TESTS_WITH_BUILD=OFF >"$TMP/cmake.log" 2>&1 &&
  cmake --build "$TMP/b" --target fiber >>"$TMP/cmake.log" 2>&1 ||
  { cat "$TMP/cmake.log"; echo "library build failed"; exit 2; }
gcc -O1 -g -DFIBER_STACK_SPLIT -I"$SRC/include" -fsplit-stack \
  "$HERE/demo_3.c" "$TMP/b/libfiber.a" -lpthread -ldl -o "$TMP/demo" ||
  { echo "demo build failed"; exit 2; }
timeout 60 "$TMP/demo" 1 ; rc=$?
# informational: the same starvation with several kernel threads (depends on
# how the work stealing spreads the yielding fibers, so it is not used for the
# verdict)
echo "--- informational run: 2 kernel threads, 4 yielding fibers ---"
timeout 30 "$TMP/demo" 2 4 || true
echo "--- end of informational run ---"
if [ $rc -eq 0 ]; then echo "demo_3: property held"; else echo "demo_3: PROPERTY VIOLATED (rc=$rc)"; fi
exit $rc
