// demo_3: a fiber blocked in read() on a socket that has become readable is
// never resumed as long as every kernel thread has a runnable fiber.
//
// Descriptor events are only polled by a kernel thread's maintenance fiber,
// i.e. when the thread has run out of runnable fibers
// (fiber_manager_thread_func).  Fibers that cooperate through fiber_yield()
// (here: waiting for a flag the reader is going to set) keep every scheduler
// queue non-empty, epoll_wait() is never called and the reader stays blocked
// although its data arrived long ago.
#define _GNU_SOURCE
#include <errno.h>
#include <stdatomic.h>
#include <stdio.h>
#include <stdlib.h>
#include <string.h>
#include <sys/socket.h>
#include <time.h>
#include <unistd.h>

#include "fiber.h"
#include "fiber_manager.h"

#define LIMIT_MS 3000

static int sv[2];
static atomic_int reader_done;
static atomic_long reader_latency_ms = -1;
static atomic_int yielders_running;
static long t_written;

static long now_ms(void) {
  struct timespec ts;
  clock_gettime(CLOCK_MONOTONIC, &ts);
  return ts.tv_sec * 1000L + ts.tv_nsec / 1000000L;
}

static void* reader(void* p) {
  char c;
  const ssize_t ret = read(sv[0], &c, 1);  // blocking mode
  if (ret != 1) {
    perror("read");
    exit(3);
  }
  reader_latency_ms = now_ms() - t_written;
  reader_done = 1;
  return NULL;
}

// waits for the reader the way cooperative code does: by yielding
static void* yielder(void* p) {
  ++yielders_running;
  const long end = now_ms() + LIMIT_MS;
  while (!reader_done && now_ms() < end) {
    fiber_yield();
  }
  return NULL;
}

int main(int argc, char** argv) {
  setvbuf(stdout, NULL, _IONBF, 0);
  const int num_threads = argc > 1 ? atoi(argv[1]) : 1;
  const int num_yielders = argc > 2 ? atoi(argv[2]) : num_threads;
  fiber_manager_init(num_threads);

  if (socketpair(AF_UNIX, SOCK_STREAM, 0, sv)) {
    perror("socketpair");
    return 3;
  }
  fiber_t* r = fiber_create(102400, &reader, NULL);
  usleep(50000);  // the reader is blocked in read() now

  // one yielding fiber per kernel thread
  fiber_t* y[64];
  int i;
  for (i = 0; i < num_yielders; ++i) {
    y[i] = fiber_create(102400, &yielder, NULL);
  }
  while (yielders_running < num_yielders) {
    fiber_yield();
  }
  for (i = 0; i < 2000; ++i) {  // let the work stealing spread them
    fiber_yield();
  }

  char c = 'x';
  t_written = now_ms();
  if (write(sv[1], &c, 1) != 1) {  // sv[0] is readable from now on
    perror("write");
    return 3;
  }

  fiber_join(r, NULL);  // main blocks; only the yielders are runnable
  for (i = 0; i < num_yielders; ++i) {
    fiber_join(y[i], NULL);
  }

  printf(
      "%d kernel thread(s): reader resumed %ld ms after its descriptor became "
      "readable\n",
      num_threads, (long)reader_latency_ms);
  if (reader_latency_ms >= LIMIT_MS - 100) {
    printf(
        "VIOLATION: the blocked fiber was not resumed while other fibers were "
        "runnable (it only ran after they gave up after %d ms)\n",
        LIMIT_MS);
    return 1;
  }
  printf("OK\n");
  return 0;
}
