#!/bin/bash
# usage: run_demo_2.sh <path-to-library-source-tree>
# builds the library with -DFIBER_STACK_STRATEGY=mmap and runs demo_2 against it
# (and, for comparison only, against the malloc strategy).
# exit 0 = property C19 held, non-zero = violated (or build failure: 2)
set -u
SRC=$(readlink -f "${1:?usage: $0 <libfiber source tree>}")
HERE=$(dirname "$(readlink -f "$0")")
TMP=$(mktemp -d /tmp/hunt_demo2.XXXXXX)
trap 'rm -rf "$TMP"' EXIT

build() { # strategy define
  cmake -G Ninja -S "$SRC" -B "$TMP/b_$1" -DCMAKE_BUILD_TYPE=RelWithDebInfo \
        -DFIBER_STACK_STRATEGY=$1 -DFIBER_RUN_TESTS_WITH_BUILD=OFF >/dev/null || return 1
  cmake --build "$TMP/b_$1" --target fiber >/dev/null || return 1
  gcc -O1 -g -D$2 -I"$SRC/include" "$HERE/demo_2.c" "$TMP/b_$1/libfiber.a" \
      -lpthread -ldl -o "$TMP/demo_2_$1" || return 1
}

build malloc FIBER_STACK_MALLOC || exit 2
build mmap FIBER_STACK_MMAP || exit 2

echo "=== control: stack strategy malloc (not part of the verdict) ==="
timeout 50 "$TMP/demo_2_malloc"
echo "control exit status: $?"
echo
echo "=== stack strategy mmap ==="
timeout 50 "$TMP/demo_2_mmap"
rc=$?
echo "demo_2 exit status: $rc"
exit $rc
