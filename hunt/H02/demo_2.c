// Demonstration for finding 2 (property C19), stack strategy "mmap":
// the stack a context gets is SMALLER than the size that was requested, because
// fiber_round_to_page_size() rounds with a bogus "page size" of 4046 bytes and
// then the guard page is carved out of the rounded size instead of being added
// to it.  A function that uses less stack than it asked for runs into the
// PROT_NONE guard page.
//
// The same program is correct with the malloc and split strategies.
//
// exit status: 0 = property held, 1 = violated
#include <alloca.h>
#include <signal.h>
#include <stdint.h>
#include <stdio.h>
#include <stdlib.h>
#include <string.h>
#include <sys/wait.h>
#include <unistd.h>

#include "fiber.h"
#include "fiber_context.h"
#include "fiber_manager.h"

#define RESERVE 1024 /* bytes of the request we leave for call frames */

static fiber_context_t main_ctx, ctx;
static volatile size_t to_use;
static volatile int completed;

// uses 'to_use' bytes of stack, touching it from the top downwards
static void* __attribute__((noinline)) stack_user(void* p) {
  volatile char* buf = (volatile char*)alloca(to_use);
  size_t i = to_use;
  while (i >= 64) {
    i -= 64;
    buf[i] = (char)i;
  }
  buf[0] = 1;
  completed = 1;
  if (p) {
    fiber_context_swap(&ctx, &main_ctx);
  }
  return NULL;
}

// returns 0 if the function ran to completion, the signal number otherwise
static int run_raw(size_t requested, size_t* granted_usable) {
  int pipefd[2];
  if (pipe(pipefd)) {
    perror("pipe");
    exit(2);
  }
  const pid_t pid = fork();
  if (pid == 0) {
    fiber_context_init_from_thread(&main_ctx);
    if (!fiber_context_init(&ctx, requested, &stack_user, (void*)1)) {
      _exit(3);
    }
    // what is really usable: from the end of the guard page to the stack top
    const size_t page = sysconf(_SC_PAGESIZE);
    size_t usable = ctx.ctx_stack_size;
#ifdef FIBER_STACK_MMAP
    usable -= page;
#endif
    (void)page;
    if (write(pipefd[1], &usable, sizeof(usable)) != sizeof(usable)) {
      _exit(4);
    }
    to_use = requested - RESERVE;
    fiber_context_swap(&main_ctx, &ctx);
    _exit(completed ? 0 : 5);
  }
  close(pipefd[1]);
  if (read(pipefd[0], granted_usable, sizeof(*granted_usable)) !=
      sizeof(*granted_usable)) {
    *granted_usable = 0;
  }
  close(pipefd[0]);
  int status = 0;
  waitpid(pid, &status, 0);
  if (WIFSIGNALED(status)) {
    return WTERMSIG(status);
  }
  return WEXITSTATUS(status) ? -WEXITSTATUS(status) : 0;
}

static void* fiber_fn(void* p) {
  (void)p;
  stack_user(NULL);
  return NULL;
}

// whole runtime: a fiber created with the library's own default stack size
static int run_fiber(size_t requested) {
  const pid_t pid = fork();
  if (pid == 0) {
    fiber_manager_init(1);
    to_use = requested - RESERVE;
    fiber_t* f = fiber_create(requested, &fiber_fn, NULL);
    fiber_join(f, NULL);
    _exit(completed ? 0 : 5);
  }
  int status = 0;
  waitpid(pid, &status, 0);
  if (WIFSIGNALED(status)) {
    return WTERMSIG(status);
  }
  return WEXITSTATUS(status) ? -WEXITSTATUS(status) : 0;
}

int main(void) {
  setvbuf(stdout, NULL, _IONBF, 0);
  static const size_t sizes[] = {8000,  8091,  12000, 16000,
                                 40000, 102400 /* FIBER_DEFAULT_STACK_SIZE */,
                                 262144, 1000000};
  int violations = 0;
  size_t i;
  printf("raw contexts: the function uses (requested - %d) bytes of stack\n",
         RESERVE);
  printf("%10s %10s %10s  %s\n", "requested", "usable", "used", "result");
  for (i = 0; i < sizeof(sizes) / sizeof(sizes[0]); ++i) {
    size_t usable = 0;
    const int r = run_raw(sizes[i], &usable);
    printf("%10zu %10zu %10zu  %s%s\n", sizes[i], usable, sizes[i] - RESERVE,
           r == 0 ? "ok" : (r == SIGSEGV ? "SIGSEGV" : "FAILED"),
           usable < sizes[i] ? "  (usable < requested)" : "");
    if (r != 0) {
      violations++;
    }
  }
  const int r = run_fiber(FIBER_DEFAULT_STACK_SIZE);
  printf("fiber_create(FIBER_DEFAULT_STACK_SIZE=%d), fiber uses %d bytes: %s\n",
         FIBER_DEFAULT_STACK_SIZE, FIBER_DEFAULT_STACK_SIZE - RESERVE,
         r == 0 ? "ok" : (r == SIGSEGV ? "SIGSEGV" : "FAILED"));
  if (r != 0) {
    violations++;
  }
  if (violations) {
    printf("VIOLATED: %d context(s) crashed although they stayed %d bytes "
           "below the stack size they requested\n",
           violations, RESERVE);
    return 1;
  }
  printf("OK: every context could use the stack it requested\n");
  return 0;
}
