// Demonstration for finding 3 (property C19), stack strategy "malloc":
// fiber_context_init() accepts any non-zero stack size.  For sizes smaller than
// the initial frame it builds (< 88 bytes) it reports FIBER_SUCCESS but writes
// that frame BELOW the malloc()ed block: the context's "stack" lies in memory
// that belongs to somebody else (here: the heap block allocated just before).
// FIBER_MIN_STACK_SIZE exists in fiber.h but is never enforced.
//
// exit status: 0 = property held, 1 = violated
#include <stdint.h>
#include <stdio.h>
#include <stdlib.h>
#include <string.h>

#include "fiber.h"
#include "fiber_context.h"

static fiber_context_t main_ctx, ctx;
static volatile int ran;
static void* volatile got_param;

static void* fn(void* p) {
  got_param = p;
  ran = 1;
  fiber_context_swap(&ctx, &main_ctx);
  return NULL;
}

#define VICTIM_SIZE 4088

int main(void) {
  setvbuf(stdout, NULL, _IONBF, 0);
  static const size_t sizes[] = {1, 8, 16, 32, 64, 80, 87, 88, 128, 1024};
  int violations = 0;
  size_t i;
  printf("%9s %8s %22s %18s %s\n", "requested", "init", "initial sp - stack",
         "neighbour block", "verdict");
  for (i = 0; i < sizeof(sizes) / sizeof(sizes[0]); ++i) {
    // somebody else's memory: allocated right before the stack
    unsigned char* victim = malloc(VICTIM_SIZE);
    memset(victim, 0xAB, VICTIM_SIZE);

    memset(&ctx, 0, sizeof(ctx));
    const int ok = fiber_context_init(&ctx, sizes[i], &fn, (void*)0x1234);
    if (!ok) {
      printf("%9zu %8s %22s %18s %s\n", sizes[i], "refused", "-", "-", "ok");
      continue;
    }
    const intptr_t off = (char*)ctx.ctx_stack_pointer - (char*)ctx.ctx_stack;
    size_t damaged = 0, k;
    for (k = 0; k < VICTIM_SIZE; ++k) {
      damaged += victim[k] != 0xAB;
    }
    const int outside =
        off < 0 || (size_t)off > ctx.ctx_stack_size;  // sp not inside the stack
    char dmg[32];
    snprintf(dmg, sizeof(dmg), "%zu bytes damaged", damaged);
    printf("%9zu %8s %22ld %18s %s\n", sizes[i], "SUCCESS", (long)off,
           damaged ? dmg : "intact",
           (outside || damaged) ? "stack is NOT private" : "ok");
    if (outside || damaged) {
      violations++;
    }
    // nothing is freed and the bad contexts are neither started nor destroyed:
    // the heap next to them is already damaged, touching it again would only
    // make glibc abort
    if (!outside && !damaged && sizes[i] >= 1024) {
      fiber_context_init_from_thread(&main_ctx);
      fiber_context_swap(&main_ctx, &ctx);
      if (!ran || got_param != (void*)0x1234) {
        violations++;
      }
      fiber_context_destroy(&ctx);
    }
  }
  if (violations) {
    printf("VIOLATED: fiber_context_init reported success for %d stack size(s) "
           "but placed the new context's frame outside the stack it "
           "allocated\n",
           violations);
    return 1;
  }
  printf("OK\n");
  return 0;
}
