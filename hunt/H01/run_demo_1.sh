#!/bin/sh
# usage: run_demo_1.sh <path-to-library-source-tree>
# exit 0: property held; non-zero: violated (or build problem)
set -e
SRC=$(cd "$1" && pwd)
HERE=$(cd "$(dirname "$0")" && pwd)
TMP=$(mktemp -d /tmp/hunt-H01-demo1.XXXXXX)
trap 'rm -rf "$TMP"' EXIT
mkdir "$TMP/tree"
# work on a COPY of the tree; the hooks (pure delays) go into the copy only
(cd "$SRC" && tar cf - --exclude=HUNT --exclude='_*' --exclude=.git .) | (cd "$TMP/tree" && tar xf -)
python3 "$HERE/hook_1.py" "$TMP/tree"
cmake -G Ninja -S "$TMP/tree" -B "$TMP/b" -DCMAKE_BUILD_TYPE=RelWithDebInfo -DFIBER_RUN_TESTS_WITH_BUILD=OFF >/dev/null
cmake --build "$TMP/b" --target fiber >/dev/null
gcc -O1 -g -DFIBER_STACK_SPLIT -I"$TMP/tree/include" -fsplit-stack "$HERE/demo_1.c" "$TMP/b/libfiber.a" -lpthread -ldl -o "$TMP/demo_1"
set +e
timeout 100 "$TMP/demo_1"
rc=$?
echo "demo_1 exit code: $rc"
exit $rc
