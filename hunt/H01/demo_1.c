// Demonstration for finding 1: fiber_barrier with more participants than 'count'.
// A barrier initialised with count=2 is used by 4 fibers (legal for a POSIX-style barrier:
// any 2 arrivals form a round). Round 1's releasing fiber is still waiting for its (slow)
// waiter to enqueue when round 3 - which uses the same waiter list - completes. Two kernel
// threads then run mpsc_fifo_trypop() on the same single-consumer list at the same time,
// both pop the same fiber and both schedule it: the fiber is resumed twice from the same
// saved state and executes on two kernel threads at once.
//
// libfiber_demo_hook() is called from two delay hooks inserted in a COPY of the library
// (see hook_1.py). It only ever busy-waits: every schedule it forces is a legal schedule.
#define _GNU_SOURCE
#include <stdio.h>
#include <stdlib.h>
#include <stdint.h>
#include <time.h>
#include <x86intrin.h>
#include <unistd.h>
#include "fiber_manager.h"
#include "fiber_barrier.h"
#include "fiber_event.h"

static fiber_barrier_t bar;
static _Atomic int max_arrival = 0;
static _Atomic int release_a = 0;
static _Atomic int first_popper_taken = 0;
static _Atomic int popper_stalled = 0;
static _Atomic int c_round3_returns = 0;  // how many times C's 2nd barrier_wait call returned
static _Atomic int c_done_round2 = 0;

static uint64_t tsc_per_sec = 3000000000ull;
static volatile uintptr_t c_owner_thread = 0;

static inline uintptr_t fs_base(void) {  // address of the kernel thread's TCB; never hoisted
  uintptr_t v;
  __asm__ volatile("mov %%fs:0, %0" : "=r"(v));
  return v;
}

static void violation(const char* what) {
  fprintf(stderr, "VIOLATION (C01): %s\n", what);
  _exit(1);
}

static double now_s(void) {
  struct timespec ts;
  clock_gettime(CLOCK_MONOTONIC, &ts);
  return ts.tv_sec + ts.tv_nsec * 1e-9;
}

void libfiber_demo_hook(int point, void* obj, unsigned long v) {
  if (point == 1 && obj == &bar) {
    int cur = max_arrival;
    while ((int)v > cur && !atomic_compare_exchange_weak(&max_arrival, &cur, (int)v)) {
    }
    if (v == 1) {
      // arrival 1 (fiber A): announced, not yet enqueued. hold it here.
      const double t0 = now_s();
      while (!release_a && now_s() - t0 < 20.0) {
        __asm__ volatile("pause");
      }
    }
  } else if (point == 2 && obj == &bar.waiters[0]) {
    // a consumer of waiter list 0 has seen a node and is about to advance 'head'.
    // stall the first such consumer until the other consumer has popped the same
    // node and the popped fiber has been resumed (or 4 s have passed).
    int expected = 0;
    if (atomic_compare_exchange_strong(&first_popper_taken, &expected, 1)) {
      popper_stalled = 1;
      const double t0 = now_s();
      while (c_round3_returns == 0 && now_s() - t0 < 4.0) {
        __asm__ volatile("pause");
      }
    }
  }
}

static void wait_arrival(int n) {
  while (max_arrival < n) {
    fiber_sleep(0, 1000);
  }
}

static void* fiber_a(void* p) {
  fiber_barrier_wait(&bar);  // arrival 1, round 1 (held in hook 1 before enqueueing)
  return NULL;
}

static void* fiber_b(void* p) {
  fiber_barrier_wait(&bar);  // arrival 2, closes round 1: must wake 1 fiber from list 0
  return NULL;
}

static void* fiber_c(void* p) {
  fiber_barrier_wait(&bar);  // arrival 3, round 2, waits in list 1
  c_done_round2 = 1;
  fiber_barrier_wait(&bar);  // arrival 5, round 3, waits in list 0
  // --- everything below must execute exactly once, on one kernel thread ---
  const int n = atomic_fetch_add(&c_round3_returns, 1) + 1;
  if (n > 1) {
    violation("fiber C returned twice from ONE fiber_barrier_wait() call: it was resumed twice "
              "from the same saved state and is executing on two kernel threads at once");
  }
  c_owner_thread = fs_base();
  // stay "inside" for ~6 s without calling any function: the dead stack frames below this
  // one (from which a second, illegitimate resume would restart) stay intact
  const uint64_t t0 = __rdtsc();
  while (__rdtsc() - t0 < 6 * tsc_per_sec) {
    if (c_owner_thread != fs_base()) {
      violation("two kernel threads are executing fiber C's body at the same time");
    }
    __asm__ volatile("pause");
  }
  return NULL;
}

static void* fiber_d(void* p) {
  fiber_barrier_wait(&bar);  // arrival 4, closes round 2: wakes C from list 1
  wait_arrival(5);           // C has arrived for round 3
  fiber_barrier_wait(&bar);  // arrival 6, closes round 3: must wake 1 fiber from list 0
  return NULL;
}

int main(void) {
  {
    const double t0 = now_s();
    const uint64_t c0 = __rdtsc();
    while (now_s() - t0 < 0.05) {
    }
    tsc_per_sec = (uint64_t)((__rdtsc() - c0) / (now_s() - t0));
  }
  fiber_manager_init(8);
  fiber_barrier_init(&bar, 2);

  fiber_detach(fiber_create(65536, fiber_a, NULL));
  wait_arrival(1);
  fiber_detach(fiber_create(65536, fiber_b, NULL));
  wait_arrival(2);
  fiber_detach(fiber_create(65536, fiber_c, NULL));
  wait_arrival(3);
  fiber_detach(fiber_create(65536, fiber_d, NULL));

  const double t0 = now_s();
  while (now_s() - t0 < 12.0) {
    fiber_sleep(0, 20000);
  }
  release_a = 1;
  printf("arrivals=%d popper_stalled=%d c_round3_returns=%d\n", max_arrival, popper_stalled,
         c_round3_returns);
  if (c_round3_returns > 1) {
    printf("VIOLATION (C01)\n");
    fflush(stdout);
    _exit(1);
  }
  if (max_arrival < 6 || !popper_stalled || c_round3_returns != 1) {
    printf("note: the two-consumer schedule was not reached (it is reached deterministically on "
           "the unmodified library); no double resume was observed\n");
    fflush(stdout);
    _exit(0);
  }
  printf("property held: fiber C was resumed exactly once\n");
  fflush(stdout);
  _exit(0);
}
