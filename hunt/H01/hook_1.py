#!/usr/bin/env python3
# Inserts two pure-delay hooks into a COPY of the library sources (never the original tree).
#   hook 1: fiber_barrier_wait, right after the arrival has been counted (before the fiber enqueues itself)
#   hook 2: mpsc_fifo_trypop, after the consumer has seen a node and before it advances 'head'
# The hooks call libfiber_demo_hook(), which the demo implements as a conditional busy-wait.
import sys
root = sys.argv[1]
def sub(path, old, new):
    p = root + '/' + path
    s = open(p).read()
    if old not in s:
        sys.exit('hook_1.py: anchor not found in %s' % path)
    open(p, 'w').write(s.replace(old, new, 1))
sub('include/mpsc_fifo.h',
    'static inline int mpsc_fifo_init(',
    'extern void libfiber_demo_hook(int point, void* obj, unsigned long v);\n\nstatic inline int mpsc_fifo_init(')
sub('include/mpsc_fifo.h',
    '  if (prev_head_next) {\n    f->head = prev_head_next;',
    '  if (prev_head_next) {\n    libfiber_demo_hook(2, f, 0);\n    f->head = prev_head_next;')
sub('src/fiber_barrier.c',
    '  uint64_t const new_value = atomic_fetch_add(&barrier->counter, 1) + 1;',
    '  uint64_t const new_value = atomic_fetch_add(&barrier->counter, 1) + 1;\n  libfiber_demo_hook(1, barrier, new_value);')
