import sys, itertools
from collections import deque
def run(size, senders, receivers):
    types = ['S']*len(senders)+['R']*len(receivers)
    rem0 = tuple(senders+receivers)
    n=len(types)
    init=(0,(),tuple(0 if rem0[i]>0 else 2 for i in range(n)),rem0)
    seen={init}; todo=deque([init]); par={init:None}
    while todo:
        st=todo.popleft()
        items,stack,status,rem=st
        runnable=[i for i in range(n) if status[i]==0]
        if not runnable:
            if any(s!=2 for s in status):
                path=[]; x=st
                while x: path.append(x); x=par[x][0] if par[x] else None
                return [(p,par[p][1] if par[p] else None) for p in path[::-1]]
            continue
        for i in runnable:
            status2=list(status); rem2=list(rem); stack2=list(stack); items2=items
            ok = (items<size) if types[i]=='S' else (items>0)
            if ok:
                items2 += 1 if types[i]=='S' else -1
                rem2[i]-=1
                if rem2[i]==0: status2[i]=2
                act="%s%d ok"%(types[i],i)
                if stack2:
                    t=stack2.pop(); status2[t]=0; act+=" wakes %s%d"%(types[t],t)
            else:
                stack2.append(i); status2[i]=1; act="%s%d waits"%(types[i],i)
            ns=(items2,tuple(stack2),tuple(status2),tuple(rem2))
            if ns not in seen:
                seen.add(ns); par[ns]=(st,act); todo.append(ns)
    return None
best=None
for size in (2,):  # capacity
  for ns in range(1,4):
    for nr in range(1,4):
      for sc in itertools.product(range(1,5),repeat=ns):
        if list(sc)!=sorted(sc): continue
        for rc in itertools.product(range(1,5),repeat=nr):
          if list(rc)!=sorted(rc): continue
          if sum(sc)!=sum(rc): continue
          r=run(size,list(sc),list(rc))
          if r and (best is None or (len(sc)+len(rc),len(r))<(best[0],best[1])):
              best=(len(sc)+len(rc),len(r),size,sc,rc,r)
print(best[:5])
for s,a in best[5]: print(a, s)
