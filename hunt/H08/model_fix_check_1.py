import sys, itertools
from collections import deque
def run(size, senders, receivers):
    types = ['S']*len(senders)+['R']*len(receivers)
    rem0 = tuple(senders+receivers)
    n=len(types)
    init=(0,(),(),tuple(0 if rem0[i]>0 else 2 for i in range(n)),rem0)
    seen={init}; todo=deque([init])
    while todo:
        st=todo.popleft()
        items,ss,rs,status,rem=st
        runnable=[i for i in range(n) if status[i]==0]
        if not runnable:
            if any(s!=2 for s in status): return st
            continue
        for i in runnable:
            status2=list(status); rem2=list(rem); ss2=list(ss); rs2=list(rs); items2=items
            ok = (items<size) if types[i]=='S' else (items>0)
            if ok:
                items2 += 1 if types[i]=='S' else -1
                rem2[i]-=1
                if rem2[i]==0: status2[i]=2
                lst = rs2 if types[i]=='S' else ss2
                if lst:
                    t=lst.pop(); status2[t]=0
            else:
                (ss2 if types[i]=='S' else rs2).append(i); status2[i]=1
            ns=(items2,tuple(ss2),tuple(rs2),tuple(status2),tuple(rem2))
            if ns not in seen:
                seen.add(ns); todo.append(ns)
    return None
bad=None
for size in (2,4):
  for ns in range(1,4):
    for nr in range(1,4):
      for sc in itertools.product(range(1,5),repeat=ns):
        if list(sc)!=sorted(sc): continue
        for rc in itertools.product(range(1,5),repeat=nr):
          if list(rc)!=sorted(rc): continue
          if sum(sc)!=sum(rc): continue
          r=run(size,list(sc),list(rc))
          if r: bad=(size,sc,rc,r); print(bad); sys.exit()
print("separate lists: no deadlock")
