// demo_3: mpmc_fifo_push() returns while its publishing store
// (tail->prev = new_node, a plain store after the CAS on fifo->tail) can still
// sit in the pushing CPU's store buffer.  On x86-TSO a later LOAD of the
// pushing thread may be satisfied before that store becomes visible, so the
// following outcome is observable with the queue initially empty and exactly
// one push per round:
//
//   pusher : mpmc_fifo_push(x) returns ; r = flag            -> r == 0
//   popper : flag = 1 ; v = mpmc_fifo_trypop()               -> v == NULL
//
// r == 0 orders the completed push before the store flag = 1, which the
// popper performs before it calls trypop() (trypop() itself executes a full
// barrier in hazard_pointer_using() before it reads head->prev).  So the push
// had completed before the pop began, no other push exists, and the pop
// nevertheless reports empty: the history [push(x) returns] < [pop -> empty]
// is not a linearizable FIFO history, and the C13 clause "a pop reports empty
// only if the queue was empty at some instant during the call or a push was
// still in flight" is violated.
//
// Only public API is used; the library is unmodified.
// exit 0: outcome never observed; exit 1: observed.
#include <pthread.h>
#include <stdint.h>
#include <stdio.h>
#include <stdlib.h>
#include <time.h>

#include "mpmc_fifo.h"

static mpmc_fifo_t fifo;
static _Atomic(hazard_pointer_thread_record_t*) hp_head;
static hazard_pointer_thread_record_t* hp_pusher;
static hazard_pointer_thread_record_t* hp_popper;

static _Atomic long round_go __attribute__((aligned(64)));
static _Atomic long pusher_done __attribute__((aligned(64)));
static _Atomic int flag __attribute__((aligned(64)));
static _Atomic int quit __attribute__((aligned(64)));
static int pusher_saw_flag;  // published by pusher_done (release/acquire)

static void node_free(void* gc_data, hazard_node_t* n) {
  (void)gc_data;
  free(n);
}

static mpmc_fifo_node_t* node_new(void* value) {
  mpmc_fifo_node_t* const n = malloc(sizeof(*n));
  n->hazard.gc_data = NULL;
  n->hazard.gc_function = &node_free;
  n->value = value;
  return n;
}

static void* pusher(void* arg) {
  (void)arg;
  long r;
  for (r = 1;; ++r) {
    mpmc_fifo_node_t* const n = node_new((void*)r);
    while (atomic_load_explicit(&round_go, memory_order_acquire) < r) {
      if (atomic_load_explicit(&quit, memory_order_relaxed)) {
        free(n);
        return NULL;
      }
    }
    mpmc_fifo_push(hp_pusher, &fifo, n);
    // the push has returned.  compiler barrier: keep the program order of the
    // binary equal to the source order, so only the hardware is at play
    __asm__ __volatile__("" ::: "memory");
    const int seen = atomic_load_explicit(&flag, memory_order_relaxed);
    pusher_saw_flag = seen;
    atomic_store_explicit(&pusher_done, r, memory_order_release);
  }
  return NULL;
}

static double now(void) {
  struct timespec ts;
  clock_gettime(CLOCK_MONOTONIC, &ts);
  return ts.tv_sec + ts.tv_nsec / 1e9;
}

int main(int argc, char** argv) {
  const double limit = argc > 1 ? atof(argv[1]) : 40.0;
  hp_pusher =
      hazard_pointer_thread_record_create_and_push(&hp_head, MPMC_HAZARD_COUNT);
  hp_popper =
      hazard_pointer_thread_record_create_and_push(&hp_head, MPMC_HAZARD_COUNT);
  mpmc_fifo_init(&fifo, node_new(NULL));

  pthread_t t;
  pthread_create(&t, NULL, &pusher, NULL);

  const double start = now();
  long hits = 0;
  long r;
  for (r = 1;; ++r) {
    // the queue is empty here and the pusher is parked
    atomic_store(&flag, 0);
    atomic_store_explicit(&round_go, r, memory_order_release);
    volatile int spin;
    for (spin = 0; spin < (r & 63); ++spin) {
      // vary the alignment of the two threads
    }
    atomic_store_explicit(&flag, 1, memory_order_relaxed);
    void* v = mpmc_fifo_trypop(hp_popper, &fifo);
    while (atomic_load_explicit(&pusher_done, memory_order_acquire) < r) {
    }
    if (!v && pusher_saw_flag == 0) {
      ++hits;
      printf(
          "round %ld: push(%ld) returned, then the pusher read flag == 0; the "
          "popper stored flag = 1, then trypop() reported EMPTY\n",
          r, r);
    }
    while (!v) {
      v = mpmc_fifo_trypop(hp_popper, &fifo);
    }
    if (v != (void*)r) {
      printf("unexpected value popped\n");
      return 2;
    }
    if (hits >= 1 || ((r & 0xfff) == 0 && now() - start > limit)) {
      break;
    }
  }
  atomic_store(&quit, 1);
  pthread_join(t, NULL);
  printf("rounds=%ld hits=%ld\n", r, hits);
  if (hits) {
    printf(
        "VIOLATION (C13): a pop that began after the only push had completed "
        "reported empty\n");
    return 1;
  }
  printf("outcome never observed\n");
  return 0;
}
