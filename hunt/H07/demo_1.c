// demo_1: a sleeper is woken EARLY because "read the timerfd" and "add what was
// read to timer_trigger_count" are two separate steps (fiber_event_native.c).
//
// Schedule (2 kernel threads):
//   1. fiber A runs on thread T1, the main fiber on T0. Both compute for
//      BUSY_MS without yielding, so nobody polls: ~BUSY_MS/5 timer expirations
//      pile up unread in the timerfd.
//   2. A calls usleep(): fiber_sleep() reads the whole backlog (n ~ 300) from
//      the timerfd ... and is held right there for a moment (hook; a legal
//      schedule - the kernel may preempt T1 at that point).
//   3. main calls fiber_sleep(0, REQ_MS ms). Its own read of the timerfd finds
//      nothing (A took the backlog), so it registers with
//      wake_time = timer_trigger_count + REQ_MS + 1, a count that does not
//      contain the backlog yet.
//   4. A continues: timer_trigger_count += n, n > REQ_MS + 1  ==> main is woken
//      at once, although the backlog happened BEFORE main went to sleep.
//
// exit 0: main slept at least REQ_MS ms. exit 1: main was resumed early.
//
// Second mode, "./demo_1 nat" (meant to be linked against the UNMODIFIED
// library, the hooks are then dead code): NAT_FIBERS fibers on NAT_FIBERS
// kernel threads compute for 30 ms (6 unread expirations) and then all call
// fiber_sleep(0, 2000) at the same instant; repeated NAT_TRIALS times. No delay
// is injected anywhere, the race window is hit by chance (a few percent of the
// sleeps on a 16 core machine). exit 1 if any 2 ms sleep returned in < 2 ms.
#define _GNU_SOURCE
#include <stdatomic.h>
#include <stdio.h>
#include <stdlib.h>
#include <time.h>
#include <unistd.h>

#include "fiber.h"
#include "fiber_event.h"
#include "fiber_manager.h"

#define BUSY_MS 1500 /* period without polling */
#define REQ_MS 100   /* what the victim asks for */

static inline uint64_t now_ns(void) {
  struct timespec ts;
  clock_gettime(CLOCK_MONOTONIC, &ts);
  return (uint64_t)ts.tv_sec * 1000000000ull + ts.tv_nsec;
}

static void busy_until(uint64_t deadline_ns) {
  while (now_ns() < deadline_ns) {
  }
}

// 0: idle, 1: armed (A is about to sleep), 2: A holds an unadded backlog,
// 3: the victim has registered, A may go on
static _Atomic int stage = 0;
static _Atomic unsigned long long backlog_seen = 0;
static _Atomic int a_running = 0;

void demo_hook_before_count_update(unsigned long long n) {
  int expect = 1;
  if (n >= REQ_MS + 10 &&
      atomic_compare_exchange_strong(&stage, &expect, 2)) {
    backlog_seen = n;
    // hold this kernel thread until the victim has registered (bounded: if the
    // library serialises read+add with registration we must not deadlock)
    const uint64_t give_up = now_ns() + 2000000000ull;
    while (atomic_load(&stage) != 3 && now_ns() < give_up) {
    }
  }
}

void demo_hook_registered(void) {
  int expect = 2;
  atomic_compare_exchange_strong(&stage, &expect, 3);
}

static void* fiber_a(void* p) {
  (void)p;
  a_running = 1;
  busy_until(now_ns() + (uint64_t)BUSY_MS * 1000000ull);
  stage = 1;
  usleep(1000);  // reads the backlog, is held in the hook, then adds it
  return NULL;
}

// ---------------------------------------------------------------- nat mode
#define NAT_FIBERS 4
#define NAT_TRIALS 300
static _Atomic int nat_arrived[NAT_TRIALS];
static _Atomic int nat_early = 0;
static _Atomic uint64_t nat_min_ns = ~0ull;

static void* nat_fn(void* p) {
  (void)p;
  for (int t = 0; t < NAT_TRIALS; t++) {
    // rendezvous; every fiber should be on its own kernel thread, so spin
    // (yield only as a fallback, should two fibers share a thread)
    atomic_fetch_add(&nat_arrived[t], 1);
    const uint64_t r0 = now_ns();
    while (atomic_load(&nat_arrived[t]) < NAT_FIBERS) {
      if (now_ns() - r0 > 200000000ull) {
        fiber_yield();
      }
    }
    busy_until(now_ns() + 30000000ull);  // 30 ms without polling
    busy_until((now_ns() / 1000000 + 1) * 1000000);  // common start instant
    const uint64_t t0 = now_ns();
    fiber_sleep(0, 2000);  // 2 ms
    const uint64_t d = now_ns() - t0;
    if (d < 2000000ull) {
      nat_early++;
    }
    uint64_t m = nat_min_ns;
    while (d < m && !atomic_compare_exchange_weak(&nat_min_ns, &m, d)) {
    }
  }
  return NULL;
}

static int nat_main(void) {
  fiber_manager_init(NAT_FIBERS);
  fiber_t* f[NAT_FIBERS];
  for (int i = 1; i < NAT_FIBERS; i++) {
    f[i] = fiber_create(64 * 1024, nat_fn, NULL);
  }
  nat_fn(NULL);
  for (int i = 1; i < NAT_FIBERS; i++) {
    fiber_join(f[i], NULL);
  }
  printf("demo_1 nat: %d sleeps of 2 ms, %d returned early, shortest %.3f ms\n",
         NAT_FIBERS * NAT_TRIALS, (int)nat_early, nat_min_ns / 1e6);
  if (nat_early) {
    printf("demo_1 nat: VIOLATION - fiber_sleep returned early\n");
    return 1;
  }
  printf("demo_1 nat: ok\n");
  return 0;
}

int main(int argc, char** argv) {
  setvbuf(stdout, NULL, _IONBF, 0);
  if (argc > 1 && argv[1][0] == 'n') {
    return nat_main();
  }
  fiber_manager_init(2);

  fiber_t* a = fiber_create(64 * 1024, fiber_a, NULL);
  // do not yield: the idle thread T1 steals A and runs it there
  const uint64_t t_start = now_ns();
  while (!a_running) {
    if (now_ns() - t_start > 20000000000ull) {
      printf("demo_1: fiber A was never picked up by the second thread\n");
      return 2;
    }
  }
  // compute (no yield, no poll) until A holds the unadded backlog
  while (atomic_load(&stage) != 2) {
    if (now_ns() - t_start > 40000000000ull) {
      printf("demo_1: INCONCLUSIVE, never saw a backlog being read\n");
      return 0;
    }
  }

  const uint64_t t0 = now_ns();
  fiber_sleep(0, REQ_MS * 1000);
  const uint64_t t1 = now_ns();
  const double slept_ms = (t1 - t0) / 1e6;

  printf("demo_1: backlog read by A before the victim slept: %llu ticks\n",
         (unsigned long long)backlog_seen);
  printf("demo_1: requested %d ms, resumed after %.3f ms\n", REQ_MS, slept_ms);
  fiber_join(a, NULL);
  if (slept_ms < REQ_MS) {
    printf("demo_1: VIOLATION - fiber_sleep returned early\n");
    return 1;
  }
  printf("demo_1: ok\n");
  return 0;
}
