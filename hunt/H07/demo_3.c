// demo_3: a sleeping fiber is never resumed while the other fibers keep
// running (they yield, but never block).
//
// The timerfd is only looked at (a) by a kernel thread that has NO runnable
// fiber (fiber_manager_thread_func -> fiber_poll_events) and (b) by another
// fiber that calls fiber_sleep itself. fiber_manager_yield() never polls. So
// as long as every kernel thread has at least one fiber that is runnable (e.g.
// a worker that computes and calls fiber_yield() regularly), expired sleepers
// stay in the 'sleepers' tree forever.
//
// argv[1] = number of kernel threads N (default 1). One "worker" fiber per
// kernel thread computes and yields for WATCH_MS; one more fiber calls
// usleep(10000). exit 0: the sleeper was resumed within WATCH_MS (300x the
// request), exit 1: it was not, although the workers made progress.
#define _GNU_SOURCE
#include <stdatomic.h>
#include <stdio.h>
#include <stdlib.h>
#include <time.h>
#include <unistd.h>

#include "fiber.h"
#include "fiber_event.h"
#include "fiber_manager.h"

#define WATCH_MS 3000

static inline uint64_t now_ns(void) {
  struct timespec ts;
  clock_gettime(CLOCK_MONOTONIC, &ts);
  return (uint64_t)ts.tv_sec * 1000000000ull + ts.tv_nsec;
}

static _Atomic int woke = 0;
static _Atomic int stop = 0;
static _Atomic uint64_t slept_ns = 0;
static _Atomic unsigned long long work_done = 0;

static void* sleeper(void* p) {
  (void)p;
  const uint64_t t0 = now_ns();
  usleep(10000);  // 10 ms
  slept_ns = now_ns() - t0;
  woke = 1;
  return NULL;
}

static void* worker(void* p) {
  (void)p;
  while (!stop) {
    work_done++;    // "work"
    fiber_yield();  // cooperative: lets every other READY fiber run
  }
  return NULL;
}

int main(int argc, char** argv) {
  setvbuf(stdout, NULL, _IONBF, 0);
  const int nthreads = argc > 1 ? atoi(argv[1]) : 1;
  fiber_manager_init(nthreads);

  // workers for the other kernel threads (stolen by them as they are idle)
  fiber_t* w[64];
  for (int i = 1; i < nthreads && i < 64; i++) {
    w[i] = fiber_create(64 * 1024, worker, NULL);
  }
  fiber_t* s = fiber_create(64 * 1024, sleeper, NULL);

  // the main fiber is the worker of this kernel thread
  const uint64_t t0 = now_ns();
  while (!woke && now_ns() - t0 < (uint64_t)WATCH_MS * 1000000ull) {
    work_done++;
    fiber_yield();
  }
  const int woke_in_time = woke;
  const unsigned long long work = work_done;
  stop = 1;
  // from here on threads can go idle, which finally polls the timer
  fiber_join(s, NULL);
  for (int i = 1; i < nthreads && i < 64; i++) {
    fiber_join(w[i], NULL);
  }

  if (!woke_in_time) {
    printf("demo_3: %d kernel thread(s): usleep(10000) was NOT resumed within "
           "%d ms; the workers did %llu yields meanwhile; it returned only "
           "after the workers stopped (%.0f ms)\n",
           nthreads, WATCH_MS, work, slept_ns / 1e6);
    printf("demo_3: VIOLATION - sleeper not resumed while other fibers run\n");
    return 1;
  }
  printf("demo_3: %d kernel thread(s): sleeper resumed after %.1f ms - ok\n",
         nthreads, slept_ns / 1e6);
  return 0;
}
