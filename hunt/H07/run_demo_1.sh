#!/bin/sh
# usage: run_demo_1.sh <path-to-library-source-tree>
# exit 0: sleepers were never resumed early; exit 1: violation shown.
TREE=$(realpath "${1:?usage: run_demo_1.sh <library-tree>}")
HERE=$(dirname "$(realpath "$0")")
TMP=$(mktemp -d /tmp/hunt-demo1.XXXXXX)
trap 'rm -rf "$TMP"' EXIT

cmake -G Ninja -S "$TREE" -B "$TMP/b" -DCMAKE_BUILD_TYPE=RelWithDebInfo \
  -DFIBER_RUN_TESTS_WITH_BUILD=OFF >/dev/null || { echo "cmake failed"; exit 98; }
cmake --build "$TMP/b" --target fiber >/dev/null || { echo "library build failed"; exit 98; }

CFLAGS="-O1 -g -DFIBER_STACK_SPLIT -I$TREE/include -fsplit-stack"
rc=0

# phase 1: deterministic, a COPY of fiber_event_native.c carries two schedule
# hooks (see hook_1.py); everything else comes from the unmodified library
if python3 "$HERE/hook_1.py" "$TREE" "$TMP/fiber_event_native_hooked.c"; then
  gcc $CFLAGS "$HERE/demo_1.c" "$TMP/fiber_event_native_hooked.c" \
    "$TMP/b/libfiber.a" -lpthread -ldl -o "$TMP/demo_1_hooked" || exit 98
  timeout 60 "$TMP/demo_1_hooked"
  r=$?
  [ $r -ne 0 ] && rc=1
else
  echo "run_demo_1: hooks could not be placed, skipping the deterministic phase"
fi

# phase 2: no hooks, unmodified library, the race is hit by chance
gcc $CFLAGS "$HERE/demo_1.c" "$TMP/b/libfiber.a" -lpthread -ldl \
  -o "$TMP/demo_1_plain" || exit 98
timeout 60 "$TMP/demo_1_plain" nat
r=$?
[ $r -ne 0 ] && rc=1

exit $rc
