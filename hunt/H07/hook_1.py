#!/usr/bin/env python3
"""Produce a COPY of src/fiber_event_native.c with two schedule hooks.

usage: hook_1.py <library-tree> <output.c>

The copy is used only by the demonstration build. The hooks add no logic to
the library, they only let the demo hold one kernel thread for a moment at a
chosen point (a delay is a legal schedule):

  demo_hook_before_count_update(n)  just before every call
        fiber_event_wake_sleepers(<manager>, n)
     i.e. after n expirations were read from the timerfd and before they are
     added to timer_trigger_count
  demo_hook_registered()            in fiber_sleep(), right after
        waiter_insert(&sleepers, &wake_info)
"""
import re
import sys

tree, out = sys.argv[1], sys.argv[2]
src = open(tree + "/src/fiber_event_native.c").read()

decl = ("extern void demo_hook_before_count_update(unsigned long long n);\n"
        "extern void demo_hook_registered(void);\n")

# 1. before every *call* of fiber_event_wake_sleepers (not its definition)
pat_call = re.compile(
    r"^(?P<ind>[ \t]+)fiber_event_wake_sleepers\w*\((?P<mgr>[^,;]+),\s*(?P<cnt>[^;]+?)\);",
    re.M)
src, n_calls = pat_call.subn(
    lambda m: "%sdemo_hook_before_count_update(%s);\n%s" %
    (m.group("ind"), m.group("cnt"), m.group(0)), src)

# 2. after the sleeper was inserted into the tree in fiber_sleep()
pat_ins = re.compile(r"^(?P<ind>[ \t]+)waiter_insert\(&sleepers,[^;]*\);", re.M)
src, n_ins = pat_ins.subn(
    lambda m: "%s\n%sdemo_hook_registered();" % (m.group(0), m.group("ind")),
    src)

if n_calls == 0 or n_ins == 0:
    sys.stderr.write("hook_1.py: could not place hooks (calls=%d inserts=%d)\n"
                     % (n_calls, n_ins))
    sys.exit(3)

# declarations go at the very top of the copy
src = decl + src
open(out, "w").write(src)
sys.stderr.write("hook_1.py: %d count-update hooks, %d registration hooks\n"
                 % (n_calls, n_ins))
