#!/usr/bin/env python3
"""Make a COPY of src/fiber.c with a call-out (a "hook") inserted at one point.
The hook only lets the demonstration hold a race window open (busy-wait);
it changes nothing else.  The library tree itself is never modified.

usage: hook_fiber.py <path/to/src/fiber.c> <out.c> completed|join
  completed: in fiber_mark_completed(), right after the statement
             'old_state = atomic_exchange(&the_fiber->detach_state, FIBER_DETACH_WAIT_FOR_JOINER);'
             insert  demo_hook_completed(the_fiber, old_state);
  join:      in fiber_join(), right before the statement
             'const int old_state = atomic_exchange(&f->detach_state, FIBER_DETACH_WAIT_TO_JOIN);'
             (i.e. after the 'is it detached?' check) insert  demo_hook_join(f);
exit status 0 = hooked copy written, 2 = anchor not found (caller falls back to
the un-hooked stress variant of the demo)."""
import re, sys

src, out, mode = sys.argv[1], sys.argv[2], sys.argv[3]
text = open(src).read()

def func_span(name):
    m = re.search(r'^[A-Za-z_][^\n;]*\b' + name + r'\s*\([^)]*\)\s*\{', text, re.M)
    if not m:
        return None
    depth, i = 0, m.end() - 1
    while i < len(text):
        if text[i] == '{':
            depth += 1
        elif text[i] == '}':
            depth -= 1
            if depth == 0:
                return m.start(), i + 1
        i += 1
    return None

if mode == 'completed':
    span = func_span('fiber_mark_completed')
    if not span: sys.exit(2)
    body = text[span[0]:span[1]]
    m = re.search(r'const\s+int\s+old_state\s*=\s*atomic_exchange\s*\(\s*&the_fiber->detach_state\s*,\s*FIBER_DETACH_WAIT_FOR_JOINER\s*\)\s*;', body)
    if m:
        pos = span[0] + m.end()
        ins = ('\n    { extern void demo_hook_completed(struct fiber*, int);'
               ' demo_hook_completed(the_fiber, old_state); } /* DEMO HOOK */')
    else:
        # fallback anchor (e.g. a tree where the exchange was rewritten): the
        # point where the finishing fiber is about to take its waiting joiner
        # out of join_info - the same window
        m = re.search(r'fiber_t\s*\*\s*const\s+to_schedule\s*=\s*fiber_manager_clear_or_wait\s*\(', body)
        if not m: sys.exit(2)
        pos = span[0] + m.start()
        ins = ('{ extern void demo_hook_completed(struct fiber*, int);'
               ' demo_hook_completed(the_fiber, FIBER_DETACH_WAIT_TO_JOIN); } /* DEMO HOOK */\n      ')
elif mode == 'join':
    span = func_span('fiber_join')
    if not span: sys.exit(2)
    body = text[span[0]:span[1]]
    m = re.search(r'const\s+int\s+old_state\s*=\s*atomic_exchange\s*\(\s*&f->detach_state\s*,\s*FIBER_DETACH_WAIT_TO_JOIN\s*\)\s*;', body)
    if m:
        pos = span[0] + m.start()
    else:
        # fallback anchor: right after the early "already detached?" check
        m = re.search(r'if\s*\(\s*f->detach_state\s*==\s*FIBER_DETACH_DETACHED\s*\)\s*\{\s*return\s+FIBER_ERROR\s*;\s*\}\s*', body)
        if not m: sys.exit(2)
        pos = span[0] + m.end()
    ins = ('{ extern void demo_hook_join(struct fiber*);'
           ' demo_hook_join(f); } /* DEMO HOOK */\n  ')
else:
    sys.exit(2)

open(out, 'w').write(text[:pos] + ins + text[pos:])
sys.exit(0)
