// Demonstration for finding 2: fiber_unbounded_channel_receive() and
// fiber_unbounded_sp_channel_receive() on a channel created with a NULL signal
// ("this channel will spin") busy-loop on mpsc_fifo_trypop()/spsc_fifo_trypop()
// WITHOUT yielding. Fibers are cooperative, so on one kernel thread the sender
// can never run: the receiver that found the channel empty is never resumed by
// a send, and the sender is stranded on the run queue for ever.
// fiber_bounded_channel_receive() with a NULL signal does the same job with
// fiber_yield() in its loop and works - it is run first as a control.
//
// Unmodified library, unmodified headers, no hooks. One kernel thread.
// For each channel kind: one sender fiber (1000 messages) and one receiver
// fiber are created; the sender politely yields until the receiver has entered
// its receive call, so the receiver finds the channel empty.
//
// usage: demo_2 <1|2>   (1: mpsc unbounded channel, 2: sp unbounded channel)
// exit 0: the control and the selected channel kind delivered the 1000 messages
// exit 1: a receive call made no progress for 3 s and the sender never ran

#include <pthread.h>
#include <stdio.h>
#include <stdlib.h>
#include <unistd.h>

#include "fiber_channel.h"
#include "fiber_manager.h"

#define COUNT 1000

static fiber_bounded_channel_t* bc;
static fiber_unbounded_channel_t uc;
static fiber_unbounded_sp_channel_t sc;

static volatile int kind;  // 0 bounded (control), 1 unbounded, 2 unbounded sp
static _Atomic long sent, recvd;
static _Atomic int sender_started, sender_past_gate, receiver_inside;
static const char* const kind_name[] = {
    "fiber_bounded_channel (NULL signal) [control]",
    "fiber_unbounded_channel (NULL signal)",
    "fiber_unbounded_sp_channel (NULL signal)"};

static void* snd(void* p) {
  sender_started = 1;
  // the schedule under test: the receiver reaches its receive call first
  while (!receiver_inside) fiber_yield();
  sender_past_gate = 1;
  for (long i = 1; i <= COUNT; i++) {
    if (kind == 0) {
      fiber_bounded_channel_send(bc, (void*)i);
    } else if (kind == 1) {
      fiber_unbounded_channel_message_t* n = malloc(sizeof(*n));
      n->data = (void*)i;
      fiber_unbounded_channel_send(&uc, n);
    } else {
      fiber_unbounded_sp_channel_message_t* n = malloc(sizeof(*n));
      n->data = (void*)i;
      fiber_unbounded_sp_channel_send(&sc, n);
    }
    sent++;
  }
  return 0;
}

static void* rcv(void* p) {
  for (long i = 1; i <= COUNT; i++) {
    long v;
    receiver_inside = 1;
    if (kind == 0) {
      v = (long)fiber_bounded_channel_receive(bc);
    } else if (kind == 1) {
      fiber_unbounded_channel_message_t* n = fiber_unbounded_channel_receive(&uc);
      v = (long)n->data;
      free(n);
    } else {
      fiber_unbounded_sp_channel_message_t* n =
          fiber_unbounded_sp_channel_receive(&sc);
      v = (long)n->data;
      free(n);
    }
    receiver_inside = 0;
    if (v != i) {
      printf("out of order: got %ld expected %ld\n", v, i);
      fflush(stdout);
      _exit(2);
    }
    recvd++;
  }
  return 0;
}

static void* watchdog(void* p) {
  long ls = -1, lr = -1;
  int lk = -1, same = 0;
  while (1) {
    usleep(100000);
    if (sent == ls && recvd == lr && kind == lk) {
      if (++same >= 30) {
        printf("%s: NO PROGRESS for 3 s: sent=%ld received=%ld of %d\n",
               kind_name[kind], (long)sent, (long)recvd, COUNT);
        printf("  receiver is %s the receive call; the sender fiber exists, %s\n",
               receiver_inside ? "spinning inside" : "outside",
               sender_past_gate
                   ? "and is sending"
                   : "is runnable, but has not been given the kernel thread "
                     "since the receiver entered receive");
        printf(
            "VIOLATION (C11, 1 kernel thread): the receiver that found the "
            "channel empty monopolises the only kernel thread, so no send can "
            "ever happen and it is never resumed; the sending peer is "
            "stranded.\n");
        fflush(stdout);
        _exit(1);
      }
    } else {
      same = 0;
    }
    ls = sent;
    lr = recvd;
    lk = kind;
  }
  return 0;
}

int main(int argc, char** argv) {
  const int which = argc > 1 ? atoi(argv[1]) : 1;  // 1 or 2
  setvbuf(stdout, NULL, _IOLBF, 0);
  fiber_manager_init(1);
  bc = fiber_bounded_channel_create(4, NULL);
  fiber_unbounded_channel_init(&uc, NULL);
  fiber_unbounded_sp_channel_init(&sc, NULL);
  pthread_t t;
  pthread_create(&t, 0, watchdog, 0);

  for (int round = 0; round < 2; ++round) {
    const int k = round == 0 ? 0 : which;
    kind = k;
    sent = recvd = 0;
    sender_started = sender_past_gate = receiver_inside = 0;
    fiber_t* s = fiber_create(65536, snd, 0);
    fiber_t* r = fiber_create(65536, rcv, 0);
    fiber_join(s, 0);
    fiber_join(r, 0);
    printf("%s: sent=%ld received=%ld - ok\n", kind_name[k], (long)sent,
           (long)recvd);
  }
  return 0;
}
