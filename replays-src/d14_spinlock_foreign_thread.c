// Demonstration for finding 1 (property C18, fiber spinlock).
//
// A fiber spinlock that is HELD makes every other kernel thread that is not a
// libfiber scheduler thread (a plain pthread) crash inside
// fiber_spinlock_lock(): the contended path executes
//     fiber_manager_get()->spin_count += 1;
// and fiber_manager_get() returns NULL on such a thread.
//
// Scenario A: direct use of the API. The main thread (a fiber, manager 0)
//             holds the lock, a plain pthread calls fiber_spinlock_lock(), the
//             main thread unlocks 100ms later. Expected by C18: the pthread
//             gets the lock after the unlock (it is the only queued ticket).
// Scenario B: same, but the fiber runtime was never initialised and both
//             contenders are plain pthreads.
//
// Every scenario runs in a forked child so that the crash can be observed.
// exit status: 0 = property held in all scenarios, 1 = violated.

#define _GNU_SOURCE
#include <pthread.h>
#include <signal.h>
#include <stdio.h>
#include <stdlib.h>
#include <string.h>
#include <sys/wait.h>
#include <unistd.h>

#include "fiber_manager.h"
#include "fiber_spinlock.h"

static fiber_spinlock_t the_lock = FIBER_SPINLOCK_INITIALIER;
static volatile int contender_started = 0;
static volatile int contender_has_lock = 0;
static volatile int in_critical = 0;
static volatile int overlap = 0;

static void real_usleep(unsigned us) {
  // do not go through the usleep() shim of libfiber
  struct timespec ts = {us / 1000000, (us % 1000000) * 1000L};
  typedef int (*fn_t)(const struct timespec*, struct timespec*);
  static fn_t fn = NULL;
  if (!fn) fn = (fn_t)fiber_load_symbol("nanosleep");
  fn(&ts, NULL);
}

static void* plain_pthread_contender(void* p) {
  (void)p;
  contender_started = 1;
  fiber_spinlock_lock(&the_lock);  // lock is held: must wait for its ticket
  if (in_critical) overlap = 1;
  contender_has_lock = 1;
  fiber_spinlock_unlock(&the_lock);
  return NULL;
}

static int scenario(int init_runtime) {
  if (init_runtime) {
    fiber_manager_init(1);
  }
  fiber_spinlock_init(&the_lock);

  fiber_spinlock_lock(&the_lock);  // uncontended: fine
  in_critical = 1;

  pthread_t t;
  pthread_create(&t, NULL, &plain_pthread_contender, NULL);
  while (!contender_started) {
  }
  real_usleep(100000);  // the contender is now spinning on its ticket
  if (contender_has_lock) {
    printf("  mutual exclusion violated\n");
    return 2;
  }
  in_critical = 0;
  fiber_spinlock_unlock(&the_lock);
  pthread_join(t, NULL);
  if (!contender_has_lock || overlap) {
    printf("  contender did not get the lock properly\n");
    return 2;
  }
  return 0;
}

static int run_forked(const char* name, int init_runtime) {
  fflush(stdout);
  const pid_t pid = fork();
  if (pid == 0) {
    _exit(scenario(init_runtime));
  }
  int status = 0;
  waitpid(pid, &status, 0);
  if (WIFSIGNALED(status)) {
    printf("%s: VIOLATED - contender killed by signal %d (%s) inside "
           "fiber_spinlock_lock()\n",
           name, WTERMSIG(status), strsignal(WTERMSIG(status)));
    return 1;
  }
  if (WEXITSTATUS(status) != 0) {
    printf("%s: VIOLATED - exit status %d\n", name, WEXITSTATUS(status));
    return 1;
  }
  printf("%s: ok - the queued contender acquired the lock after unlock\n",
         name);
  return 0;
}

int main() {
  int bad = 0;
  bad |= run_forked("A (holder: fiber on a scheduler thread, contender: plain "
                    "pthread)",
                    1);
  bad |= run_forked("B (no runtime, holder and contender: plain pthreads)", 0);
  return bad;
}
