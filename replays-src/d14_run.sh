#!/bin/sh
# usage: run_demo_1.sh <path-to-library-source-tree>
# exit 0: property C18 held; non-zero: violated (or build failure)
set -u
SRC=${1:?usage: run_demo_1.sh <libfiber source tree>}
SRC=$(cd "$SRC" && pwd)
HERE=$(cd "$(dirname "$0")" && pwd)
TMP=$(mktemp -d /tmp/hunt-H10-demo1.XXXXXX)
trap 'rm -rf "$TMP"' EXIT
cmake -G Ninja -S "$SRC" -B "$TMP/b" -DCMAKE_BUILD_TYPE=RelWithDebInfo \
      -DFIBER_RUN_TESTS_WITH_BUILD=OFF >/dev/null || exit 99
cmake --build "$TMP/b" --target fiber >/dev/null || exit 99
gcc -O1 -g -DFIBER_STACK_SPLIT -I"$SRC/include" -fsplit-stack \
    "$HERE/d14_spinlock_foreign_thread.c" "$TMP/b/libfiber.a" -lpthread -ldl -o "$TMP/demo_1" || exit 99
timeout 60 "$TMP/demo_1"
rc=$?
if [ $rc -eq 0 ]; then echo "RESULT: property held"; else echo "RESULT: property VIOLATED (rc=$rc)"; fi
exit $rc
