// Demonstration for finding 1, second form: NO instrumentation at all.
//
// 5 sender fibers and 5 receiver fibers, 5 messages each (25 sent == 25
// received), one fiber_multi_channel of capacity 2, one kernel thread, the
// unmodified library and headers, no hooks, no delays. The run is
// deterministic (one kernel thread, no I/O, no timers).
//
// Because blocked senders and blocked receivers share the single LIFO list
// channel->waiters and each completed operation wakes only its top entry,
// wake-ups land on fibers of the wrong kind, which go back to sleep without
// passing the wake-up on. The program stops for good after 12 sends and 10
// receives: the channel is FULL (2/2), four senders are asleep inside
// fiber_multi_channel_send and three receivers that have not received anything
// yet are asleep inside fiber_multi_channel_receive - blocked on a channel that
// holds messages, never resumed by the sends that filled it.
//
// exit 0: all 25 messages were transferred exactly once
// exit 1: no progress for 3 seconds while work remains (stranded peers)

#include <pthread.h>
#include <stdio.h>
#include <stdlib.h>
#include <unistd.h>

#include "fiber_manager.h"
#include "fiber_multi_channel.h"

#define NS 5
#define NR 5
#define PER 5
#define CAPACITY_LOG2 1

static fiber_multi_channel_t* ch;
static _Atomic long sent, recvd;
static _Atomic int inside[NS + NR];  // 1 while inside send/receive
static _Atomic int ops[NS + NR];
static _Atomic int seen[NS * PER + 1];

static void* snd(void* p) {
  const int me = (int)(intptr_t)p;
  for (long i = 0; i < PER; i++) {
    inside[me] = 1;
    fiber_multi_channel_send(ch, (void*)(intptr_t)(me * PER + i + 1));
    inside[me] = 0;
    ops[me]++;
    sent++;
  }
  return 0;
}

static void* rcv(void* p) {
  const int me = (int)(intptr_t)p;
  for (long i = 0; i < PER; i++) {
    inside[me] = 1;
    const intptr_t v = (intptr_t)fiber_multi_channel_receive(ch);
    inside[me] = 0;
    seen[v]++;
    ops[me]++;
    recvd++;
  }
  return 0;
}

static void* watchdog(void* p) {
  long ls = -1, lr = -1;
  int same = 0;
  while (1) {
    usleep(100000);
    if (sent == ls && recvd == lr) {
      if (++same >= 30) {
        const long held = sent - recvd;
        printf("NO PROGRESS for 3 s: sent=%ld received=%ld of %d, channel holds %ld/%d\n",
               (long)sent, (long)recvd, NS * PER, held, 1 << CAPACITY_LOG2);
        int stranded = 0;
        for (int i = 0; i < NS + NR; ++i) {
          if (!inside[i]) continue;
          const int is_s = i < NS;
          printf("  %s%d asleep inside fiber_multi_channel_%s (%d of %d done)\n",
                 is_s ? "S" : "R", i, is_s ? "send" : "receive", ops[i], PER);
          if (is_s && held < (1 << CAPACITY_LOG2)) stranded = 1;
          if (!is_s && held > 0) stranded = 1;
        }
        if (stranded) {
          printf(
              "VIOLATION (C11): %s\n",
              held == 0
                  ? "senders are blocked on a channel that is EMPTY (not "
                    "full); the receives that emptied it did not resume them"
                  : "receivers are blocked on a channel that holds messages");
        }
        fflush(stdout);
        _exit(1);
      }
    } else {
      same = 0;
    }
    ls = sent;
    lr = recvd;
  }
  return 0;
}

int main(void) {
  fiber_manager_init(1);
  ch = fiber_multi_channel_create(CAPACITY_LOG2);
  pthread_t t;
  pthread_create(&t, 0, watchdog, 0);
  fiber_t* f[NS + NR];
  for (int i = 0; i < NS; i++) f[i] = fiber_create(65536, snd, (void*)(intptr_t)i);
  for (int i = NS; i < NS + NR; i++) f[i] = fiber_create(65536, rcv, (void*)(intptr_t)i);
  for (int i = 0; i < NS + NR; i++) fiber_join(f[i], 0);
  int ok = 1;
  for (int v = 1; v <= NS * PER; ++v) ok &= seen[v] == 1;
  printf("done: sent=%ld received=%ld, every message exactly once: %s\n",
         (long)sent, (long)recvd, ok ? "yes" : "NO");
  return ok ? 0 : 2;
}
