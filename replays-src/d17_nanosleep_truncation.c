// demo_2: nanosleep() with tv_sec >= 2^32 returns (almost) immediately.
//
// src/fiber_io.c: nanosleep() passes the 64-bit time_t rqtp->tv_sec to
// fiber_sleep(uint32_t seconds, uint32_t useconds); the value is truncated
// modulo 2^32. A request of 4294967296 s (2^32) becomes 0 s, 4294967297 s
// becomes 1 s, ... The call reports success (returns 0, *rmtp = 0).
//
// A fiber asks for 2^32 seconds + 0 ns. The main fiber waits WATCH_MS and then
// looks whether the sleeper has already been resumed.
// exit 0: still asleep after WATCH_MS (as it must be), exit 1: resumed early.
#define _GNU_SOURCE
#include <stdatomic.h>
#include <stdio.h>
#include <stdlib.h>
#include <time.h>
#include <unistd.h>

#include "fiber.h"
#include "fiber_event.h"
#include "fiber_manager.h"

#define WATCH_MS 3000

static inline uint64_t now_ns(void) {
  struct timespec ts;
  clock_gettime(CLOCK_MONOTONIC, &ts);
  return (uint64_t)ts.tv_sec * 1000000000ull + ts.tv_nsec;
}

static _Atomic int resumed = 0;
static _Atomic uint64_t slept_ns = 0;
static _Atomic int ret_val = -2;

static void* sleeper(void* p) {
  (void)p;
  struct timespec req = {.tv_sec = (time_t)4294967296LL, .tv_nsec = 0};
  struct timespec rem = {.tv_sec = 7, .tv_nsec = 7};
  const uint64_t t0 = now_ns();
  ret_val = nanosleep(&req, &rem);
  slept_ns = now_ns() - t0;
  resumed = 1;
  return NULL;
}

int main(void) {
  setvbuf(stdout, NULL, _IONBF, 0);
  fiber_manager_init(2);
  fiber_t* f = fiber_create(64 * 1024, sleeper, NULL);
  fiber_detach(f);

  const uint64_t t0 = now_ns();
  while (!resumed && now_ns() - t0 < (uint64_t)WATCH_MS * 1000000ull) {
    usleep(10000);  // the main fiber sleeps too, so every thread may idle+poll
  }
  if (resumed) {
    printf("demo_2: nanosleep({tv_sec = 4294967296, tv_nsec = 0}) returned %d "
           "after %.3f ms\n", (int)ret_val, slept_ns / 1e6);
    printf("demo_2: VIOLATION - resumed ~136 years early\n");
    return 1;
  }
  printf("demo_2: sleeper still suspended after %d ms - ok\n", WATCH_MS);
  return 0;
}
