// Demo 2 (C04): fiber_join returns FIBER_SUCCESS (with *result == NULL) while
// the joined fiber is still running, when a third fiber calls fiber_detach()
// on it.  No race, no hook: 1 kernel thread, fully deterministic.
//
//   F : long running fiber (keeps yielding until 'go'), would return 0x1234
//   A : fiber_join(F, &r)         -> blocks (F not finished)
//   M : fiber_detach(F)           -> wakes A
//   A : fiber_join returns FIBER_SUCCESS, r == NULL, F's function has NOT
//       returned
//
// exit 0: property held; 1: violated.
#include <pthread.h>
#include <stdatomic.h>
#include <stdio.h>
#include <stdlib.h>
#include <time.h>
#include <unistd.h>

#include "fiber_manager.h"

#define RESULT ((void*)0x1234)

static fiber_t* volatile F;
static _Atomic int go, f_returned, a_waiting, a_done, a_ret = -1;
static _Atomic int f_returned_when_join_returned = -1;
static void* _Atomic a_res;

static double now() {
  struct timespec ts;
  clock_gettime(CLOCK_MONOTONIC, &ts);
  return ts.tv_sec + ts.tv_nsec * 1e-9;
}

static void* f_func(void* p) {
  while (!go) {
    fiber_yield();
  }
  f_returned = 1;
  return RESULT;
}

static void* a_func(void* p) {
  void* r = (void*)0xdead;
  a_waiting = 1;
  const int rc = fiber_join(F, &r);
  f_returned_when_join_returned = f_returned;
  a_res = r;
  a_ret = rc;
  a_done = 1;
  return NULL;
}

static void* watchdog(void* p) {
  sleep(60);
  printf("watchdog: scenario did not terminate\n");
  _exit(3);
}

static int run(int nthreads_label) {
  go = 0; f_returned = 0; a_waiting = 0; a_done = 0; a_ret = -1;
  f_returned_when_join_returned = -1; a_res = NULL;

  F = fiber_create(20000, f_func, NULL);
  fiber_t* const A = fiber_create(20000, a_func, NULL);
  while (!a_waiting) fiber_yield();
  for (int i = 0; i < 200; ++i) fiber_yield();  // A is blocked in fiber_join now

  const int d = fiber_detach(F);
  printf("fiber_detach(F) returned %d while A is blocked in fiber_join(F) and "
         "F is still running\n", d);

  // F keeps running for another 0.5s; see whether A's join returns meanwhile
  const double end = now() + 0.5;
  while (now() < end) fiber_yield();
  const int early = a_done;
  go = 1;  // let F finish (it is detached, it reclaims itself)
  const double end2 = now() + 5;
  while (!a_done && now() < end2) fiber_yield();

  printf("A: fiber_join(F) returned %d (%s), *result=%p; F's function had %s "
         "when the join returned\n", a_ret,
         a_ret == FIBER_SUCCESS ? "SUCCESS" : a_ret == -1 ? "not returned" : "ERROR",
         atomic_load(&a_res),
         f_returned_when_join_returned == 1 ? "returned" : "NOT returned");
  fiber_join(A, NULL);

  if (a_ret == FIBER_SUCCESS &&
      (early || f_returned_when_join_returned != 1 || atomic_load(&a_res) != RESULT)) {
    printf("VIOLATION of C04: successful join before the fiber's function "
           "returned / wrong value (%p instead of %p) / join of a detached "
           "fiber succeeded\n", atomic_load(&a_res), RESULT);
    return 1;
  }
  return 0;
}

int main(int argc, char** argv) {
  setvbuf(stdout, NULL, _IONBF, 0);
  pthread_t w;
  pthread_create(&w, NULL, watchdog, NULL);
  const int nthreads = argc > 1 ? atoi(argv[1]) : 1;
  fiber_manager_init(nthreads);
  printf("demo_2: %d kernel thread(s)\n", nthreads);
  const int bad = run(nthreads);
  if (!bad) printf("OK: the join did not succeed early\n");
  _exit(bad);
}
