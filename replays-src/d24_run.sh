#!/bin/bash
# usage: run_demo_2.sh <path-to-library-source-tree>
# exit 0: property held; non-zero: property violated (or build failure: 2)
set -u
SRC=${1:?usage: $0 <library source tree>}
SRC=$(cd "$SRC" && pwd)
HERE=$(cd "$(dirname "$0")" && pwd)
TMP=$(mktemp -d /tmp/hunt-H09-demo2.XXXXXX)
trap 'rm -rf "$TMP"' EXIT
cmake -G Ninja -S "$SRC" -B "$TMP/b" -DCMAKE_BUILD_TYPE=RelWithDebInfo -DFIBER_RUN_TESTS_WITH_BUILD=OFF >/dev/null 2>&1 || { echo "cmake failed"; exit 2; }
cmake --build "$TMP/b" --target fiber >/dev/null 2>&1 || cmake --build "$TMP/b" >/dev/null 2>&1 || { echo "build failed"; exit 2; }
gcc -O2 -g -DFIBER_STACK_SPLIT -I"$SRC/include" -fsplit-stack "$HERE/d24_scan_reentrant.c" "$TMP/b/libfiber.a" -lpthread -ldl -o "$TMP/demo_2" || { echo "demo build failed"; exit 2; }
# deterministic: the two threads are sequenced with flags
timeout 60 "$TMP/demo_2"
rc=$?
if [ $rc -ne 0 ]; then exit 1; fi
exit 0
