#!/bin/bash
# usage: run_demo_2.sh <path-to-library-source-tree>
# exit 0 = property C04 held, non-zero = violated (or build problem: 2)
set -u
SRC=$(cd "${1:?usage: $0 <libfiber source tree>}" && pwd)
HERE=$(cd "$(dirname "$0")" && pwd)
TMP=$(mktemp -d /tmp/hunt-H04-demo2.XXXXXX)
trap 'rm -rf "$TMP"' EXIT

cmake -G Ninja -S "$SRC" -B "$TMP/b" -DCMAKE_BUILD_TYPE=RelWithDebInfo \
      -DFIBER_RUN_TESTS_WITH_BUILD=OFF >/dev/null || exit 2
cmake --build "$TMP/b" --target fiber >/dev/null || exit 2

gcc -O1 -g -DFIBER_STACK_SPLIT -I"$SRC/include" -fsplit-stack "$HERE/d22_detach_joiner.c" \
    "$TMP/b/libfiber.a" -lpthread -ldl -o "$TMP/demo_2" || exit 2
timeout 100 "$TMP/demo_2" 1
