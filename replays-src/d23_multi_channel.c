// Demonstration for finding 1: fiber_multi_channel keeps blocked senders AND
// blocked receivers on ONE LIFO list (channel->waiters) and every completed
// send/receive wakes just the top entry, whatever its kind. A wake-up that
// lands on a fiber of the wrong kind is consumed (the fiber re-checks, finds
// its own condition still false, and goes back to sleep) and is not passed
// on. A receiver at the bottom of the list is then never resumed although the
// channel is full of messages.
//
// The library and its headers are used UNMODIFIED. The only instrumentation is
// a linker wrap (-Wl,--wrap=fiber_mutex_lock) of the fiber_mutex_lock() call
// that the inline channel code makes at the start of every attempt: the wrapper
// delays the calling fiber (fiber_yield() loop) until a controller says it is
// that fiber's turn. A delay before taking a lock is a legal schedule. One
// kernel thread is used, so the interleaving is fully deterministic.
//
// Workload (capacity 2): sender S0 sends 1 message, sender S1 sends 4,
// receivers R2 and R3 receive 1 each, receiver R4 receives 3. 5 sent == 5
// received, so every correct implementation terminates under every schedule.
//
// exit 0: all fibers finished (property held)
// exit 1: a receiver is blocked for ever on a channel that holds messages

#include <stdio.h>
#include <stdlib.h>
#include <unistd.h>

#include "fiber_manager.h"
#include "fiber_multi_channel.h"

#define NF 5
#define CAPACITY 2
static const char* const name[NF] = {"S0", "S1", "R2", "R3", "R4"};
static const int is_sender[NF] = {1, 1, 0, 0, 0};
static const int count[NF] = {1, 4, 1, 1, 3};

static fiber_multi_channel_t* ch;
static fiber_t* fibers[NF];
static volatile int turn = -1;
static volatile int at_gate[NF];
static volatile int finished[NF];
static volatile int ops_done[NF];
static int received[16];

static int whoami(void) {
  fiber_t* const me = fiber_manager_get()->current_fiber;
  for (int i = 0; i < NF; ++i) {
    if (fibers[i] == me) return i;
  }
  return -1;
}

int __real_fiber_mutex_lock(fiber_mutex_t* m);
int __wrap_fiber_mutex_lock(fiber_mutex_t* m) {
  // the worker fibers take no mutex other than the channel's internal one
  if (ch) {
    const int me = whoami();
    if (me >= 0) {
      at_gate[me] = 1;
      while (turn != me) fiber_yield();  // the injected delay
      at_gate[me] = 0;
      turn = -1;
    }
  }
  return __real_fiber_mutex_lock(m);
}

static void* worker(void* p) {
  const int me = (int)(intptr_t)p;
  for (int k = 0; k < count[me]; ++k) {
    if (is_sender[me]) {
      fiber_multi_channel_send(ch, (void*)(intptr_t)(me * 4 + k + 1));
    } else {
      const intptr_t v = (intptr_t)fiber_multi_channel_receive(ch);
      received[v] += 1;
    }
    ops_done[me] += 1;
  }
  finished[me] = 1;
  return NULL;
}

static void settle(void) {
  for (int i = 0; i < 200; ++i) fiber_yield();
}

// only the demo's own bookkeeping is used here (no channel internals), so the
// demo also builds against a library whose channel layout has changed
static int held(void) {
  int n = 0;
  for (int i = 0; i < NF; ++i) n += is_sender[i] ? ops_done[i] : -ops_done[i];
  return n;
}

static void print_state(void) {
  printf("    channel holds %d/%d;  asleep inside the channel:", held(),
         CAPACITY);
  for (int i = 0; i < NF; ++i)
    if (!finished[i] && !at_gate[i]) printf(" %s", name[i]);
  printf("\n");
}

int main(void) {
  setvbuf(stdout, NULL, _IOLBF, 0);
  fiber_manager_init(1);
  ch = fiber_multi_channel_create(1);  // capacity 2
  for (int i = 0; i < NF; ++i) {
    fibers[i] = fiber_create(65536, &worker, (void*)(intptr_t)i);
  }

  // preferred order of attempts; every entry is one "lock, check, then either
  // perform the operation or go to sleep" step of the named fiber
  static const int script[] = {4, 2, 3, 1, 1, 0, 1, 2, 1, 0, 1, 3, 1, 0};
  const int script_len = sizeof(script) / sizeof(script[0]);
  int pos = 0;
  int step = 0;

  while (1) {
    settle();
    int all = 1;
    for (int i = 0; i < NF; ++i) all &= finished[i];
    if (all) break;

    int pick = -1;
    if (pos < script_len && at_gate[script[pos]]) pick = script[pos];
    for (int i = 0; i < NF && pick < 0; ++i)
      if (at_gate[i]) pick = i;
    ++pos;

    if (pick < 0) {
      // nobody is runnable: give the runtime plenty of real time to prove us
      // wrong before declaring a deadlock
      for (int i = 0; i < 20; ++i) {
        usleep(50000);
        settle();
      }
      int any = 0;
      for (int i = 0; i < NF; ++i) any |= at_gate[i] | 0;
      all = 1;
      for (int i = 0; i < NF; ++i) all &= finished[i];
      if (any) continue;
      if (all) break;
      printf("\nDEADLOCK: no fiber is runnable and not all work is done\n");
      print_state();
      int bad = 0;
      for (int i = 0; i < NF; ++i) {
        if (finished[i]) continue;
        printf("    %s is blocked inside fiber_multi_channel_%s (%d of %d done)\n",
               name[i], is_sender[i] ? "send" : "receive", ops_done[i],
               count[i]);
        if (!is_sender[i] && held() > 0) bad = 1;
        if (is_sender[i] && held() < CAPACITY) bad = 1;
      }
      if (bad) {
        printf(
            "VIOLATION (C11): a receiver is blocked although the channel holds "
            "%d unreceived message(s); sends completed after it blocked and "
            "none of them resumed it.\n",
            held());
      }
      _exit(1);
    }

    const int before = ops_done[pick];
    turn = pick;
    while (turn != -1) fiber_yield();
    settle();
    ++step;
    printf("step %2d: %s %s\n", step, name[pick],
           ops_done[pick] > before
               ? (is_sender[pick] ? "sends" : "receives")
               : (is_sender[pick] ? "finds the channel full  -> sleeps"
                                  : "finds the channel empty -> sleeps"));
    print_state();
  }

  int ok = 1;
  for (int i = 0; i < NF; ++i) {
    if (!is_sender[i]) continue;
    for (int k = 0; k < count[i]; ++k) ok &= received[i * 4 + k + 1] == 1;
  }
  for (int i = 0; i < NF; ++i) fiber_join(fibers[i], NULL);
  printf("all fibers finished; every message received exactly once: %s\n",
         ok ? "yes" : "NO");
  return ok ? 0 : 2;
}
