// D8 (C08 mode): fcntl(F_SETFL) moves the BLOCKING mode only for val == O_NONBLOCK exactly.
//  (a) after O_NONBLOCK then F_SETFL 0 the descriptor is "blocking" for the user, yet read() fails with EAGAIN
//  (b) F_SETFL O_NONBLOCK|O_APPEND leaves it blocking: read() suspends instead of returning EAGAIN
#include <errno.h>
#include <fcntl.h>
#include <stdio.h>
#include <string.h>
#include <sys/socket.h>
#include <unistd.h>
#include "fiber.h"
#include "fiber_manager.h"
static int sv[2], sv2[2];
static void* writer(void* p) { (void)p; fiber_sleep(0, 300000); write(sv[1], "x", 1); write(sv2[1], "y", 1); return NULL; }
int main() {
  fiber_manager_init(1);
  socketpair(AF_UNIX, SOCK_STREAM, 0, sv);
  socketpair(AF_UNIX, SOCK_STREAM, 0, sv2);
  fiber_t* w = fiber_create(102400, &writer, NULL);
  char c;
  int bad = 0;
  fcntl(sv[0], F_SETFL, O_NONBLOCK);
  fcntl(sv[0], F_SETFL, 0);  // back to blocking mode
  errno = 0;
  ssize_t r = read(sv[0], &c, 1);
  printf("(a) blocking-mode read returned %zd errno=%d (%s)\n", r, errno, r < 0 ? strerror(errno) : "ok");
  if (r != 1) bad = 1;
  fcntl(sv2[0], F_SETFL, O_NONBLOCK | O_APPEND);
  errno = 0;
  r = read(sv2[0], &c, 1);  // nothing written yet in case (a) failed fast; else 'y' may be there
  printf("(b) O_NONBLOCK|O_APPEND read returned %zd errno=%d\n", r, errno);
  fiber_join(w, NULL);
  printf(bad ? "DEFECT\n" : "OK\n");
  return bad;
}
