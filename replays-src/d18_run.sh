#!/bin/bash
# usage: run_demo_2.sh <path-to-library-source-tree>
# exit 0: property held; non-zero: property violated (or the demo could not run)
SRC="${1:?usage: $0 <path-to-library-source-tree>}"
SRC="$(cd "$SRC" && pwd)" || exit 2
HERE="$(cd "$(dirname "$0")" && pwd)"
TMP="$(mktemp -d /tmp/hunt-H06-demo2.XXXXXX)" || exit 2
trap 'rm -rf "$TMP"' EXIT
cmake -G Ninja -S "$SRC" -B "$TMP/b" -DCMAKE_BUILD_TYPE=RelWithDebInfo \
  -DFIBER_RUN_TESTS_WITH_BUILD=OFF >"$TMP/cmake.log" 2>&1 &&
  cmake --build "$TMP/b" --target fiber >>"$TMP/cmake.log" 2>&1 ||
  { cat "$TMP/cmake.log"; echo "library build failed"; exit 2; }
gcc -O1 -g -DFIBER_STACK_SPLIT -I"$SRC/include" -fsplit-stack \
  "$HERE/d18_connect_eagain.c" "$TMP/b/libfiber.a" -lpthread -ldl -o "$TMP/demo" ||
  { echo "demo build failed"; exit 2; }
timeout 60 "$TMP/demo" ; rc=$?
if [ $rc -eq 0 ]; then echo "demo_2: property held"; else echo "demo_2: PROPERTY VIOLATED (rc=$rc)"; fi
exit $rc
