// Demo 1 (C04): a fiber_join that is already waiting and a concurrent
// fiber_tryjoin both take the "I am the joiner" path when the fiber finishes.
//
// Schedule (3 kernel threads):
//   A : fiber_join(F, &ra)            -> blocks, F->detach_state = WAIT_TO_JOIN
//   F : returns (void*)0x1234; in fiber_mark_completed() it executes
//       atomic_exchange(&detach_state, WAIT_FOR_JOINER)      (old = WAIT_TO_JOIN)
//   B : fiber_tryjoin(F, &rb)  on another kernel thread, right now
//   F : continues with fiber_manager_clear_or_wait(&join_info) ...
//
// HOOKED build (default, -DHOOKED): a copy of src/fiber.c calls
// demo_hook_completed() right after F's atomic_exchange; the hook busy-waits
// until B has done its tryjoin.  This only holds the race window open.
// UNHOOKED build: B simply polls fiber_tryjoin in a tight loop on its own
// kernel thread; the same window is hit within the first few trials and B
// then never returns from fiber_tryjoin (it spins on F's freed memory).
//
// exit 0: property held; exit !=0: violated.
#include <pthread.h>
#include <stdatomic.h>
#include <stdio.h>
#include <stdlib.h>
#include <time.h>
#include <unistd.h>

#include "fiber_manager.h"

#define RESULT ((void*)0x1234)

static fiber_t* volatile F;
static _Atomic(void*) watch_ptr;  // counted by __wrap_free
static _Atomic int freed_count;

void __real_free(void* p);
void __wrap_free(void* p) {
  if (p && p == atomic_load(&watch_ptr)) {
    atomic_fetch_add(&freed_count, 1);
  }
  __real_free(p);
}

static _Atomic int go, a_waiting, a_done, b_spinning, b_done, b_stop, b_in_call;
static _Atomic int f_in_window, b_acted, hook_armed, hook_old_state = -1;
static _Atomic int a_ret = -1, b_ret = -1;
static void* _Atomic a_res;
static void* volatile b_res;  // written by fiber_tryjoin itself through &b_res
static _Atomic int f_returned;

static double now() {
  struct timespec ts;
  clock_gettime(CLOCK_MONOTONIC, &ts);
  return ts.tv_sec + ts.tv_nsec * 1e-9;
}

// called (only in the HOOKED build) from the copy of fiber_mark_completed(),
// right after detach_state was exchanged to WAIT_FOR_JOINER
void demo_hook_completed(fiber_t* f, int old_state) {
  if (f != F || !hook_armed) {
    return;
  }
  hook_old_state = old_state;
  f_in_window = 1;
  const double end = now() + 10.0;
  while (!b_acted && now() < end) {
    cpu_relax();  // pure delay: this kernel thread is just slow here
  }
}

static void* f_func(void* p) {
  while (!go) {
    fiber_yield();
  }
  f_returned = 1;
  return RESULT;
}

static void* a_func(void* p) {
  void* r = (void*)0xdead;
  a_waiting = 1;
  const int rc = fiber_join(F, &r);
  a_res = r;
  a_ret = rc;
  a_done = 1;
  return NULL;
}

static void* b_func(void* p) {
  // phase 1: cooperative, until main says A is blocked in fiber_join
  while (!hook_armed) {
    fiber_yield();
  }
  // phase 2: never yield again -> B owns a kernel thread of its own, so F
  // necessarily runs on a different kernel thread
  b_spinning = 1;
#ifdef HOOKED
  while (!f_in_window && !b_stop) {
    cpu_relax();
  }
  if (!b_stop) {
    b_in_call = 1;
    b_ret = fiber_tryjoin(F, (void**)&b_res);
    b_in_call = 0;
  }
  b_acted = 1;
#else
  while (!b_stop) {
    b_in_call = 1;
    const int rc = fiber_tryjoin(F, (void**)&b_res);
    b_in_call = 0;
    if (rc == FIBER_SUCCESS) {
      b_ret = rc;
      break;
    }
  }
  b_acted = 1;
#endif
  b_done = 1;
  return NULL;
}

static void report(const char* what) {
  printf("%s\n", what);
  printf("  A: fiber_join    returned %d (%s), *result = %p\n", a_ret,
         a_ret == FIBER_SUCCESS ? "SUCCESS" : a_ret == -1 ? "not returned" : "ERROR",
         atomic_load(&a_res));
  printf("  B: fiber_tryjoin returned %d (%s), *result = %p%s\n", b_ret,
         b_ret == FIBER_SUCCESS ? "SUCCESS" : b_ret == -1 ? "not returned" : "ERROR",
         b_res, b_in_call ? "   [B is still inside fiber_tryjoin]" : "");
  printf("  F returned %p from its function; fiber_t of F freed %d time(s)\n",
         RESULT, freed_count);
}

static void* watchdog(void* p) {
  sleep(40);
  report("VIOLATION (watchdog, 40s): the scenario did not terminate");
  _exit(3);
}

// yield until cond or timeout; returns 1 if cond became true
#define WAIT_FOR(cond, seconds)                   \
  ({                                              \
    const double end_ = now() + (seconds);        \
    while (!(cond) && now() < end_) fiber_yield(); \
    (cond) ? 1 : 0;                               \
  })

int main() {
  setvbuf(stdout, NULL, _IONBF, 0);
  pthread_t w;
  pthread_create(&w, NULL, watchdog, NULL);
  fiber_manager_init(3);

#ifdef HOOKED
  const int trials = 1;
  printf("demo_1: HOOKED build (window held open by demo_hook_completed)\n");
#else
  const int trials = 200;
  printf("demo_1: UNHOOKED build (B polls fiber_tryjoin in a tight loop)\n");
#endif

  for (int t = 0; t < trials; ++t) {
    go = 0; a_waiting = 0; a_done = 0; b_spinning = 0; b_done = 0; b_stop = 0;
    f_in_window = 0; b_acted = 0; hook_armed = 0; a_ret = -1; b_ret = -1;
    a_res = NULL; b_res = NULL; f_returned = 0; freed_count = 0;

    F = fiber_create(20000, f_func, NULL);
    watch_ptr = F;
    fiber_t* const A = fiber_create(20000, a_func, NULL);
    fiber_t* const B = fiber_create(20000, b_func, NULL);

    // let A block in fiber_join(F)
    WAIT_FOR(a_waiting, 10);
    for (int i = 0; i < 200; ++i) fiber_yield();
    hook_armed = 1;
    if (!WAIT_FOR(b_spinning, 10)) {
      printf("setup problem: B never started\n");
      return 2;
    }
    go = 1;  // F's function returns now

    const int a_ok = WAIT_FOR(a_done, 5);
#ifndef HOOKED
    b_stop = 1;
#endif
    const int b_ok = WAIT_FOR(b_done, 5);
    // give F time to be reclaimed
    WAIT_FOR(freed_count >= 1, 3);

    int bad = 0;
    if (!a_ok || !b_ok) bad = 1;                              // somebody hangs
    if (a_ret == FIBER_SUCCESS && b_ret == FIBER_SUCCESS) bad = 1;  // 2 joiners
    if (a_ret == FIBER_SUCCESS && atomic_load(&a_res) != RESULT) bad = 1;
    if (b_ret == FIBER_SUCCESS && b_res != RESULT) bad = 1;
    if (a_ret != FIBER_SUCCESS && b_ret != FIBER_SUCCESS) bad = 1;  // nobody
    if (freed_count != 1) bad = 1;                            // reclaimed once

    if (bad) {
      printf("trial %d (hook saw old_state=%d):\n", t, hook_old_state);
      report("VIOLATION of C04");
      if (!b_ok) {
        printf("  -> fiber_tryjoin did not return within 5s: it took the "
               "'I am the joiner' path (it stored *result) and now spins in "
               "fiber_manager_clear_or_wait() on F, which A joined too\n");
      }
      if (a_ret == FIBER_SUCCESS && b_ret == FIBER_SUCCESS) {
        printf("  -> two joiners succeeded for one fiber\n");
      }
      if (a_ret == FIBER_SUCCESS && atomic_load(&a_res) != RESULT) {
        printf("  -> a successful fiber_join delivered %p instead of %p\n",
               atomic_load(&a_res), RESULT);
      }
      if (freed_count != 1) {
        printf("  -> F was reclaimed %d times (it is stuck forever in "
               "fiber_manager_clear_or_wait)\n", freed_count);
      }
      _exit(1);
    }
    watch_ptr = NULL;
    fiber_join(A, NULL);
    fiber_join(B, NULL);
  }
  printf("OK: exactly one joiner succeeded with %p, F reclaimed exactly once "
         "(%d trial(s))\n", RESULT, trials);
  _exit(0);
}
