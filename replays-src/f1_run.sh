#!/bin/bash
# usage: run_demo_1.sh <path-to-library-source-tree>
# exit 0 = property C19 held, non-zero = violated (or build failure: 2)
set -u
SRC=$(readlink -f "${1:?usage: $0 <libfiber source tree>}")
HERE=$(dirname "$(readlink -f "$0")")
TMP=$(mktemp -d /tmp/hunt_demo1.XXXXXX)
trap 'rm -rf "$TMP"' EXIT
cmake -G Ninja -S "$SRC" -B "$TMP/b" -DCMAKE_BUILD_TYPE=RelWithDebInfo \
      -DFIBER_RUN_TESTS_WITH_BUILD=OFF >/dev/null || exit 2
cmake --build "$TMP/b" --target fiber >/dev/null || exit 2
gcc -O1 -g -DFIBER_STACK_SPLIT -I"$SRC/include" -fsplit-stack "$HERE/f1_fpcontrol.c" \
    "$TMP/b/libfiber.a" -lpthread -ldl -lm -o "$TMP/demo_1" || exit 2
timeout 60 "$TMP/demo_1"
rc=$?
echo "demo_1 exit status: $rc"
exit $rc
