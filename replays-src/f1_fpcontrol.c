// Demonstration for finding 1 (property C19):
// fiber_context_swap() (assembly back-end, x86-64) does not save/restore the
// callee-saved floating point control state (MXCSR control bits, x87 control
// word).  A fiber resumes with whatever the last running context left there.
//
// exit status: 0 = property held, 1 = violated
#include <fenv.h>
#include <pthread.h>
#include <sys/syscall.h>
#include <sys/wait.h>
#include <time.h>
#include <unistd.h>
#include <stdint.h>
#include <stdio.h>
#include <string.h>

#include "fiber.h"
#include "fiber_context.h"
#include "fiber_manager.h"

static uint32_t get_mxcsr(void) {
  uint32_t v;
  __asm__ volatile("stmxcsr %0" : "=m"(v));
  return v;
}
static void set_mxcsr(uint32_t v) { __asm__ volatile("ldmxcsr %0" : : "m"(v)); }
static uint16_t get_x87cw(void) {
  uint16_t v;
  __asm__ volatile("fnstcw %0" : "=m"(v));
  return v;
}
static void set_x87cw(uint16_t v) { __asm__ volatile("fldcw %0" : : "m"(v)); }

#define MXCSR_CTRL 0xffc0u /* control bits: masks, RC, FTZ, DAZ (callee-saved) */

static int violations = 0;

/* ------------------------------------------------------------------ */
/* part A: raw contexts, A -> B -> A                                    */
static fiber_context_t ctx[2];

static void* part_a_other(void* p) {
  (void)p;
  // context B chooses its own floating point environment
  set_mxcsr((get_mxcsr() & ~0x6000u) | 0x2000u); /* RC = round down */
  set_x87cw((get_x87cw() & ~0x0c00) | 0x0400);   /* RC = round down */
  fiber_context_swap(&ctx[1], &ctx[0]);
  return NULL;
}

static void part_a(void) {
  fiber_context_init_from_thread(&ctx[0]);
  if (!fiber_context_init(&ctx[1], 65536, &part_a_other, NULL)) {
    printf("part A: fiber_context_init failed\n");
    violations++;
    return;
  }
  // context A: round up, flush-to-zero
  set_mxcsr((get_mxcsr() & ~0x6000u) | 0x4000u | 0x8000u);
  set_x87cw((get_x87cw() & ~0x0c00) | 0x0800);

  // ordinary callee-saved registers as a control: they do survive
  register uint64_t r12v __asm__("r12") = 0x1212121212121212ull;
  __asm__ volatile("" : "+r"(r12v));

  const uint32_t mx_before = get_mxcsr() & MXCSR_CTRL;
  const uint16_t cw_before = get_x87cw();
  fiber_context_swap(&ctx[0], &ctx[1]); /* A -> B -> A */
  const uint32_t mx_after = get_mxcsr() & MXCSR_CTRL;
  const uint16_t cw_after = get_x87cw();
  __asm__ volatile("" : "+r"(r12v));

  printf("part A (raw contexts A->B->A):\n");
  printf("  r12            before %#llx after %#llx  %s\n",
         0x1212121212121212ull, (unsigned long long)r12v,
         r12v == 0x1212121212121212ull ? "preserved" : "LOST");
  printf("  MXCSR control  before %#06x after %#06x  %s\n", mx_before, mx_after,
         mx_before == mx_after ? "preserved" : "LOST");
  printf("  x87 ctrl word  before %#06x after %#06x  %s\n", cw_before, cw_after,
         cw_before == cw_after ? "preserved" : "LOST");
  if (mx_before != mx_after || cw_before != cw_after ||
      r12v != 0x1212121212121212ull) {
    violations++;
  }
  fesetenv(FE_DFL_ENV);
  fiber_context_destroy(&ctx[1]);
}

/* ------------------------------------------------------------------ */
/* part B: whole runtime, one kernel thread, two fibers that yield      */
static volatile double one = 1.0, three = 3.0;
static double a_first, a_second;
static int b_round_at_start = -1;

static void* fiber_a(void* p) {
  (void)p;
  fesetround(FE_UPWARD);
  a_first = one / three;  // rounded up
  a_second = a_first;
  int i;
  for (i = 0; i < 4 && a_second == a_first; ++i) {
    fiber_yield();           // B runs meanwhile
    a_second = one / three;  // same fiber, same expression
  }
  return NULL;
}

static void* fiber_b(void* p) {
  (void)p;
  b_round_at_start = fegetround();  // a new fiber; never touched the fenv
  int i;
  for (i = 0; i < 4; ++i) {
    fesetround(FE_DOWNWARD);  // B's own choice, made while B is running
    fiber_yield();
  }
  return NULL;
}

static void part_b(void) {
  fiber_manager_init(1);
  fiber_t* a = fiber_create(102400, &fiber_a, NULL);
  fiber_t* b = fiber_create(102400, &fiber_b, NULL);
  fiber_join(a, NULL);
  fiber_join(b, NULL);
  fesetenv(FE_DFL_ENV);
  printf("part B (runtime, 1 kernel thread, fibers A and B yield to each "
         "other):\n");
  printf("  fiber A: 1.0/3.0 before its yield = %.20g\n", a_first);
  printf("  fiber A: 1.0/3.0 after  its yield = %.20g  %s\n", a_second,
         a_first == a_second ? "same" : "DIFFERENT (B's rounding mode leaked)");
  printf("  fiber B started with rounding mode %#x (%s)\n", b_round_at_start,
         b_round_at_start == FE_TONEAREST ? "default"
                                          : "NOT the default: A's mode leaked");
  if (a_first != a_second) {
    violations++;
  }
}

/* ------------------------------------------------------------------ */
/* part C: two kernel threads; nobody but fiber A touches the FP state. */
/* A is stolen by the other kernel thread while it is queued            */
static double now(void) {
  struct timespec t;
  clock_gettime(CLOCK_MONOTONIC, &t);
  return t.tv_sec + t.tv_nsec * 1e-9;
}

static void* hog(void* p) {  // keeps a kernel thread busy for p milliseconds
  const double end = now() + (double)(long)p / 1000.0;
  while (now() < end) {
  }
  return NULL;
}

static void* fiber_c(void* p) {
  (void)p;
  int round;
  for (round = 0; round < 40; ++round) {
    fesetround(FE_UPWARD);
    const long tid_before = syscall(SYS_gettid);
    // h0 is taken by the idle kernel thread, h runs here once A yields; when
    // h0 is done the other kernel thread is idle again and steals A
    fiber_t* h0 = fiber_create(65536, &hog, (void*)20);
    fiber_t* h = fiber_create(65536, &hog, (void*)60);
    fiber_yield();
    const int migrated = tid_before != syscall(SYS_gettid);
    const int mode = fegetround();
    fiber_join(h, NULL);
    fiber_join(h0, NULL);
    if (migrated) {
      printf("  round %d: A was resumed by another kernel thread; its rounding "
             "mode is now %#x, it had set %#x  %s\n",
             round, mode, FE_UPWARD, mode == FE_UPWARD ? "preserved" : "LOST");
      return (void*)(long)(mode != FE_UPWARD);
    }
  }
  printf("  (A was never stolen in 40 rounds - nothing observed)\n");
  return NULL;
}

static void part_c(void) {
  printf("part C (runtime, 2 kernel threads, only fiber A touches the FP "
         "state):\n");
  fiber_manager_init(2);
  fiber_t* c = fiber_create(102400, &fiber_c, NULL);
  void* r = NULL;
  fiber_join(c, &r);
  if (r) {
    violations++;
  }
}

static int in_child(void (*part)(void)) {
  fflush(stdout);
  const pid_t pid = fork();
  if (pid == 0) {
    violations = 0;
    part();
    _exit(violations ? 1 : 0);
  }
  int status = 0;
  waitpid(pid, &status, 0);
  return !(WIFEXITED(status) && WEXITSTATUS(status) == 0);
}

int main(void) {
  setvbuf(stdout, NULL, _IONBF, 0);
  part_a();
  violations += in_child(&part_b);
  violations += in_child(&part_c);
  if (violations) {
    printf("VIOLATED: a context does not get back the callee-saved FP control "
           "state it was switched out with\n");
    return 1;
  }
  printf("OK: callee-saved state preserved\n");
  return 0;
}
