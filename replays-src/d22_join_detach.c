// Demo 3 (C04): fiber_join() racing with fiber_detach() overwrites the
// DETACHED mark.  The join correctly fails, but the detached fiber is then
// never reclaimed: when its function returns it believes a joiner is waiting
// and spins forever in fiber_manager_clear_or_wait().
//
// Schedule (2 kernel threads):
//   J (thread 1): fiber_join(F): reads detach_state == NONE  ("not detached")
//   M (thread 0): fiber_detach(F)  -> exchange(DETACHED), old NONE -> SUCCESS
//   J (thread 1): atomic_exchange(&detach_state, WAIT_TO_JOIN) -> old DETACHED
//                 -> returns FIBER_ERROR  (fine), but detach_state is now
//                 WAIT_TO_JOIN and join_info will never be set
//   F           : function returns; fiber_mark_completed(): state != DETACHED,
//                 exchange -> old WAIT_TO_JOIN -> clear_or_wait(&join_info)
//                 forever.  F is never marked DONE, never freed.
//
// HOOKED build (-DHOOKED): a copy of src/fiber.c calls demo_hook_join() between
// fiber_join's "is it detached?" check and its atomic_exchange; the hook
// busy-waits until the main fiber (on another kernel thread) has detached F.
// UNHOOKED build: plain stress of join vs detach (window is a few
// instructions, so it will normally pass).
//
// Reclamation is observed with -Wl,--wrap=free (counts free(F)).
// exit 0: property held; !=0: violated.
#include <pthread.h>
#include <stdatomic.h>
#include <stdio.h>
#include <stdlib.h>
#include <time.h>
#include <unistd.h>

#include "fiber_manager.h"

#define RESULT ((void*)0x1234)

static fiber_t* volatile F;
static _Atomic(void*) watch_ptr;
static _Atomic int freed_count;

void __real_free(void* p);
void __wrap_free(void* p) {
  if (p && p == atomic_load(&watch_ptr)) {
    atomic_fetch_add(&freed_count, 1);
  }
  __real_free(p);
}

static _Atomic int go, f_returned, j_in_window, detached, j_done, j_ret = -1;
static _Atomic int hook_armed;

static double now() {
  struct timespec ts;
  clock_gettime(CLOCK_MONOTONIC, &ts);
  return ts.tv_sec + ts.tv_nsec * 1e-9;
}

// HOOKED build only: called in fiber_join() after the DETACHED check and
// before the atomic_exchange
void demo_hook_join(fiber_t* f) {
  if (f != F || !hook_armed) {
    return;
  }
  j_in_window = 1;
  const double end = now() + 10.0;
  while (!detached && now() < end) {
    cpu_relax();  // pure delay
  }
}

static void* f_func(void* p) {
  while (!go) {
    fiber_yield();
  }
  f_returned = 1;
  return RESULT;
}

static void* j_func(void* p) {
  void* r = NULL;
  j_ret = fiber_join(F, &r);
  j_done = 1;
  return NULL;
}

static void* watchdog(void* p) {
  sleep(60);
  printf("watchdog: scenario did not terminate\n");
  _exit(3);
}

int main() {
  setvbuf(stdout, NULL, _IONBF, 0);
  pthread_t w;
  pthread_create(&w, NULL, watchdog, NULL);
  fiber_manager_init(2);
#ifdef HOOKED
  const int trials = 1;
  printf("demo_3: HOOKED build (window held open by demo_hook_join)\n");
#else
  const int trials = 2000;
  printf("demo_3: UNHOOKED build (plain join-vs-detach stress)\n");
#endif
  for (int t = 0; t < trials; ++t) {
    go = 0; f_returned = 0; j_in_window = 0; detached = 0; j_done = 0;
    j_ret = -1; freed_count = 0;
    F = fiber_create(20000, f_func, NULL);
    watch_ptr = F;
    hook_armed = 1;
    fiber_t* const J = fiber_create(20000, j_func, NULL);
#ifdef HOOKED
    // do NOT yield: the main fiber keeps kernel thread 0 busy, so J can only
    // run after the idle kernel thread 1 stole it -> J and the detacher are on
    // different kernel threads
    const double end = now() + 20.0;
    while (!j_in_window && now() < end) {
      cpu_relax();
    }
    if (!j_in_window) {
      printf("setup problem: J never reached fiber_join\n");
      _exit(2);
    }
#endif
    const int d = fiber_detach(F);
    detached = 1;
    // J's join must fail (or, if it won the race, be woken by the detach)
    double end2 = now() + 5;
    while (!j_done && now() < end2) fiber_yield();
    go = 1;  // F's function returns now
    end2 = now() + 3;
    while (freed_count < 1 && now() < end2) fiber_yield();
    end2 = now() + 5;
    while (!j_done && now() < end2) fiber_yield();

    if (freed_count != 1 || !j_done) {
      printf("trial %d: fiber_detach(F) returned %d (%s); fiber_join(F) returned %d (%s)\n",
             t, d, d == FIBER_SUCCESS ? "SUCCESS" : "ERROR", j_ret,
             j_ret == FIBER_SUCCESS ? "SUCCESS" : j_ret == -1 ? "not returned" : "ERROR");
      printf("F's function returned: %d; 3s later fiber_t of F was freed %d time(s)\n",
             f_returned, freed_count);
      if (freed_count == 0) {
        // F is not freed, so it is safe to look at it
        printf("F->state=%d (4 would be DONE), F->detach_state=%d "
               "(1=WAIT_FOR_JOINER 2=WAIT_TO_JOIN 3=DETACHED), F->join_info=%p\n",
               F->state, F->detach_state, (void*)F->join_info);
        fiber_manager_stats_t s1, s2;
        fiber_manager_all_stats(&s1);
        fiber_do_real_sleep(0, 200000);
        fiber_manager_all_stats(&s2);
        printf("while the main fiber slept 0.2s without yielding, the runtime "
               "performed %llu yields: F spins in fiber_manager_clear_or_wait()\n",
               (unsigned long long)(s2.yield_count - s1.yield_count));
      }
      printf("VIOLATION of C04: a finished, detached fiber is not reclaimed "
             "(exactly once)\n");
      _exit(1);
    }
    watch_ptr = NULL;
    fiber_join(J, NULL);
  }
  printf("OK: F reclaimed exactly once in %d trial(s)\n", trials);
  _exit(0);
}
