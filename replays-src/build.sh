#!/bin/sh
# usage: build.sh <libfiber.a dir> <src.c> <out>   (documentation of findings; not a check)
gcc -O0 -g -DFIBER_STACK_SPLIT -I/repo/include -fsplit-stack "$2" "$1/libfiber.a" -lpthread -ldl -o "$3"
