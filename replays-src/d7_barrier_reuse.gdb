set pagination off
set confirm off
set non-stop on
break fiber_manager.c:410 if this_fiber == g_S_fiber && g_park == 1
run
set var g_park = 0
shell sleep 6
continue -a
shell sleep 4
