// demo_2: hazard_pointer_scan() is not re-entrant, but nothing stops a
// reclamation callback from retiring further nodes (a node that owns other
// hazard-managed nodes - e.g. a queue of queues - has to do exactly that).
//
// scan() keeps its snapshot of the hazard pointers in hptr->plist and the
// number of valid entries in the local variable 'index'.  When a callback
// retires nodes through hazard_pointer_free() on the same record and the
// retired count reaches the threshold again, a nested scan() overwrites
// hptr->plist with a NEW snapshot.  The outer scan() then continues to
// binary-search the first 'index' (old count) entries of the new snapshot.
// If another thread published one more hazard pointer in between (here: g,
// with an address below h), the entry for h has moved to a position >= index
// and h - protected and validated long before it was retired - is handed to
// its reclamation callback.
//
// Only public API is used; the library is unmodified.  The two threads are
// sequenced with flags (a legal schedule); no timing is involved.
// exit 0: property held; exit 1: protected node reclaimed.
#include <pthread.h>
#include <stdint.h>
#include <stdio.h>
#include <stdlib.h>

#include "hazard_pointer.h"

#define K 2

typedef struct obj {
  hazard_node_t hz;  // first member
  _Atomic int live;
  int is_parent;
} obj_t;

static _Atomic(hazard_pointer_thread_record_t*) hp_head;
static hazard_pointer_thread_record_t* hp_reader;
static hazard_pointer_thread_record_t* hp_writer;
static __thread hazard_pointer_thread_record_t* my_record;

static obj_t shared[2];  // shared[0] = g, shared[1] = h; &g < &h
static _Atomic(obj_t*) cell_h;
static _Atomic(obj_t*) cell_g;

static _Atomic int h_protected, publish_g, g_published, writer_done;
static int handshake_done;
static int scans_nested;

static void reclaim_plain(void* gc_data, hazard_node_t* n) {
  (void)gc_data;
  atomic_store(&((obj_t*)n)->live, 0);
}

static obj_t* new_obj(hazard_node_gc_function f, int is_parent) {
  obj_t* const o = calloc(1, sizeof(*o));
  o->hz.gc_function = f;
  o->live = 1;
  o->is_parent = is_parent;
  return o;
}

// a parent owns two hazard-managed children; reclaiming the parent retires
// them through the reclaiming thread's own record
static void reclaim_parent(void* gc_data, hazard_node_t* n) {
  (void)gc_data;
  if (!handshake_done) {
    // let the other thread take one more hazard pointer now (it could do so
    // at any time; the flags only fix the schedule)
    handshake_done = 1;
    atomic_store(&publish_g, 1);
    while (!atomic_load(&g_published)) {
    }
  }
  atomic_store(&((obj_t*)n)->live, 0);
  int i;
  for (i = 0; i < 2; ++i) {
    obj_t* const child = new_obj(&reclaim_plain, 0);
    const size_t before = my_record->retired_count;
    hazard_pointer_free(my_record, &child->hz);
    if (my_record->retired_count < before + 1) {
      ++scans_nested;  // the retirement ran a (nested) scan
    }
  }
}

static void* reader(void* arg) {
  (void)arg;
  my_record = hp_reader;
  // protect h: publish, validate
  obj_t* h;
  do {
    h = atomic_load(&cell_h);
    hazard_pointer_using(hp_reader, &h->hz, 0);
  } while (h != atomic_load(&cell_h));
  atomic_store(&h_protected, 1);

  while (!atomic_load(&publish_g)) {
  }
  // protect a second, unrelated, live object g in the other slot
  obj_t* g;
  do {
    g = atomic_load(&cell_g);
    hazard_pointer_using(hp_reader, &g->hz, 1);
  } while (g != atomic_load(&cell_g));
  atomic_store(&g_published, 1);

  while (!atomic_load(&writer_done)) {
  }
  // h has been protected (slot 0) without interruption since before it was
  // unlinked and retired
  const int h_live = atomic_load(&h->live);
  hazard_pointer_done_using(hp_reader, 0);
  hazard_pointer_done_using(hp_reader, 1);
  return (void*)(intptr_t)h_live;
}

int main(void) {
  hp_reader = hazard_pointer_thread_record_create_and_push(&hp_head, K);
  hp_writer = hazard_pointer_thread_record_create_and_push(&hp_head, K);
  my_record = hp_writer;

  obj_t* const g = &shared[0];
  obj_t* const h = &shared[1];
  g->hz.gc_function = &reclaim_plain;
  g->live = 1;
  h->hz.gc_function = &reclaim_plain;
  h->live = 1;
  atomic_store(&cell_g, g);
  atomic_store(&cell_h, h);

  pthread_t t;
  pthread_create(&t, NULL, &reader, NULL);
  while (!atomic_load(&h_protected)) {
  }

  // unlink h (sequentially consistent exchange: a full barrier) and retire it
  obj_t* const replacement = new_obj(&reclaim_plain, 0);
  obj_t* const old = atomic_exchange(&cell_h, replacement);
  hazard_pointer_free(hp_writer, &old->hz);  // retired_count 1, no scan yet

  // retire parents until the threshold (2 * N * K = 8) is reached; the last
  // retirement scans.  scan() walks the retired list newest first, so h is
  // examined last, after the parents' callbacks have run
  const size_t thr = hp_writer->retire_threshold;
  while (hp_writer->retired_count != 0 && hp_writer->retired_count < thr) {
    obj_t* const p = new_obj(&reclaim_parent, 1);
    hazard_pointer_free(hp_writer, &p->hz);
    if (handshake_done) {
      break;  // the scan has happened
    }
  }
  atomic_store(&writer_done, 1);

  void* res;
  pthread_join(t, &res);
  const int h_live = (int)(intptr_t)res;
  printf("threshold=%zu nested_scans=%d h_live_while_protected=%d\n", thr,
         scans_nested, h_live);
  if (!h_live) {
    printf(
        "VIOLATION (C14): h was handed to its reclamation callback while "
        "another thread held a hazard pointer to it that was published and "
        "validated before h was retired\n");
    return 1;
  }
  printf("property held\n");
  return 0;
}
