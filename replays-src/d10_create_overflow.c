/* D10 replay: lockfree_ring_buffer_create(k) / fiber_bounded_channel_create(k) for k >= 29 compute the allocation size in 32 bits:
 * sizeof(header) + 2^k * 8 wraps to sizeof(header), calloc succeeds, and every slot access is outside the block.
 * Exit 1 if the block that create() returned is smaller than the capacity it advertises needs. */
#include <malloc.h>
#include <stdio.h>
#include <stdint.h>
#include "lockfree_ring_buffer.h"
#include "fiber_channel.h"
int main(void) {
  int bad = 0;
  for (uint32_t k = 28; k <= 31; ++k) {
    lockfree_ring_buffer_t* rb = lockfree_ring_buffer_create(k);
    if (rb) {
      size_t have = malloc_usable_size(rb), need = sizeof(*rb) + ((size_t)1 << k) * sizeof(void*);
      printf("ring buffer   k=%u: size=%u block=%zu bytes, needs %zu -> %s\n", k, rb->size, have, need, have < need ? "TOO SMALL" : "ok");
      bad |= have < need;
      free(rb);
    } else printf("ring buffer   k=%u: create failed (fine)\n", k);
    fiber_bounded_channel_t* ch = fiber_bounded_channel_create(k, NULL);
    if (ch) {
      size_t have = malloc_usable_size(ch), need = sizeof(*ch) + ((size_t)1 << k) * sizeof(void*);
      printf("bounded chan  k=%u: size=%u block=%zu bytes, needs %zu -> %s\n", k, ch->size, have, need, have < need ? "TOO SMALL" : "ok");
      bad |= have < need;
      fiber_bounded_channel_destroy(ch);
    } else printf("bounded chan  k=%u: create failed (fine)\n", k);
  }
  return bad;
}
