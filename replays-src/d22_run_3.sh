#!/bin/bash
# usage: run_demo_3.sh <path-to-library-source-tree>
# exit 0 = property C04 held, non-zero = violated (or build problem: 2)
set -u
SRC=$(cd "${1:?usage: $0 <libfiber source tree>}" && pwd)
HERE=$(cd "$(dirname "$0")" && pwd)
TMP=$(mktemp -d /tmp/hunt-H04-demo3.XXXXXX)
trap 'rm -rf "$TMP"' EXIT

cmake -G Ninja -S "$SRC" -B "$TMP/b" -DCMAKE_BUILD_TYPE=RelWithDebInfo \
      -DFIBER_RUN_TESTS_WITH_BUILD=OFF >/dev/null || exit 2
cmake --build "$TMP/b" --target fiber >/dev/null || exit 2

CFLAGS="-O1 -g -DFIBER_STACK_SPLIT -I$SRC/include -fsplit-stack"
HOOKED=""
if python3 "$HERE/d22_hook_fiber.py" "$SRC/src/fiber.c" "$TMP/fiber_hooked.c" join &&
   gcc $CFLAGS -DFIBER_FAST_SWITCHING -I"$SRC/src" -c "$TMP/fiber_hooked.c" -o "$TMP/fiber_hooked.o" 2>/dev/null; then
  # the hooked copy of fiber.c replaces the archive member fiber.c.o at link time
  HOOKED="-DHOOKED $TMP/fiber_hooked.o"
else
  echo "note: hook anchor not found in $SRC/src/fiber.c - running the un-hooked stress variant"
fi
# 1) un-hooked: library objects exactly as built, plain stress
gcc $CFLAGS "$HERE/d22_join_detach.c" "$TMP/b/libfiber.a" -lpthread -ldl \
    -Wl,--wrap=free -o "$TMP/demo_3_unhooked" || exit 2
timeout 50 "$TMP/demo_3_unhooked"; RC1=$?
# 2) hooked: deterministic replay of the tightest interleaving
RC2=0
if [ -n "$HOOKED" ]; then
  gcc $CFLAGS $HOOKED "$HERE/d22_join_detach.c" "$TMP/b/libfiber.a" -lpthread -ldl \
      -Wl,--wrap=free -o "$TMP/demo_3_hooked" || exit 2
  timeout 50 "$TMP/demo_3_hooked"; RC2=$?
fi
echo "un-hooked exit=$RC1 hooked exit=$RC2"
[ $RC1 -eq 0 ] && [ $RC2 -eq 0 ]
