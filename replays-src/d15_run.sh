#!/bin/bash
# usage: run_demo_2.sh <path-to-library-source-tree>
# exit 0: property C11 held; non-zero: violated (or build failure)
set -u
SRC=$(readlink -f "${1:?usage: $0 <path-to-library-source-tree>}")
HERE=$(cd "$(dirname "$0")" && pwd)
TMP=$(mktemp -d /tmp/hunt-H08-demo2.XXXXXX)
trap 'rm -rf "$TMP"' EXIT
cmake -G Ninja -S "$SRC" -B "$TMP/b" -DCMAKE_BUILD_TYPE=RelWithDebInfo \
  -DFIBER_RUN_TESTS_WITH_BUILD=OFF >/dev/null || exit 3
cmake --build "$TMP/b" --target fiber >/dev/null || exit 3
gcc -O1 -g -DFIBER_STACK_SPLIT -I"$SRC/include" -fsplit-stack \
  "$HERE/d15_channel_spin.c" "$TMP/b/libfiber.a" -lpthread -ldl -o "$TMP/demo_2" || exit 3
rc=0
echo "=== multi-producer unbounded channel, NULL signal, 1 kernel thread ==="
timeout 40 "$TMP/demo_2" 1 || rc=$?
echo
echo "=== single-producer unbounded channel, NULL signal, 1 kernel thread ==="
timeout 40 "$TMP/demo_2" 2 || rc=$?
if [ $rc -eq 0 ]; then echo "RESULT: property held"; else echo "RESULT: property VIOLATED (rc=$rc)"; fi
exit $rc
