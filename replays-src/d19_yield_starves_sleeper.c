// Demonstration for finding 2 (C10): a fiber_yield() polling loop starves the fiber it waits for
// when that fiber is blocked in fiber_sleep() (or an fd wait) - on one kernel thread forever.
// No hooks are needed; this runs against the unmodified library.
#define _GNU_SOURCE
#include <stdio.h>
#include <stdlib.h>
#include <time.h>
#include <unistd.h>
#include "fiber_manager.h"
#include "fiber_event.h"

static volatile int slept_done = 0;
static volatile int read_done = 0;
static int pfd[2];

static double now_s(void) {
  struct timespec ts;
  clock_gettime(CLOCK_MONOTONIC, &ts);
  return ts.tv_sec + ts.tv_nsec * 1e-9;
}

static void* sleeper(void* p) {
  fiber_sleep(0, 1000);  // 1 ms
  slept_done = 1;
  return NULL;
}

static void* reader(void* p) {
  char c;
  if (read(pfd[0], &c, 1) == 1) {  // fiber-aware shim: waits for EPOLLIN
    read_done = 1;
  }
  return NULL;
}

// yields until *flag is set or 'limit' seconds passed; returns the number of yields
static long poll_with_yield(volatile int* flag, double limit) {
  long yields = 0;
  const double t0 = now_s();
  while (!*flag && now_s() - t0 < limit) {
    fiber_yield();
    ++yields;
  }
  return yields;
}

int main(void) {
  fiber_manager_init(1);  // one kernel thread: no stealing can mask the starvation
  int failed = 0;

  fiber_detach(fiber_create(65536, sleeper, NULL));
  fiber_yield();  // let the sleeper start and block in fiber_sleep(1 ms)
  long y = poll_with_yield(&slept_done, 5.0);
  printf("sleep : waited 5 s (5000 x the requested 1 ms), %ld fiber_yield() calls, sleeper %s\n", y,
         slept_done ? "ran" : "NEVER ran");
  if (!slept_done) {
    failed = 1;
  }

  if (pipe(pfd)) {
    return 2;
  }
  fiber_detach(fiber_create(65536, reader, NULL));
  fiber_yield();  // let the reader block in read()
  if (write(pfd[1], "x", 1) != 1) {
    return 2;
  }
  y = poll_with_yield(&read_done, 5.0);
  printf("fd    : the pipe has been readable for 5 s, %ld fiber_yield() calls, reader %s\n", y,
         read_done ? "ran" : "NEVER ran");
  if (!read_done) {
    failed = 1;
  }

  if (failed) {
    printf("VIOLATION (C10): the yield loop bypassed the fiber it was waiting for an unbounded "
           "number of times\n");
  } else {
    printf("property held\n");
  }
  fflush(stdout);
  _exit(failed);
}
