#!/bin/sh
# usage: run_demo_2.sh <path-to-library-source-tree>
# exit 0: property held; exit 1: violation shown.
TREE=$(realpath "${1:?usage: run_demo_2.sh <library-tree>}")
HERE=$(dirname "$(realpath "$0")")
TMP=$(mktemp -d /tmp/hunt-demo2.XXXXXX)
trap 'rm -rf "$TMP"' EXIT

cmake -G Ninja -S "$TREE" -B "$TMP/b" -DCMAKE_BUILD_TYPE=RelWithDebInfo \
  -DFIBER_RUN_TESTS_WITH_BUILD=OFF >/dev/null || { echo "cmake failed"; exit 98; }
cmake --build "$TMP/b" --target fiber >/dev/null || { echo "library build failed"; exit 98; }

gcc -O1 -g -DFIBER_STACK_SPLIT -I"$TREE/include" -fsplit-stack "$HERE/d17_nanosleep_truncation.c" \
  "$TMP/b/libfiber.a" -lpthread -ldl -o "$TMP/demo_2" || exit 98
timeout 60 "$TMP/demo_2"
[ $? -eq 0 ] || exit 1
exit 0
