// D4 (C08 bounds): fcntl / ioctl / close index the per-fd tables with an unchecked descriptor.
#include <errno.h>
#include <fcntl.h>
#include <stdio.h>
#include <string.h>
#include <sys/ioctl.h>
#include <unistd.h>
#include "fiber.h"
#include "fiber_manager.h"
int main(int argc, char** argv) {
  fiber_manager_init(1);
  int bad = 0;
  errno = 0;
  int r = fcntl(-1, F_SETFL, O_NONBLOCK);
  printf("fcntl(-1, F_SETFL, O_NONBLOCK) = %d errno=%d (plain libc: -1 EBADF)\n", r, errno);
  if (r != -1 || errno != EBADF) bad = 1;
  int one = 1;
  errno = 0;
  r = ioctl(-1, FIONBIO, &one);
  printf("ioctl(-1, FIONBIO) = %d errno=%d (plain libc: -1 EBADF)\n", r, errno);
  if (r != -1 || errno != EBADF) bad = 1;
  errno = 0;
  r = close(-1);
  printf("close(-1) = %d errno=%d\n", r, errno);
  if (argc > 1) {
    r = ioctl(2000000000, FIONBIO, &one);  // far outside the table: SIGSEGV on the defective code
    printf("ioctl(2000000000, FIONBIO) = %d errno=%d\n", r, errno);
    r = close(2000000000);
    printf("close(2000000000) = %d errno=%d\n", r, errno);
  }
  printf(bad ? "DEFECT\n" : "OK\n");
  return bad;
}
