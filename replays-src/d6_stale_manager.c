// D6 (C01 stale / C02 owner.fresh): fiber_manager_do_maintenance keeps using `manager` after
// fiber_mutex_unlock_internal(), which can yield (contended mutex, locker not yet enqueued) and resume on another
// kernel thread.  The windows are held open by calls injected into a SCRATCH copy (see d6_run.sh); a delay is a
// legal schedule.  Hook points: 1 = before the waiter push in wait_in_mpsc_queue, 2/3 = before/after the deferred
// mutex unlock in do_maintenance, 4 = in fiber_sleep after spinlock_to_unlock was set, before the yield,
// 5 = in wake_from_mpsc_queue before it yields on an empty queue.
#define _GNU_SOURCE
#include <signal.h>
#include <stdio.h>
#include <stdlib.h>
#include <sys/syscall.h>
#include <time.h>
#include <unistd.h>
#include "fiber.h"
#include "fiber_cond.h"
#include "fiber_event.h"
#include "fiber_manager.h"
#include "fiber_mutex.h"
#define NY 16
static fiber_mutex_t m;
static fiber_cond_t c;
static volatile int stage = 0;  // 1 A holds m, 2 L parked, 3 B in deferred unlock, 4 B migrated, 5 D parked, 6 end
static fiber_t* volatile g_L;
static fiber_t* volatile g_B;
static fiber_t* volatile g_D;
static fiber_manager_t* volatile g_mgr_A;
static fiber_spinlock_t* volatile g_lock;
static volatile int g_stale = 0, g_claim = 0, stop = 0, go = 0;
static volatile long runs[NY];
static fiber_t* volatile yf[NY];
static volatile long h5_calls = 0, h5_b = 0;
static volatile long d_index = -1;
static void real_sleep_ms(long ms) { struct timespec ts = {ms / 1000, (ms % 1000) * 1000000}; syscall(SYS_nanosleep, &ts, NULL); }
#define PAUSE() __asm__ __volatile__("pause" ::: "memory")
void fiber_replay_hook(int point, void* a, void* b) {
  if (point == 1 && a == g_L && stage == 1) { stage = 2; while (stage < 5) PAUSE(); }
  if (point == 2 && b == &m && stage == 2) { g_mgr_A = a; g_B = ((fiber_manager_t*)a)->current_fiber; stage = 3; }
  if (point == 5) { h5_calls++; if (((fiber_manager_t*)a)->current_fiber == g_B) h5_b++; }
  if (point == 5 && stage == 3 && ((fiber_manager_t*)a)->current_fiber == g_B && a != g_mgr_A) stage = 4;
  if (point == 4 && a == g_D && stage == 4) { g_lock = ((fiber_manager_t*)b)->spinlock_to_unlock; stage = 5; while (stage < 6) PAUSE(); }
  if (point == 3 && a == g_mgr_A && fiber_manager_get() != a && fiber_manager_get()->current_fiber == g_B && !g_stale) {
    printf("MIGRATED: fiber B returns from the deferred mutex unlock on the thread of manager %p; do_maintenance was entered with manager %p (thread of A/D)\n",
           (void*)fiber_manager_get(), a);
    printf("       that manager's spinlock_to_unlock is %p (set by fiber D, which has NOT switched away yet)\n",
           (void*)((fiber_manager_t*)a)->spinlock_to_unlock);
    fflush(stdout);
    g_stale = 1;
  }
}
static void* fiber_A(void* p) {
  fiber_mutex_lock(&m);
  stage = 1;
  while (stage < 2 || !go) fiber_yield();
  fiber_cond_wait(&c, &m);   // the successor on this thread performs the deferred unlock of m
  fiber_mutex_unlock(&m);
  return NULL;
}
static void* fiber_Lk(void* p) {
  g_L = fiber_manager_get()->current_fiber;
  while (stage < 1) fiber_yield();
  fiber_mutex_lock(&m);      // contended: announced, parked (hook 1) before it is enqueued
  fiber_mutex_unlock(&m);
  return NULL;
}
static void* yielder(void* p) {
  const long id = (long)p;
  yf[id] = fiber_manager_get()->current_fiber;
  while (!stop) {
    runs[id]++;
    if (stage == 3 && fiber_manager_get() != g_mgr_A) return NULL;   // empty the other threads: they start stealing from A's thread
    if (stage == 4 && fiber_manager_get() == g_mgr_A && __sync_bool_compare_and_swap(&g_claim, 0, 1)) {
      g_D = fiber_manager_get()->current_fiber;
      d_index = id;
      fiber_sleep(0, 0);     // parks at hook 4 with sleep_spinlock held and spinlock_to_unlock set
    }
    fiber_yield();
  }
  return NULL;
}
static void on_segv(int sig) {
  const char msg[] = "CRASH (SIGSEGV) after the migrated maintenance continued: a fiber was resumed before its suspension completed\nDEFECT\n";
  if (g_stale) { ssize_t r = syscall(SYS_write, 1, msg, sizeof(msg) - 1); (void)r; }
  _exit(g_stale ? 1 : 3);
}
int main() {
  signal(SIGSEGV, on_segv);
  fiber_manager_init(4);
  fiber_mutex_init(&m);
  fiber_cond_init(&c);
  fiber_create(102400, &fiber_Lk, NULL);
  fiber_create(102400, &fiber_A, NULL);
  for (int i = 0; i < 2000 && stage < 2; ++i) { real_sleep_ms(1); fiber_yield(); }
  for (long i = 0; i < NY; ++i) fiber_create(102400, &yielder, (void*)i);   // candidates for B (A's successor) and D
  real_sleep_ms(20);
  go = 1;
  int bad = 0;
  for (int i = 0; i < 3000 && !g_stale; ++i) { real_sleep_ms(2); fiber_yield(); }
  { int isy = -1; for (int i = 0; i < NY; ++i) if (yf[i] == g_B) isy = i;
    printf("stage=%d stale=%d B=%p (yielder #%d) mgrA=%p maint=%p thread_fiber=%p h5=%ld h5_b=%ld\n", stage, g_stale, (void*)g_B, isy, (void*)g_mgr_A,
           g_mgr_A ? (void*)g_mgr_A->maintenance_fiber : NULL, g_mgr_A ? (void*)g_mgr_A->thread_fiber : NULL, h5_calls, h5_b); }
  if (g_stale && stage == 5) {
    real_sleep_ms(100);
    const long r0 = runs[d_index];
    real_sleep_ms(300);   // D is still parked at hook 4: it has not switched away
    const int slot_consumed = g_mgr_A->spinlock_to_unlock == NULL;
    const int unlocked = g_lock->state.counters.ticket == g_lock->state.counters.users;
    printf("D parked before its context switch; its manager's spinlock_to_unlock consumed by another thread: %s; sleep lock already released: %s\n",
           slot_consumed ? "YES" : "no", unlocked ? "YES" : "no");
    printf("D's loop counter while D is parked on its own thread: %ld -> %ld%s\n", r0, runs[d_index],
           runs[d_index] != r0 ? "  (D is ALSO running on another kernel thread: resumed from a stale saved context)" : "");
    bad = slot_consumed || unlocked || runs[d_index] != r0;
  }
  printf(bad ? "DEFECT\n" : "OK (window did not open or defect absent)\n");
  fflush(stdout);
  _exit(bad ? 1 : 0);
}
