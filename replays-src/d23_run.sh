#!/bin/bash
# usage: run_demo_1.sh <path-to-library-source-tree>
# exit 0: property C11 held; non-zero: violated (or build failure)
set -u
SRC=$(readlink -f "${1:?usage: $0 <path-to-library-source-tree>}")
HERE=$(cd "$(dirname "$0")" && pwd)
TMP=$(mktemp -d /tmp/hunt-H08-demo1.XXXXXX)
trap 'rm -rf "$TMP"' EXIT
cmake -G Ninja -S "$SRC" -B "$TMP/b" -DCMAKE_BUILD_TYPE=RelWithDebInfo \
  -DFIBER_RUN_TESTS_WITH_BUILD=OFF >/dev/null || exit 3
cmake --build "$TMP/b" --target fiber >/dev/null || exit 3
gcc -O1 -g -DFIBER_STACK_SPLIT -I"$SRC/include" -fsplit-stack \
  "$HERE/d23_multi_channel.c" "$TMP/b/libfiber.a" -lpthread -ldl \
  -Wl,--wrap=fiber_mutex_lock -o "$TMP/demo_1" || exit 3
gcc -O1 -g -DFIBER_STACK_SPLIT -I"$SRC/include" -fsplit-stack \
  "$HERE/d23_multi_channel_b.c" "$TMP/b/libfiber.a" -lpthread -ldl -o "$TMP/demo_1b" || exit 3
echo "=== demo_1: deterministic schedule (delay before the channel's mutex), 2 senders / 3 receivers ==="
timeout 50 "$TMP/demo_1"
rc1=$?
echo
echo "=== demo_1b: no instrumentation, 5 senders / 5 receivers, 1 kernel thread ==="
timeout 50 "$TMP/demo_1b"
rc2=$?
rc=0
[ $rc1 -ne 0 ] && rc=$rc1
[ $rc2 -ne 0 ] && rc=$rc2
if [ $rc -eq 0 ]; then echo "RESULT: property held"; else echo "RESULT: property VIOLATED (rc=$rc)"; fi
exit $rc
