#!/bin/bash
# usage: run_demo_2.sh <path-to-library-source-tree>
# exit 0 = property held, 1 = violation demonstrated, 2 = could not build
SRC=$(realpath "${1:?usage: $0 <libfiber source tree>}")
HERE=$(dirname "$(realpath "$0")")
TMP=$(mktemp -d "$HERE/tmp.demo2.XXXXXX")
trap 'rm -rf "$TMP"' EXIT
cmake -G Ninja -S "$SRC" -B "$TMP/b" -DCMAKE_BUILD_TYPE=RelWithDebInfo \
  -DFIBER_RUN_TESTS_WITH_BUILD=OFF >/dev/null 2>"$TMP/cmake.err" &&
  cmake --build "$TMP/b" --target fiber >"$TMP/build.log" 2>&1 ||
  { echo "library build failed"; cat "$TMP/cmake.err" "$TMP/build.log" 2>/dev/null | tail -20; exit 2; }
gcc -O1 -g -DFIBER_STACK_SPLIT -I"$SRC/include" -fsplit-stack "$HERE/d25_sem_overflow.c" \
  "$TMP/b/libfiber.a" -lpthread -ldl -o "$TMP/demo_2" || { echo "demo build failed"; exit 2; }
timeout 90 "$TMP/demo_2"
rc=$?
echo "demo_2 exit code: $rc"
exit $rc
