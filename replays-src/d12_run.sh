#!/bin/sh
# usage: d12_run.sh <git rev of /repo to replay against>   (documentation of finding D12; not a check)
set -e
REV=${1:-HEAD}
W=$(mktemp -d /tmp/d12-XXXXXX)
git -C /repo worktree add -q "$W/src" "$REV"
cd "$W/src"
python3 - <<'PY'
H='{ extern void fiber_replay_hook(int, void*, void*); fiber_replay_hook(%s); }\n'
p='src/fiber_manager.c'
s=open(p).read()
old="  mpsc_fifo_push(fifo, node);\n  fiber_manager_yield(manager);"
assert s.count(old)==1
s=s.replace(old,"  "+H%"1, this_fiber, fifo"+old)
old="  if (manager->to_schedule) {\n"
assert s.count(old)==1
s=s.replace(old,"  "+H%"6, manager, 0"+old)
old="  while (!fiber_shutting_down) {\n"
assert s.count(old)==1
s=s.replace(old,old+"    "+H%"8, manager, 0")
open(p,'w').write(s)
PY
for f in src/fiber_context.c src/fiber_manager.c src/fiber_mutex.c src/fiber_semaphore.c src/fiber_spinlock.c src/fiber_cond.c src/fiber.c src/fiber_barrier.c src/fiber_io.c src/fiber_rwlock.c src/hazard_pointer.c src/work_stealing_deque.c src/work_queue.c src/fiber_scheduler_wsd.c src/fiber_event_native.c; do
  gcc -O2 -g -DFIBER_FAST_SWITCHING -DFIBER_STACK_SPLIT -DNDEBUG -Iinclude -std=gnu11 -fsplit-stack -c $f -o "$W/$(basename $f .c).o"
done
gcc -O1 -g -DFIBER_STACK_SPLIT -Iinclude -fsplit-stack /verif/replays-src/d12_maintenance_requeued.c "$W"/*.o -lpthread -ldl -o "$W/d12"
set +e
timeout 60 "$W/d12"; rc=$?
cd /; git -C /repo worktree remove --force "$W/src"; rm -rf "$W"
exit $rc
