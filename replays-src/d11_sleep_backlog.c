/* D11 replay: timer expirations that nobody has read yet are credited to a sleeper that registers afterwards.
 * One kernel thread; the only fiber computes for 400 ms without yielding (so no poller reads the timer), then sleeps 50 ms.
 * Exit 1 if the sleep returned early. */
#include <stdio.h>
#include <time.h>
#include <unistd.h>
#include "fiber_manager.h"
static double now_ms(void) { struct timespec t; clock_gettime(CLOCK_MONOTONIC, &t); return t.tv_sec * 1e3 + t.tv_nsec / 1e6; }
int main(void) {
  fiber_manager_init(1);
  int bad = 0;
  for (int round = 0; round < 3; ++round) {
    double t = now_ms();
    while (now_ms() - t < 400.0) { }          /* busy: nobody polls the event engine */
    double t0 = now_ms();
    usleep(50000);
    double el = now_ms() - t0;
    printf("round %d: usleep(50000) took %.3f ms -> %s\n", round, el, el < 50.0 ? "EARLY" : "ok");
    bad |= el < 50.0;
  }
  fiber_shutdown();
  return bad;
}
