#!/bin/sh
# usage: run_demo_2.sh <path-to-library-source-tree>
# exit 0: property held; non-zero: violated (or build problem)
set -e
SRC=$(cd "$1" && pwd)
HERE=$(cd "$(dirname "$0")" && pwd)
TMP=$(mktemp -d /tmp/hunt-H01-demo2.XXXXXX)
trap 'rm -rf "$TMP"' EXIT
cmake -G Ninja -S "$SRC" -B "$TMP/b" -DCMAKE_BUILD_TYPE=RelWithDebInfo -DFIBER_RUN_TESTS_WITH_BUILD=OFF >/dev/null
cmake --build "$TMP/b" --target fiber >/dev/null
gcc -O1 -g -DFIBER_STACK_SPLIT -I"$SRC/include" -fsplit-stack "$HERE/d19_yield_starves_sleeper.c" "$TMP/b/libfiber.a" -lpthread -ldl -o "$TMP/demo_2"
set +e
timeout 100 "$TMP/demo_2"
rc=$?
echo "demo_2 exit code: $rc"
exit $rc
