// demo_1: a blocking-mode write() on a socket fails with EAGAIN after the
// calling fiber was resumed on a different kernel thread.
//
// The shims accept/write/writev/send/sendto/sendmsg evaluate `errno` in a loop
// around fiber_wait_for_event().  glibc declares __errno_location() as
// __attribute__((const)), so gcc -O2 calls it once, before the loop, and keeps
// the address of the *first* kernel thread's errno in a register.  When the
// fiber is woken on another kernel thread (the normal case: a fiber is
// resumed on the thread whose poller harvested the event) the retry's EAGAIN
// is stored in the new thread's errno, but the loop condition reads the old
// thread's errno.
#define _GNU_SOURCE
#include <errno.h>
#include <fcntl.h>
#include <stdatomic.h>
#include <stdio.h>
#include <stdlib.h>
#include <string.h>
#include <sys/socket.h>
#include <sys/syscall.h>
#include <time.h>
#include <unistd.h>

#include "fiber.h"
#include "fiber_manager.h"

static int sv[2];
static atomic_int w_tid_start, w_tid_end, s_same_thread, s_finished, w_done;
static atomic_long w_ret;
static atomic_int w_errno;
static atomic_long r_ret;

static long now_ms(void) {
  struct timespec ts;
  clock_gettime(CLOCK_MONOTONIC, &ts);
  return ts.tv_sec * 1000L + ts.tv_nsec / 1000000L;
}
static int gettid_(void) { return (int)syscall(SYS_gettid); }
// errno of the kernel thread we are running on *now*. (a fiber that may have
// migrated must not let the compiler reuse an earlier __errno_location())
static __attribute__((noinline, noclone)) int errno_now(void) {
  __asm__ volatile("" ::: "memory");
  return errno;
}

// reader on sv[0]: makes EPOLLIN part of the registration of sv[0], so that a
// byte arriving on sv[0] wakes every fiber waiting on sv[0] (also the writer)
static void* reader(void* p) {
  char c;
  r_ret = read(sv[0], &c, 1);
  return NULL;
}

// runs on the kernel thread the writer has just left and keeps it busy (a
// fiber that computes without yielding): that thread does not poll, and its
// errno keeps the value of its last failed call (EBADF)
static void* spinner(void* p) {
  s_same_thread = (gettid_() == w_tid_start) ? 1 : 2;
  if (s_same_thread == 1) {
    char c = 'x';
    if (write(sv[1], &c, 1) != 1) {  // makes sv[0] readable -> wakes R and W
      perror("spinner write");
      exit(3);
    }
    close(-1);  // an unrelated failing call: this thread's errno = EBADF
    const long end = now_ms() + 400;
    while (!w_done && now_ms() < end) {
    }
  }
  s_finished = 1;
  return NULL;
}

static void* writer(void* p) {
  static char buf[4096];
  memset(buf, 'w', sizeof(buf));
  // fill the send buffer of sv[0] completely
  while (send(sv[0], buf, sizeof(buf), MSG_DONTWAIT) > 0) {
  }
  while (send(sv[0], buf, 1, MSG_DONTWAIT) > 0) {
  }
  w_tid_start = gettid_();
  fiber_t* s = fiber_create(102400, &spinner, NULL);
  fiber_detach(s);
  // sv[0] is in blocking mode: this may only return > 0 (or a real error)
  const ssize_t ret = write(sv[0], buf, sizeof(buf));
  w_errno = errno_now();
  w_ret = ret;
  w_tid_end = gettid_();
  w_done = 1;
  return NULL;
}

int main() {
  setvbuf(stdout, NULL, _IONBF, 0);
  fiber_manager_init(2);
  int round, valid_rounds = 0;
  for (round = 0; round < 200 && valid_rounds < 3; ++round) {
    w_tid_start = w_tid_end = s_same_thread = s_finished = w_done = 0;
    w_ret = 0;
    w_errno = 0;
    r_ret = 0;
    if (socketpair(AF_UNIX, SOCK_STREAM, 0, sv)) {
      perror("socketpair");
      return 3;
    }
    fiber_t* r = fiber_create(102400, &reader, NULL);
    usleep(20000);  // reader is now blocked in read(sv[0])
    fiber_t* w = fiber_create(102400, &writer, NULL);
    while (!s_finished) {
      usleep(10000);
    }
    // drain the peer so that a writer that is (correctly) still blocked can
    // complete
    long deadline = now_ms() + 5000;
    static char tmp[65536];
    while (!w_done && now_ms() < deadline) {
      while (recv(sv[1], tmp, sizeof(tmp), MSG_DONTWAIT) > 0) {
      }
      usleep(5000);
    }
    if (!w_done) {
      printf("round %d: writer never completed\n", round);
      return 1;
    }
    fiber_join(w, NULL);
    if (!r_ret) {  // reader still blocked (spinner did not send the byte)
      char c = 'y';
      if (write(sv[1], &c, 1) != 1) {
        perror("write");
      }
    }
    fiber_join(r, NULL);
    close(sv[0]);
    close(sv[1]);

    if (s_same_thread != 1) {
      continue;  // the spinner was stolen by the other thread: retry
    }
    ++valid_rounds;
    printf(
        "round %d: write() on blocking socket: started on tid %d, returned on "
        "tid %d: ret=%ld errno=%d (%s)\n",
        round, (int)w_tid_start, (int)w_tid_end, (long)w_ret, (int)w_errno,
        w_ret < 0 ? strerror(w_errno) : "-");
    if (w_ret < 0 && (w_errno == EAGAIN || w_errno == EWOULDBLOCK)) {
      printf(
          "VIOLATION: write() on a descriptor in blocking mode failed with "
          "EAGAIN\n");
      return 1;
    }
    if (w_ret <= 0) {
      printf("VIOLATION: unexpected result\n");
      return 1;
    }
  }
  if (valid_rounds == 0) {
    printf("inconclusive: could not set up the schedule\n");
    return 2;
  }
  printf("OK: property held in %d rounds\n", valid_rounds);
  return 0;
}
