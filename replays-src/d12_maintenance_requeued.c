// D12 (C01): the deferred mutex unlock in fiber_manager_do_maintenance can run in the context of a kernel thread's maintenance (idle) fiber;
// when the mutex is contended and the waiter has not enqueued itself yet, fiber_manager_wake_from_mpsc_queue yields from that fiber.
// Every 1024th yield steals work; the next yield then switches away from the maintenance fiber while its state is RUNNING, so switch_to
// marks it READY and its successor pushes it into the run queue like an ordinary fiber -- although the thread also switches to it
// directly (manager->maintenance_fiber) whenever it has nothing to run, and other threads can steal it.
// Hook points (inserted into a SCRATCH copy by d12_run.sh): 1 = before the waiter push in wait_in_mpsc_queue (holds the locker),
// 6 = in do_maintenance where to_schedule is pushed (observer only), 8 = top of the idle loop in fiber_manager_thread_func (observer only).
#define _GNU_SOURCE
#include <stdio.h>
#include <stdlib.h>
#include <time.h>
#include <unistd.h>
#include "fiber.h"
#include "fiber_cond.h"
#include "fiber_manager.h"
#include "fiber_mutex.h"
static fiber_mutex_t m;
static fiber_cond_t c;
static volatile int stage = 0;      // 1: A holds m on thread 1; 2: L announced itself and is held before its push; 9: event seen / give up
static fiber_t* volatile g_L;
static volatile int g_event = 0, g_foreign = 0, done_a = 0, done_l = 0;
static double now_ms(void) { struct timespec t; clock_gettime(CLOCK_MONOTONIC, &t); return t.tv_sec * 1e3 + t.tv_nsec / 1e6; }
#define PAUSE() __asm__ __volatile__("pause" ::: "memory")
void fiber_replay_hook(int point, void* a, void* b) {
  if (point == 1 && a == g_L && stage == 1) {
    stage = 2;
    double t0 = now_ms();
    while (stage < 9 && now_ms() - t0 < 1500.0) PAUSE();      // a long but finite stall: a legal schedule
  }
  if (point == 6) {
    fiber_manager_t* mg = (fiber_manager_t*)a;
    if (mg->to_schedule && mg->to_schedule == mg->maintenance_fiber && !g_event) {
      g_event = 1;
      printf("EVENT: manager %d pushes its own maintenance (idle-loop) fiber %p into the run queue as an ordinary READY fiber\n", mg->id, (void*)mg->to_schedule);
      fflush(stdout);
      stage = 9;
    }
  }
  if (point == 8 && a != (void*)fiber_manager_get() && !g_foreign) {
    g_foreign = 1;
    printf("VIOLATION: the idle loop of manager %d (its maintenance fiber) is being executed by the kernel thread of manager %d: two kernel threads now "
           "operate manager %d's run queues\n", ((fiber_manager_t*)a)->id, fiber_manager_get()->id, ((fiber_manager_t*)a)->id);
    fflush(stdout);
    _exit(1);
  }
}
static void* fiber_A(void* p) {
  while (fiber_manager_get()->id != 1) fiber_yield();          // get stolen by kernel thread 1
  fiber_mutex_lock(&m);
  stage = 1;
  while (stage < 2) fiber_yield();                             // nothing else is runnable on thread 1
  fiber_cond_wait(&c, &m);   // parks: the successor -- thread 1's maintenance fiber -- performs the deferred unlock of m
  fiber_mutex_unlock(&m);
  done_a = 1;
  return NULL;
}
static void* fiber_L(void* p) {
  g_L = fiber_manager_get()->current_fiber;
  while (stage < 1 || fiber_manager_get()->id != 0) fiber_yield();
  fiber_mutex_lock(&m);      // contended: announces itself, then is held in hook 1 before it enqueues
  fiber_mutex_unlock(&m);
  done_l = 1;
  return NULL;
}
int main(void) {
  fiber_manager_init(2);
  fiber_mutex_init(&m);
  fiber_cond_init(&c);
  fiber_t* a = fiber_create(102400, &fiber_A, NULL);
  fiber_t* l = fiber_create(102400, &fiber_L, NULL);
  double t0 = now_ms();
  while (!g_event && now_ms() - t0 < 6000.0) {
    fiber_yield();           // the main fiber stays READY in thread 0's queue while L is held: thread 1's load balancing steals it
    if (done_l) fiber_cond_signal(&c);
  }
  if (g_event) {
    // keep this kernel thread busy for a while: the other one is idle and its load balancing may steal the queued maintenance fiber
    double t1 = now_ms();
    volatile unsigned long spin = 0;
    while (now_ms() - t1 < 3000.0) { spin++; if ((spin & 0xfffff) == 0) fiber_yield(); }
  }
  printf(g_event ? "VIOLATION: a maintenance fiber was queued as an ordinary fiber (no foreign execution observed in this run)\n" : "OK: no maintenance fiber was ever queued\n");
  fflush(stdout);
  _exit(g_event ? 1 : 0);
}
