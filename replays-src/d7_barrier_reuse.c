// D7 (C12 rounds): immediate reuse of a barrier while a round-k participant has arrived (fetch_add done)
// but is not yet enqueued.  The window is held open by a delay injected into a SCRATCH copy of
// src/fiber_manager.c (see d7_run.sh): just before `mpsc_fifo_push(fifo, node)` in
// fiber_manager_wait_in_mpsc_queue the copy calls fiber_replay_window(this_fiber).  A delay is always a
// legal schedule.  Defective code: fiber 0 leaves round 2 with 2 of 3 arrivals and the straggler is never released.
#include <stdio.h>
#include <stdlib.h>
#include <unistd.h>
#include "fiber.h"
#include "fiber_barrier.h"
#include "fiber_event.h"
#include "fiber_manager.h"
fiber_barrier_t barrier;
fiber_t* volatile g_S_fiber;  // the straggler
volatile int g_park = 1;
volatile int arrived[4];
volatile int early = 0;
volatile int done_count = 0;
void fiber_replay_window(fiber_t* f) {
  if (f == g_S_fiber && g_park == 1) {
    g_park = 2;                       // tell main we are in the window
    while (g_park == 2) __asm__ __volatile__("pause" ::: "memory");  // this kernel thread only
  }
}
static void* participant(void* p) {
  const long id = (long)p;
  if (id == 1) { g_S_fiber = fiber_manager_get()->current_fiber; fiber_sleep(0, 20000); }
  if (id == 2) { while (g_park != 2) fiber_sleep(0, 10000); }   // the last arriver comes after the straggler is in the window
  for (int round = 1; round <= 2; ++round) {
    __sync_fetch_and_add(&arrived[round], 1);
    fiber_barrier_wait(&barrier);
    const int seen = arrived[round];
    if (seen != 3) { early = 1; printf("fiber %ld left round %d with %d of 3 arrivals\n", id, round, seen); fflush(stdout); }
  }
  __sync_fetch_and_add(&done_count, 1);
  return NULL;
}
int main() {
  fiber_manager_init(4);
  fiber_barrier_init(&barrier, 3);
  for (long i = 0; i < 3; ++i) fiber_create(102400, &participant, (void*)i);
  for (int i = 0; i < 200 && g_park != 2; ++i) fiber_sleep(0, 10000);
  for (int i = 0; i < 20 && !early; ++i) fiber_sleep(0, 20000);   // ~2 s with the window open
  g_park = 0;                                                       // release the straggler
  for (int i = 0; i < 20 && done_count < 3; ++i) fiber_sleep(0, 20000);
  printf("early=%d finished=%d/3 -> %s\n", early, done_count, (early || done_count < 3) ? "DEFECT" : "OK");
  fflush(stdout);
  _exit(early || done_count < 3);
}
