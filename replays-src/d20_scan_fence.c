// demo_1: hazard_pointer_free()/hazard_pointer_scan() issue no store->load
// barrier between the caller's unlinking store and the reads of the other
// threads' hazard slots.  On x86-TSO the unlinking store can still sit in the
// retiring CPU's store buffer while scan() reads the slots, so
//
//   reader : slot = X ; lock add (full fence) ; re-read cell == X  (validated)
//   writer : cell = N (plain/release store) ; hazard_pointer_free(X) -> scan
//            reads slot == NULL  -> gc_function(X)
//
// is a legal execution: the reader's validation read precedes the writer's
// unlinking store in the global memory order, the store precedes the
// retirement in program order, and X is nevertheless reclaimed while the
// reader holds a published + validated hazard pointer to it.
//
// Only public API is used; the library is unmodified.
// exit 0: property held for the whole run; exit 1: protected node reclaimed.
#include <pthread.h>
#include <stdint.h>
#include <stdio.h>
#include <stdlib.h>
#include <time.h>

#include "hazard_pointer.h"

typedef struct obj {
  hazard_node_t hz;  // first member: &obj == &obj->hz
  _Atomic int live;  // 1 while allocated, 0 once handed to the gc callback
  _Atomic long generation;
  char pad[64];
} obj_t;

static _Atomic(obj_t*) cell __attribute__((aligned(64)));
static _Atomic(hazard_pointer_thread_record_t*) hp_head;
static hazard_pointer_thread_record_t* hp_reader;
static hazard_pointer_thread_record_t* hp_writer;
static _Atomic int stop;
static _Atomic long violations;
static _Atomic long reader_checks;

// writer-private free list, so that reclaimed nodes are really reused
#define NFL 4096
static obj_t* flist[NFL];
static int fl_n;

static void reclaim(void* gc_data, hazard_node_t* n) {
  (void)gc_data;
  obj_t* const o = (obj_t*)n;
  atomic_store_explicit(&o->live, 0, memory_order_relaxed);
  if (fl_n < NFL) {
    flist[fl_n++] = o;
  }
}

static obj_t* obj_alloc(void) {
  obj_t* o;
  if (fl_n > 0) {
    o = flist[--fl_n];
  } else {
    o = aligned_alloc(64, sizeof(*o));
    o->hz.gc_data = NULL;
    o->hz.gc_function = &reclaim;
    o->generation = 0;
  }
  o->generation++;
  atomic_store_explicit(&o->live, 1, memory_order_relaxed);
  return o;
}

static void* reader(void* arg) {
  (void)arg;
  while (!stop) {
    obj_t* o;
    // the protocol from hazard_pointer.h: publish, then "make sure to check
    // it's still the pointer you want"
    do {
      o = atomic_load_explicit(&cell, memory_order_acquire);
      hazard_pointer_using(hp_reader, &o->hz, 0);  // store + full fence
    } while (o != atomic_load_explicit(&cell, memory_order_acquire));
    // o is protected and validated: it must not reach reclaim() until
    // hazard_pointer_done_using() below
    int i;
    for (i = 0; i < 20; ++i) {
      if (!atomic_load_explicit(&o->live, memory_order_relaxed)) {
        violations++;
        break;
      }
    }
    reader_checks++;
    hazard_pointer_done_using(hp_reader, 0);
  }
  return NULL;
}

static double now(void) {
  struct timespec ts;
  clock_gettime(CLOCK_MONOTONIC, &ts);
  return ts.tv_sec + ts.tv_nsec / 1e9;
}

int main(int argc, char** argv) {
  const double limit = argc > 1 ? atof(argv[1]) : 40.0;
  hp_reader = hazard_pointer_thread_record_create_and_push(&hp_head, 1);
  hp_writer = hazard_pointer_thread_record_create_and_push(&hp_head, 1);
  cell = obj_alloc();

  pthread_t t;
  pthread_create(&t, NULL, &reader, NULL);

  const double start = now();
  long rounds = 0;
  while (!violations) {
    // retire unrelated, never shared nodes until the next retirement is the
    // one that runs scan(); this only selects which retirement scans
    const size_t thr = hp_writer->retire_threshold;
    while (hp_writer->retired_count + 1 < thr) {
      obj_t* const d = obj_alloc();
      hazard_pointer_free(hp_writer, &d->hz);
    }
    obj_t* const n = obj_alloc();
    obj_t* const o = atomic_load_explicit(&cell, memory_order_relaxed);
    // unlink o: a release store is a plain MOV on x86
    atomic_store_explicit(&cell, n, memory_order_release);
    // retire o: scans immediately
    hazard_pointer_free(hp_writer, &o->hz);
    ++rounds;
    if ((rounds & 0xfff) == 0 && now() - start > limit) {
      break;
    }
  }
  stop = 1;
  pthread_join(t, NULL);
  printf("rounds=%ld reader_checks=%ld violations=%ld\n", rounds,
         (long)reader_checks, (long)violations);
  if (violations) {
    printf(
        "VIOLATION (C14): a node was handed to its reclamation callback while "
        "another thread held a published and validated hazard pointer to "
        "it\n");
    return 1;
  }
  printf("property held for the whole run\n");
  return 0;
}
