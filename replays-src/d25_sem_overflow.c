/*
 * demo_2: fiber_semaphore counter overflows at INT_MAX.
 *
 * The property must hold "for all initial values >= 0".  Take the largest one:
 * fiber_semaphore_init(&s, INT_MAX), no waiter anywhere, then post.
 *
 *  - post #1 computes prev_counter + 1 with prev_counter == INT_MAX and stores
 *    INT_MIN: the value is now -2147483648 instead of initial + posts.
 *  - trywait now fails although at least INT_MAX units are available.
 *  - post #2 sees counter < 0, believes a waiter was announced, finds the wait
 *    queue empty and retries for ever: it never returns (there is no waiter
 *    that could ever be enqueued).
 *
 * exit 0: property held, exit 1: violation demonstrated
 */
#include <limits.h>
#include <signal.h>
#include <stdatomic.h>
#include <stdio.h>
#include <stdlib.h>
#include <string.h>
#include <unistd.h>

#include "fiber_manager.h"
#include "fiber_semaphore.h"

static fiber_semaphore_t sem;
static volatile int failures = 0;

static void on_alarm(int sig) {
  (void)sig;
  static const char msg[] =
      "VIOLATION: second fiber_semaphore_post() has not returned after 10 "
      "seconds: it spins on counter < 0 with an empty wait queue\n";
  if (write(1, msg, sizeof(msg) - 1)) {
  }
  _exit(1);
}

int main(void) {
  setvbuf(stdout, NULL, _IONBF, 0);
  fiber_manager_init(1);
  fiber_semaphore_init(&sem, INT_MAX);
  printf("init(INT_MAX): value=%d\n", fiber_semaphore_getvalue(&sem));

  /* sanity: a wait/post pair at this value works */
  fiber_semaphore_wait(&sem);
  fiber_semaphore_post(&sem);
  printf("wait+post:     value=%d\n", fiber_semaphore_getvalue(&sem));

  /* post #1 on the full semaphore */
  const int post_ret = fiber_semaphore_post(&sem);
  const int v = fiber_semaphore_getvalue(&sem);
  printf("post #1 returned %d, value=%d (initial + posts - waits = %lld)\n",
         post_ret, v, (long long)INT_MAX + 1);
  if (post_ret == FIBER_SUCCESS && v < INT_MAX) {
    printf("VIOLATION: a successful post made the value go from %d to %d\n",
           INT_MAX, v);
    failures++;
  }

  /* units are available (>= INT_MAX of them), nobody else is active */
  const int got = fiber_semaphore_trywait(&sem);
  printf("trywait returned %d, value=%d\n", got,
         fiber_semaphore_getvalue(&sem));
  if (!got) {
    printf("VIOLATION: trywait fails although >= %d units are available and "
           "no other fiber is active\n", INT_MAX);
    failures++;
  } else {
    fiber_semaphore_post(&sem); /* give it back */
  }

  /* post #2 */
  struct sigaction sa;
  memset(&sa, 0, sizeof(sa));
  sa.sa_handler = &on_alarm;
  sigaction(SIGALRM, &sa, NULL);
  alarm(10);
  printf("calling post #2 ...\n");
  fiber_semaphore_post(&sem);
  alarm(0);
  printf("post #2 returned, value=%d\n", fiber_semaphore_getvalue(&sem));

  printf(failures ? "property violated\n" : "property held\n");
  fflush(stdout);
  _exit(failures ? 1 : 0);
}
