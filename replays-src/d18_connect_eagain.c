// demo_2: connect() on a blocking-mode AF_UNIX stream socket fails with EAGAIN
// when the listener's backlog is full.  A plain blocking connect() waits until
// the server accepts a queued connection; the shim only handles EINPROGRESS
// (which AF_UNIX never reports) and hands the EAGAIN of the O_NONBLOCK socket
// underneath to the caller.
#define _GNU_SOURCE
#include <errno.h>
#include <stdatomic.h>
#include <stddef.h>
#include <stdio.h>
#include <stdlib.h>
#include <string.h>
#include <sys/socket.h>
#include <sys/un.h>
#include <unistd.h>

#include "fiber.h"
#include "fiber_manager.h"

#define NUM_CLIENTS 6

static struct sockaddr_un addr;
static socklen_t addr_len;
static int listener;
static atomic_int failures_eagain, failures_other, successes;

static __attribute__((noinline, noclone)) int errno_now(void) {
  __asm__ volatile("" ::: "memory");
  return errno;
}

static void* client(void* p) {
  const int s = socket(AF_UNIX, SOCK_STREAM, 0);  // blocking mode
  if (s < 0) {
    perror("socket");
    exit(3);
  }
  const int ret = connect(s, (struct sockaddr*)&addr, addr_len);
  const int err = errno_now();
  if (ret == 0) {
    ++successes;
    char c = 'c';
    if (write(s, &c, 1) != 1) {
      perror("write");
    }
  } else if (err == EAGAIN || err == EWOULDBLOCK) {
    printf("client %ld: connect() on a blocking socket failed: %s\n", (long)p,
           strerror(err));
    ++failures_eagain;
  } else {
    printf("client %ld: connect() failed: %s\n", (long)p, strerror(err));
    ++failures_other;
  }
  close(s);
  return NULL;
}

// a slow server: starts accepting after 300ms
static void* server(void* p) {
  usleep(300000);
  int served = 0;
  // every client whose connect() did not fail is served
  while (served + failures_eagain + failures_other < NUM_CLIENTS) {
    const int c = accept(listener, NULL, NULL);
    if (c < 0) {
      perror("accept");
      exit(3);
    }
    char ch;
    if (read(c, &ch, 1) != 1) {
      perror("read");
    }
    close(c);
    ++served;
  }
  return NULL;
}

int main() {
  setvbuf(stdout, NULL, _IONBF, 0);
  fiber_manager_init(1);

  memset(&addr, 0, sizeof(addr));
  addr.sun_family = AF_UNIX;
  // abstract namespace: no file system entry
  const int n = snprintf(addr.sun_path + 1, sizeof(addr.sun_path) - 1,
                         "hunt-h06-demo2-%d", (int)getpid());
  addr_len = offsetof(struct sockaddr_un, sun_path) + 1 + n;

  listener = socket(AF_UNIX, SOCK_STREAM, 0);
  if (listener < 0 || bind(listener, (struct sockaddr*)&addr, addr_len) ||
      listen(listener, 1)) {
    perror("listener");
    return 3;
  }

  fiber_t* srv = fiber_create(102400, &server, NULL);
  fiber_t* clients[NUM_CLIENTS];
  long i;
  for (i = 0; i < NUM_CLIENTS; ++i) {
    clients[i] = fiber_create(102400, &client, (void*)i);
  }
  for (i = 0; i < NUM_CLIENTS; ++i) {
    fiber_join(clients[i], NULL);
  }
  fiber_join(srv, NULL);
  close(listener);

  printf("connect(): %d ok, %d EAGAIN, %d other errors\n", (int)successes,
         (int)failures_eagain, (int)failures_other);
  if (failures_eagain) {
    printf(
        "VIOLATION: connect() on a descriptor in blocking mode failed with "
        "EAGAIN\n");
    return 1;
  }
  if (failures_other || successes != NUM_CLIENTS) {
    return 1;
  }
  printf("OK\n");
  return 0;
}
