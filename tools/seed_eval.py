#!/usr/bin/env python3
"""Evaluate a seeded change produced by an independent sub-agent.

usage: seed_eval.py <PID> <seed-dir containing SEED/> [name]
 1. confirms in a scratch worktree of /repo HEAD: patch applies, library builds, ctest passes (twice),
    run_demo.sh fails on the patched tree and passes on the pristine tree;
 2. applies the patch to /repo itself, runs every registered quick check, records which fire, reverts;
 3. stores patch.diff, the demonstration and meta.json under /verif/seeded/<name>/.
"""
import json, os, shutil, subprocess, sys, tempfile, time

V = os.path.dirname(os.path.dirname(os.path.abspath(__file__)))


def sh(cmd, **kw):
    return subprocess.run(cmd, shell=True, capture_output=True, text=True, **kw)


def main():
    pid, seed = sys.argv[1].upper(), sys.argv[2].rstrip("/")
    name = sys.argv[3] if len(sys.argv) > 3 else "%s-agent1" % pid
    S = os.path.join(seed, "SEED")
    patch = os.path.join(S, "patch.diff")
    meta = {"property": pid, "name": name, "source": "independent sub-agent given only the property text", "at": time.strftime("%Y-%m-%d %H:%M")}
    W = tempfile.mkdtemp(prefix="seedchk-")
    pat = os.path.join(W, "patched")
    pri = os.path.join(W, "pristine")
    try:
        for d in (pat, pri):
            r = sh("git -C /repo worktree add -q --detach %s HEAD" % d)
            assert r.returncode == 0, r.stderr
        r = sh("git -C %s apply %s" % (pat, patch))
        meta["patch_applies_to_head"] = r.returncode == 0
        if r.returncode != 0:
            meta["apply_error"] = r.stderr[-500:]
            print(json.dumps(meta, indent=1))
            return 1
        touched = sh("git -C %s diff --stat" % pat).stdout
        meta["diffstat"] = touched.strip().splitlines()[-1] if touched.strip() else ""
        b = os.path.join(pat, "_b")
        r = sh("cmake -G Ninja -S %s -B %s -DCMAKE_BUILD_TYPE=RelWithDebInfo -DFIBER_RUN_TESTS_WITH_BUILD=OFF >/dev/null && cmake --build %s 2>&1 | tail -5" % (pat, b, b))
        meta["builds_with_werror"] = r.returncode == 0 and "error" not in r.stdout.lower()
        passes = []
        for i in range(4):
            r = sh("ctest --test-dir %s -j8 --timeout 900 2>&1 | tail -6" % b)
            ok = "100% tests passed" in r.stdout
            if not ok:
                # test_io uses a fixed TCP port (other suites may be running here) and test_semaphore is the known flaky
                # test of the baseline: re-run just the failed ones, serially
                r2 = sh("ctest --test-dir %s --rerun-failed --timeout 900 2>&1 | tail -4" % b)
                ok = "100% tests passed" in r2.stdout
                if not ok:
                    meta.setdefault("ctest_tail", (r.stdout + r2.stdout)[-800:])
            passes.append(ok)
            if sum(passes) >= 2:
                break
        meta["suite_runs"] = passes
        meta["suite_passes_twice"] = sum(passes) >= 2
        shutil.rmtree(b, ignore_errors=True)
        demo = os.path.join(S, "run_demo.sh")
        res = {}
        for label, tree in (("patched", pat), ("pristine", pri)):
            t0 = time.time()
            r = sh("timeout 300 sh %s %s 2>&1 | tail -6" % (demo, tree), cwd=S)
            r2 = sh("cd %s && timeout 300 sh %s %s >/dev/null 2>&1; echo $?" % (S, demo, tree))
            res[label] = {"exit": int(r2.stdout.strip() or -1), "tail": r.stdout[-500:], "s": round(time.time() - t0, 1)}
        meta["demo"] = res
        meta["demo_confirms"] = res["patched"]["exit"] != 0 and res["pristine"]["exit"] == 0
    finally:
        for d in (pat, pri):
            sh("git -C /repo worktree remove --force %s" % d)
        shutil.rmtree(W, ignore_errors=True)
    # run the checks against /repo with the patch applied
    assert sh("git -C /repo status --porcelain -- src include").stdout.strip() == "", "/repo not clean"
    r = sh("git -C /repo apply %s" % patch)
    assert r.returncode == 0, r.stderr
    fired = {}
    try:
        man = json.load(open(os.path.join(V, "MANIFEST.json")))
        env = dict(os.environ, VERIF_OUT=tempfile.mkdtemp(prefix="seedout-"))
        for c in man["checks"]:
            r = subprocess.run(c["quick_cmd"], shell=True, cwd=V, capture_output=True, text=True, env=env)
            if r.returncode != 0:
                fired[c["property_id"]] = {"rc": r.returncode, "fails": [l for l in r.stdout.splitlines() if l.startswith(("FAIL", "ANALYSIS"))][:6]}
        shutil.rmtree(env["VERIF_OUT"], ignore_errors=True)
    finally:
        sh("git -C /repo checkout -- . && git -C /repo clean -fdq -- src include")
    meta["checks_fired"] = fired
    meta["detected"] = bool(fired)
    meta["detected_by_target_property"] = pid in fired
    out = os.path.join(V, "seeded", name)
    os.makedirs(out, exist_ok=True)
    for f in os.listdir(S):
        p = os.path.join(S, f)
        if os.path.isfile(p) and os.path.getsize(p) < 400000:
            shutil.copy(p, out)
    json.dump(meta, open(os.path.join(out, "meta.json"), "w"), indent=1)
    print(json.dumps({k: meta[k] for k in ("name", "patch_applies_to_head", "builds_with_werror", "suite_passes_twice", "demo_confirms", "detected", "checks_fired")}, indent=1)[:3000])
    return 0


if __name__ == "__main__":
    sys.exit(main())
