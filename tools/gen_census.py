#!/usr/bin/env python3
"""Freeze the names of the functions the rule tables were written against (lib/census.json).
Run once on the reference tree; a function that is not in the census is interpreted by inlining its body (lib/inline.py)."""
import json, os, sys
sys.path.insert(0, os.path.join(os.path.dirname(os.path.abspath(__file__)), "..", "lib"))
import facts
names = set()
sigs = {}
recs = {}
globs = {}
for cfg in ("pinned", "malloc", "mmap", "ucontext", "debug"):
    d, m = facts.generate(cfg, siblings=True)
    for u in m["units"]:
        for g in json.load(open(os.path.join(d, u["json"])))["globals"]:
            if g.get("def"):
                globs.setdefault(g["name"], [os.path.relpath(g["file"], facts.REPO), g.get("t")])
        for r in json.load(open(os.path.join(d, u["json"])))["records"]:
            recs.setdefault(r["name"], [[f["name"], f.get("t"), f.get("off_bits")] for f in r["fields"]])
        for fd in json.load(open(os.path.join(d, u["json"])))["functions"]:
            names.add(fd["name"])
            rel = os.path.relpath(fd["file"], facts.REPO)
            sigs.setdefault(fd["name"], [rel, fd.get("ret"), [p["t"] for p in fd["params"]], bool(fd.get("static")), [p["name"] for p in fd["params"]]])
out = os.path.join(os.path.dirname(os.path.abspath(__file__)), "..", "lib", "census.json")
json.dump({"comment": "names of the library functions at the reference tree; see lib/inline.py", "functions": sorted(names), "signatures": sigs, "records": recs, "globals": globs}, open(out, "w"), indent=0)
print(len(names), "functions")
