#!/bin/sh
# Builds /repo's current working tree in a scratch dir and runs the pinned ctest suite (guard OFF).
# usage: run_repo_tests.sh [scratch-dir]
S=${1:-/tmp/lf-testbuild}
rm -rf "$S"
cmake -G Ninja -S /repo -B "$S" -DCMAKE_BUILD_TYPE=RelWithDebInfo -DFIBER_RUN_TESTS_WITH_BUILD=OFF -DCMAKE_C_FLAGS=-Wno-error >/dev/null || exit 3
cmake --build "$S" >/dev/null 2>&1 || { echo BUILD-FAILED; rm -rf "$S"; exit 3; }
ctest --test-dir "$S" -j8 --timeout 900 > "$S.log" 2>&1
rc=$?
tail -12 "$S.log"
rm -rf "$S"
exit $rc
