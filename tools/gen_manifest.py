#!/usr/bin/env python3
"""Writes MANIFEST.json from the table below (kept in one place so it stays valid)."""
import json, os
V = os.path.dirname(os.path.dirname(os.path.abspath(__file__)))
CLAIMED = {
 "C01": ("wait-site / schedule-site classification into four hold-off mechanisms with per-mechanism order, guard and lock rules; swap callers; deferred-slot writers; state-writer table; stale-manager dataflow; no-touch-after-schedule; done-fiber hand-over",
         "CFG must-pass-through / dominance / guard rules, who-may-call and who-may-write tables, reaching-definition dataflow (STALE, NOTOUCH) over the whole library"),
 "C02": ("Chase-Lev skeleton (fence, last-element CAS, bottom restore, steal order, publish order, growth), writers table, owner discipline, steal index table, idle loop",
         "CFG dominance / fence / guard rules + enumerated index tables over work_stealing_deque.c and the scheduler"),
 "C03": ("lock/trylock/unlock decision tables over the atomic counter's old value, memory orders, waker loop (yield not spin, exit only after count wakes, node hand-back), single consumer and counter-writer tables",
         "enumerated forced-branch tables over atomic results + CFG dominance / who-may-call rules on fiber_mutex.c and the shared waker"),
 "C04": ("detach_state compare-exchange-only writer table; transition table (completed NONE->WFJ; join NONE->WTJ, WFJ->WTJ; tryjoin WFJ->WTJ; detach NONE->DET, WFJ->DET) checked per function over every sequence of states its accesses can observe (legal transition only; park / take+READY+schedule / error exactly as specified); result store/copy/read order rules; no touch of the joined fiber after waking it; clear_or_wait loop shape",
         "concrete interpretation of every CFG path of the four protocol functions for every chain of observed states (compare-exchange modelled on the expected local), checked against the transition table; static forced-branch tables as fallback; CFG dominance / no-touch rules on fiber.c"),
 "C05": ("register-before-enqueue order, mutex released only through the deferred slot, re-lock on every return; signal/broadcast lock pairing, claim tables and wake counts; single-consumer and counter-writer tables",
         "CFG dominance / lock-pair rules + enumerated claim tables on fiber_cond.c and the enqueue helper"),
 "C06": ("wait/trywait/post decision tables over the counter value and wake result, no increment reachable at INT_MAX (also on the retry path of a failed compare-exchange), increment-after-wake order, no exit without wake-or-increment, counter-writer table, waker count semantics",
         "enumerated forced-branch tables over atomic results + CFG dominance rules on fiber_semaphore.c"),
 "C07": ("transition rows of all six lock/unlock/try functions interpreted over enumerated legal snapshots of the packed state word; policy-independent row conditions (exclusion, no stranded waiter, count<->action agreement, ownership transfer in the same CAS, CAS on the whole snapshot, re-snapshot on failure, try variants never park)",
         "word-level interpretation of locals/bit-fields over an enumerated snapshot domain (TABLE) + who-may-write rule on fiber_rwlock.c"),
 "C08": ("fd-table bounds followed inter-procedurally from the libc shims, should_block truth table, F_SETFL/FIONBIO mode tables, retry-template agreement of all shims under enumerated scenarios, fd>=0 comparisons, shim pointer resolution, close/poller lock and order rules",
         "inter-procedural forced-branch reachability over enumerated descriptor classes and scenarios (BOUNDS / TABLE / SIBLING rules) on fiber_io.c and fiber_event_native.c"),
 "C09": ("sleep registration under the sleep lock with deferred unlock, poller lock/unlink/no-touch rules, strict expiry comparison table, deadline arithmetic evaluated with C integer widths over boundary durations, unit conversion and routing tables of sleep/usleep/nanosleep",
         "CFG lock-pair / dominance rules, reaching-definition NOTOUCH dataflow, enumerated arithmetic tables with C widths"),
 "C11": ("publish-before-raise in every send, re-check after every wait in every receive, signal wait/raise CAS and exchange tables, bounded-channel claim and consume tables, multi-channel capacity tables (across the counter wrap when the counters are narrower than 64 bits) with re-test after wait and wake-before-unlock, senders and receivers parked on different lists with each operation waking the other kind",
         "CFG dominance / must-pass-through rules + enumerated forced-branch tables on fiber_channel.h, fiber_multi_channel.h, fiber_signal.h"),
 "C12": ("arrival table over (count, arrival number): serial path, wake count, return values; counter-writer table; round-separation certificate with an enumerated list-selection table",
         "enumerated forced-branch tables + certificate recognition on fiber_barrier.c and the shared waker"),
 "C13": ("hazard-pointer typestate (loaded -> published -> re-validated -> dereferenced) at the three publication sites of the FIFO, push terminate/CAS/link order, pop read/CAS/retire order and guards, guarded empty report, head/tail writer table",
         "typestate rule over the CFG (publish + validating-edge must-pass-through), dominance / guard / memory-order rules on mpmc_fifo.h"),
 "C14": ("full fence after the slot publication, typestate at every publication site, scan coverage (record walk + slot loop), snapshot private to one scan invocation (not re-read from / left reachable through the record across reclamation callbacks), full fence before the slots are read, sort-before-search with comparator and binary-search tables incl. high addresses, reclaim decision table, retire threshold test, threshold-before-publication order, plist capacity table",
         "fence / dominance rules, typestate, interpreted search and comparator tables, enumerated decision tables on hazard_pointer.{h,c}"),
 "C15": ("terminate-swap-link publication order and memory orders of the MPSC/SPSC producers, guarded advance-copy-return shape of the consumers, head-writer tables, relaxed-MPSC index table and interpreted empty-pass table",
         "CFG dominance / memory-order rules, resolved access-path equality, enumerated index and loop tables on mpsc_fifo.h, spsc_fifo.h, mpsc_relaxed_fifo.h"),
 "C16": ("claim tables of trypush/trypop over (high, low, slot) incl. wrap-around, load order, slot write/clear only behind a won CAS, slot read before the CAS, mask/index tables, counter-writer table",
         "enumerated forced-branch tables + CFG guard/dominance rules on lockfree_ring_buffer.h"),
 "C17": ("announce-before-enqueue order, START_WORKING table, retire table over (out_count, in_count, subtraction result), reset-before-subtract order, count only behind a successful pop",
         "enumerated forced-branch tables + CFG dominance/guard rules on work_queue.c"),
 "C18": ("ticket-lock tables (wait-loop exit, ticket+1), memory orders, trylock word construction interpreted over snapshots incl. wrap-around, record layout of the two halves, writers table",
         "enumerated tables + word-level interpretation + record-layout facts on fiber_spinlock.c"),
 "C19": ("abstract interpretation of the x86-64 switch template over a symbolic stack (push/pop symmetry and slots, MXCSR / x87 control word saved and restored (known finding F1), resume-address displacement, skip, saved rsp, operand binding, clobbers), fresh-context layout read as a store sequence and compared with the template, stack allocate/release pairing and who-may-call rules per strategy, ucontext operand order",
         "inline-assembly abstract interpretation + store-sequence analysis + who-may-call rules on fiber_context.c (thorough: malloc / mmap / ucontext configurations)"),
 "C20": ("cmpxchg16b operand/constraint table, union layouts, per-site interpreted snapshot tables (expected = whole snapshot, installed = counter+1 and the specified pointer, fresh loads after failure), load order/barrier, link-inside-loop and claim-behind-CAS rules, multi-signal head-state rows, flushable-stack rules",
         "inline-asm operand check, record-layout facts, word-level interpretation over enumerated snapshots, CFG dominance/guard rules on the double-word-CAS headers"),
 "C10": ("fairness certificate: push/pop deque fields differ, swap only on empty, successor re-queue",
         "CFG/AST who-pushes-where + guarded-swap rules over the scheduler"),
}
NOT_APPLICABLE = {}
props = [json.loads(l) for l in open(os.path.join(V, "properties.jsonl"))]
checks = []
for p in props:
    pid = p["id"]
    if pid not in CLAIMED:
        continue
    text, tech = CLAIMED[pid]
    checks.append({
        "property_id": pid,
        "quick_cmd": "python3 bin/check.py %s --tier quick" % pid,
        "thorough_cmd": "python3 bin/check.py %s --tier thorough" % pid,
        "evidence_file": "evidence/%s.json" % pid,
        "replay_cmd_template": "python3 bin/check.py %s --replay {path}" % pid,
        "engine": "factgen+rules",
        "level_claimed": {
            "category": "other",
            "text": "Static analysis of /repo's current source (clang 14 AST + CFG facts, custom rule tables): decides "
                    "structural necessary conditions of the property on every path of every anchored function — "
                    + text + ". It does not prove the behavioural statement; the clauses not decided are listed in the evidence file.",
            "design_ref": "DESIGN.md §5 " + pid,
        },
        "level_note": "structural necessary conditions only; trusted: clang 14 front end/CFG builder, the x86-TSO reading in "
                      "DESIGN.md §3, the per-property rule tables (each instance carries its reason)",
        "technique": "static analysis: " + tech,
    })
na = []
for p in props:
    if p["id"] not in CLAIMED:
        na.append({"property_id": p["id"], "reason": NOT_APPLICABLE.get(p["id"], "check not built yet (work in progress); no verdict is claimed")})
m = {
 "version": 1,
 "setup_cmd": "sh factgen/build.sh && python3 lib/facts.py pinned",
 "hooks": {
   "guard": "LIBFIBER_VERIF",
   "enable": "none needed: nothing is instrumented because nothing is run (static analysis of the source)",
   "baseline_off_cmd": "sh tools/run_repo_tests.sh",
   "source_commits": [],
   "add_only": True,
 },
 "engines": [{"name": "factgen+rules", "path": "factgen/factgen.cc, lib/, props/",
              "serves_properties": sorted(CLAIMED),
              "kind_free_text": "clang 14 libTooling fact extractor (AST + CFG per function) and a python rule engine "
                                "(dominance / must-pass-through / guard / memory-order / who-may-call / typestate / table rules)"}],
 "checks": checks,
 "not_applicable": na,
 "notes": "exit 0 = all obligations discharged (KNOWN-FINDING lines for listed findings); exit 1 + VIOLATION line = unlisted violation; "
          "exit 2 = analysis broken (anchor vanished / unit does not parse / frozen instance count not met).",
}
json.dump(m, open(os.path.join(V, "MANIFEST.json"), "w"), indent=1)
print("wrote MANIFEST.json with", len(checks), "checks,", len(na), "not_applicable")
