#!/bin/sh
# usage: rebase_patch.sh <dir under /verif with patch.diff> <tag>   -- 3-way re-application of a stored patch onto /repo HEAD
n=$1; tag=$2
cd /repo || exit 2
git checkout -q -- . ; git clean -fdq -- src include
cp -n /verif/$n/patch.diff /verif/$n/patch.before-$tag.diff
if git apply --3way /verif/$n/patch.before-$tag.diff 2>/tmp/3way.err && ! git diff --name-only --diff-filter=U | grep -q .; then
  git diff HEAD -- src include CMakeLists.txt > /verif/$n/patch.diff; echo "$n rebased automatically"
else
  echo "$n CONFLICT: $(git diff --name-only --diff-filter=U | tr '\n' ' ')"
fi
git reset -q; git checkout -q -- .; git clean -fdq -- src include
