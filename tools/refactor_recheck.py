#!/usr/bin/env python3
"""Re-run all registered quick checks against every stored behaviour-preserving refactoring (applied to /repo, then reverted):
every check must stay silent.  usage: refactor_recheck.py [names] [--props C01,C02]"""
import json, os, subprocess, sys, tempfile, shutil
V = os.path.dirname(os.path.dirname(os.path.abspath(__file__)))
def sh(c, **kw): return subprocess.run(c, shell=True, capture_output=True, text=True, **kw)
man = json.load(open(os.path.join(V, "MANIFEST.json")))
args = sys.argv[1:]
props = None
if "--props" in args:
    i = args.index("--props"); props = set(args[i + 1].split(",")); del args[i:i + 2]
only = set(args)
bad = 0
for name in sorted(os.listdir(os.path.join(V, "refactors"))):
    if only and name not in only: continue
    d = os.path.join(V, "refactors", name)
    mp, pp = os.path.join(d, "meta.json"), os.path.join(d, "patch.diff")
    if not (os.path.exists(mp) and os.path.exists(pp)): continue
    meta = json.load(open(mp))
    assert sh("git -C /repo status --porcelain -- src include").stdout.strip() == "", "/repo not clean"
    r = sh("git -C /repo apply %s" % pp)
    if r.returncode != 0:
        print(name, "patch no longer applies"); continue
    fired = {}
    try:
        env = dict(os.environ, VERIF_OUT=tempfile.mkdtemp(prefix="refout-"))
        for c in man["checks"]:
            if props and c["property_id"] not in props: continue
            r = subprocess.run(c["quick_cmd"], shell=True, cwd=V, capture_output=True, text=True, env=env)
            if r.returncode != 0:
                fired[c["property_id"]] = {"rc": r.returncode, "fails": [l for l in (r.stdout + r.stderr).splitlines() if l.startswith(("FAIL", "ANALYSIS", "Traceback", "  File", "AssertionError", "KeyError", "TypeError", "AttributeError", "IndexError"))][-8:]}
        shutil.rmtree(env["VERIF_OUT"], ignore_errors=True)
    finally:
        sh("git -C /repo checkout -- . && git -C /repo clean -fdq -- src include")
    if not props:
        if fired and "alarms_at_first" not in meta: meta["alarms_at_first"] = meta.get("alarms", fired)
        meta["alarms"] = fired; meta["silent"] = not fired
        json.dump(meta, open(mp, "w"), indent=1)
    bad += bool(fired)
    print(name, "SILENT" if not fired else "ALARM")
    for k, v in fired.items():
        print("   ", k, v["rc"])
        for l in v["fails"]: print("       ", l[:330])
sys.exit(1 if bad else 0)
