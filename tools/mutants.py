#!/usr/bin/env python3
"""Self-test of the checker: apply each single-edit mutant of mutants/<PID>.json to a scratch copy of
/repo's current {CMakeLists.txt,src,include}, run the property's rules on the copy, classify.

A mutant is {id, file, find, replace, expect: [rule prefixes], note}.  `find` must occur exactly once.
Results: killed (an expected rule fired) / killed-other / survived / stale (find no longer matches) /
broken (exit 2).  Survivors are bugs in the checker; they never change the verdict about /repo.
"""
import json, os, shutil, subprocess, sys, tempfile
from concurrent.futures import ThreadPoolExecutor

V = os.path.dirname(os.path.dirname(os.path.abspath(__file__)))
REPO = os.environ.get("VERIF_REPO", "/repo")


def run_one(pid, m, slot):
    root = os.path.join(tempfile.gettempdir(), "verif-mut-%d-%d" % (os.getpid(), slot))
    repo = os.path.join(root, "repo")
    shutil.rmtree(root, ignore_errors=True)
    os.makedirs(repo)
    try:
        shutil.copy(os.path.join(REPO, "CMakeLists.txt"), repo)
        for d in ("src", "include"):
            shutil.copytree(os.path.join(REPO, d), os.path.join(repo, d))
        # the compile DB options are read from the pinned build tree's cache
        if os.path.exists(os.path.join(REPO, "_build", "CMakeCache.txt")):
            os.makedirs(os.path.join(repo, "_build"))
            shutil.copy(os.path.join(REPO, "_build", "CMakeCache.txt"), os.path.join(repo, "_build"))
        if m.get("patch"):
            r = subprocess.run(["patch", "-p1", "-s", "-d", repo, "-i", m["patch"]], capture_output=True, text=True)
            if r.returncode != 0:
                return {"id": m["id"], "result": "stale", "detail": "patch does not apply: " + r.stdout[-200:]}
            edits = []
        else:
            edits = m.get("edits") or [{"file": m["file"], "find": m["find"], "replace": m["replace"]}]
        for e in edits:
            p = os.path.join(repo, e["file"])
            s = open(p).read()
            if s.count(e["find"]) != 1:
                return {"id": m["id"], "result": "stale", "detail": "find matches %d times in %s" % (s.count(e["find"]), e["file"])}
            open(p, "w").write(s.replace(e["find"], e["replace"]))
        env = dict(os.environ, VERIF_REPO=repo, VERIF_COMPDB_FROM=REPO, VERIF_OUT=os.path.join(root, "out"), VERIF_CACHE=os.path.join(root, "cache"), VERIF_NO_SELFTEST="1")
        r = subprocess.run([sys.executable, os.path.join(V, "bin", "check.py"), pid, "--tier", m.get("tier", "quick")],
                           capture_output=True, text=True, env=env)
        fired = sorted({l.split()[1].split(".", 1)[1] for l in r.stdout.splitlines() if l.startswith("FAIL ")})
        exp = m.get("expect") or []
        if m.get("equivalent"):
            res = "killed" if r.returncode == 0 else "false-alarm"
        elif r.returncode == 2:
            res = "broken"
        elif r.returncode == 0:
            res = "survived"
        elif any(f.startswith(e) for f in fired for e in exp) or not exp:
            res = "killed"
        else:
            res = "killed-other"
        return {"id": m["id"], "result": res, "fired": fired, "expect": exp, "rc": r.returncode,
                "detail": "" if res in ("killed",) else "\n".join(l for l in r.stdout.splitlines() if l.startswith(("FAIL", "ANALYSIS", "C")))[-500:]}
    finally:
        shutil.rmtree(root, ignore_errors=True)


def run_patch(pid, patch):
    """apply a git patch (seeded change) to a scratch copy and run the property's check on it"""
    return run_one(pid, {"id": os.path.basename(os.path.dirname(patch)), "patch": patch, "expect": []}, 900 + (os.getpid() % 50))


def run(pid, only=None, jobs=8):
    p = os.path.join(V, "mutants", pid + ".json")
    if not os.path.exists(p):
        open(p, "w").write("[]")
    ms = json.load(open(p))
    # behaviour-preserving rewrites shared by several properties: every listed property must stay silent on them
    ep = os.path.join(V, "mutants", "EQUIV.json")
    if os.path.exists(ep):
        for e in json.load(open(ep)):
            if pid in e.get("props", ()):
                e = dict(e, equivalent=True, expect=[])
                ms.append(e)
    if only:
        ms = [m for m in ms if m["id"] in only]
    with ThreadPoolExecutor(max_workers=jobs) as ex:
        futs = [ex.submit(run_one, pid, m, i) for i, m in enumerate(ms)]
        return [f.result() for f in futs]


if __name__ == "__main__":
    pid = sys.argv[1].upper()
    res = run(pid, only=set(sys.argv[2:]) or None)
    bad = 0
    for r in res:
        print("%-28s %-12s fired=%s expect=%s" % (r["id"], r["result"], r.get("fired"), r.get("expect")))
        if r["result"] not in ("killed",):
            bad += 1
            if r.get("detail"):
                print("    " + r["detail"].replace("\n", "\n    "))
    print("%d mutants, %d not killed-as-expected" % (len(res), bad))
