#!/usr/bin/env python3
"""Re-run all registered quick checks against every stored seeded patch (applied to /repo, then reverted) and update
meta.json: `checks_fired`, `detected`; a seed that was missed when first evaluated keeps `missed_at_first: true`."""
import json, os, subprocess, sys, tempfile, shutil
V = os.path.dirname(os.path.dirname(os.path.abspath(__file__)))
def sh(c, **kw): return subprocess.run(c, shell=True, capture_output=True, text=True, **kw)
man = json.load(open(os.path.join(V, "MANIFEST.json")))
only = set(sys.argv[1:])
for name in sorted(os.listdir(os.path.join(V, "seeded"))):
    if only and name not in only: continue
    d = os.path.join(V, "seeded", name)
    mp, pp = os.path.join(d, "meta.json"), os.path.join(d, "patch.diff")
    if not (os.path.exists(mp) and os.path.exists(pp)): continue
    meta = json.load(open(mp))
    if meta.get("rejected"):
        print(name, "REJECTED (not a break of the library):", meta["rejected"][:80]); continue
    assert sh("git -C /repo status --porcelain -- src include").stdout.strip() == "", "/repo not clean"
    r = sh("git -C /repo apply %s" % pp)
    if r.returncode != 0:
        print(name, "patch no longer applies"); continue
    fired = {}
    try:
        env = dict(os.environ, VERIF_OUT=tempfile.mkdtemp(prefix="seedout-"))
        for c in man["checks"]:
            if c["property_id"] != meta["property"] and not only: 
                # all checks only on demand; by default the target property plus those that fired before
                if c["property_id"] not in meta.get("checks_fired", {}): continue
            r = subprocess.run(c["quick_cmd"], shell=True, cwd=V, capture_output=True, text=True, env=env)
            if r.returncode != 0:
                fired[c["property_id"]] = {"rc": r.returncode, "fails": [l for l in r.stdout.splitlines() if l.startswith(("FAIL", "ANALYSIS"))][:6]}
        shutil.rmtree(env["VERIF_OUT"], ignore_errors=True)
    finally:
        sh("git -C /repo checkout -- . && git -C /repo clean -fdq -- src include")
    if not meta.get("detected") and fired:
        meta["missed_at_first"] = True
    meta["checks_fired"] = fired
    meta["detected"] = bool(fired)
    meta["detected_by_target_property"] = meta["property"] in fired and fired[meta["property"]]["rc"] == 1
    json.dump(meta, open(mp, "w"), indent=1)
    print(name, "DETECTED" if fired else "MISSED", {k: v["rc"] for k, v in fired.items()}, "(missed at first)" if meta.get("missed_at_first") else "")
