#!/usr/bin/env python3
"""Evaluate a behaviour-preserving refactoring produced by an independent sub-agent: every check must stay silent.
usage: refactor_eval.py <dir containing REFACTOR/patch.diff> <name>"""
import json, os, shutil, subprocess, sys, tempfile, time
V = os.path.dirname(os.path.dirname(os.path.abspath(__file__)))
def sh(c, **kw): return subprocess.run(c, shell=True, capture_output=True, text=True, **kw)
src, name = sys.argv[1].rstrip("/"), sys.argv[2]
R = os.path.join(src, "REFACTOR")
patch = os.path.join(R, "patch.diff")
meta = {"name": name, "kind": "behaviour-preserving refactoring by an independent sub-agent", "at": time.strftime("%Y-%m-%d %H:%M")}
W = tempfile.mkdtemp(prefix="refchk-")
try:
    assert sh("git -C /repo worktree add -q --detach %s/t HEAD" % W).returncode == 0
    r = sh("git -C %s/t apply %s" % (W, patch))
    meta["patch_applies_to_head"] = r.returncode == 0
    if r.returncode == 0:
        b = W + "/t/_b"
        r = sh("cmake -G Ninja -S %s/t -B %s -DCMAKE_BUILD_TYPE=RelWithDebInfo -DFIBER_RUN_TESTS_WITH_BUILD=OFF >/dev/null && cmake --build %s 2>&1 | tail -3" % (W, b, b))
        meta["builds"] = r.returncode == 0
        ok = 0
        for i in range(3):
            r = sh("ctest --test-dir %s -j8 --timeout 900 2>&1 | tail -5" % b)
            good = "100% tests passed" in r.stdout
            if not good:
                r2 = sh("ctest --test-dir %s --rerun-failed --timeout 900 2>&1 | tail -4" % b)
                good = "100% tests passed" in r2.stdout
            ok += good
            if ok >= 2: break
        meta["suite_passes_twice"] = ok >= 2
        meta["diffstat"] = sh("git -C %s/t diff --shortstat" % W).stdout.strip()
finally:
    sh("git -C /repo worktree remove --force %s/t" % W); shutil.rmtree(W, ignore_errors=True)
if not meta.get("patch_applies_to_head"):
    print(json.dumps(meta, indent=1)); sys.exit(1)
assert sh("git -C /repo status --porcelain -- src include").stdout.strip() == "", "/repo not clean"
assert sh("git -C /repo apply %s" % patch).returncode == 0
fired = {}
try:
    man = json.load(open(os.path.join(V, "MANIFEST.json")))
    env = dict(os.environ, VERIF_OUT=tempfile.mkdtemp(prefix="refout-"))
    for c in man["checks"]:
        r = subprocess.run(c["quick_cmd"], shell=True, cwd=V, capture_output=True, text=True, env=env)
        if r.returncode != 0:
            fired[c["property_id"]] = {"rc": r.returncode, "fails": [l for l in r.stdout.splitlines() if l.startswith(("FAIL", "ANALYSIS"))][:8]}
    shutil.rmtree(env["VERIF_OUT"], ignore_errors=True)
finally:
    sh("git -C /repo checkout -- . && git -C /repo clean -fdq -- src include")
meta["alarms"] = fired
meta["silent"] = not fired
out = os.path.join(V, "refactors", name)
os.makedirs(out, exist_ok=True)
for f in os.listdir(R):
    p = os.path.join(R, f)
    if os.path.isfile(p) and os.path.getsize(p) < 400000: shutil.copy(p, out)
json.dump(meta, open(os.path.join(out, "meta.json"), "w"), indent=1)
print(json.dumps(meta, indent=1)[:4000])
