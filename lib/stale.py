"""Program-wide derived sets (MaySwitch, schedule sites) and the STALE dataflow rule.

STALE: a local that holds a per-kernel-thread object (the manager, its scheduler, its hazard
record) and was defined before a call that may context-switch must be re-assigned before its
next use: after the switch the fiber may have been stolen and run on another kernel thread.
"""
from core import strip, is_field, key_str
from facts import AnalysisBroken
from rules import nodeset

SWAP = "fiber_context_swap"
THREAD_BOUND_TYPES = ("fiber_manager_t *", "struct fiber_manager *", "hazard_pointer_thread_record_t *",
                      "fiber_scheduler_t *", "fiber_scheduler_wsd_t *", "fiber_scheduler_dist_t *")
SCHEDULE_FUNCS = ("fiber_manager_schedule", "fiber_scheduler_schedule")
PUSH = "wsd_work_stealing_deque_push_bottom"


def gc_targets(P):
    """Functions whose address is stored into a `gc_function` field anywhere."""
    out = set()
    for fn in P.unique_functions():
        for s in fn.stores():
            k = fn.target_key(s.target)
            if is_field(k, None, "gc_function") and s.value is not None:
                v = strip(s.value)
                if v.k == "UnaryOperator" and v.op == "&":
                    v = strip(v.kids[0])
                if v.k == "DeclRefExpr" and v.dk == "func":
                    out.add(v.name)
    return out


def indirect_may(P):
    gct = gc_targets(P)

    def f(fn, call):
        callee = strip(call.kids[0])
        k = fn.key(callee)
        if is_field(k, None, "gc_function"):
            return gct
        if is_field(k, None, "run_function"):
            return {SWAP}  # user code: may do anything, including blocking
        # dlsym()-resolved libc entry points (fibershim_*) never re-enter the scheduler
        return ()
    return f


def may_switch(P):
    """functions that may switch kernel threads *and return to their caller*: a call of such a function from which the function's exit is
    reachable (a switch on a path that ends in abort() does not come back, so nothing after it can be stale)"""
    key = "_may_switch"
    if not hasattr(P, key):
        im = indirect_may(P)
        ms = {SWAP}
        fns = {f.name: f for f in P.unique_functions()}
        changed = True
        while changed:
            changed = False
            for name, fn in fns.items():
                if name in ms:
                    continue
                for c in fn.calls():
                    tg = {c.callee} if c.callee else set(im(fn, c))
                    if tg & ms and (fn.cfgpos(c) is None or fn.find_path(c, "exit") is not None):
                        ms.add(name)
                        changed = True
                        break
        setattr(P, key, ms)
    return getattr(P, key)


def switch_calls(P, fn):
    ms = may_switch(P)
    im = indirect_may(P)
    out = []
    for c in fn.calls():
        if c.callee:
            if c.callee in ms:
                out.append(c)
        elif SWAP in im(fn, c):
            out.append(c)
    return out


def is_thread_bound_type(t):
    if not t:
        return False
    t = t.replace("const", "").replace("volatile", "").replace("  ", " ").strip()
    t = t.replace(" *", "*").replace("* ", "*")
    for tb in THREAD_BOUND_TYPES:
        if t == tb.replace(" *", "*"):
            return True
    return False


THREAD_GETTERS = ("fiber_manager_get", "fiber_manager_get_hazard_record", "fiber_scheduler_for_thread")


def thread_derived(fn, value):
    if value is None:
        return False
    skip = set()
    for n in value.walk():
        if n.k == "UnaryExprOrTypeTraitExpr":  # sizeof(*manager): unevaluated operand
            skip |= {m.id for m in n.walk()}
    for n in value.walk():
        if n.id in skip:
            continue
        if n.k == "CallExpr" and n.callee in THREAD_GETTERS:
            return True
        if n.k == "DeclRefExpr" and n.did and is_thread_bound_type((fn.local_by_did.get(n.did) or {}).get("t")):
            return True
        if n.k == "DeclRefExpr" and n.dk == "global" and n.name in ("fiber_the_manager", "fiber_managers", "fiber_schedulers"):
            return True
    return False


EXEMPT = {
    "fiber_manager_create": "start-up only: its `scheduler` argument is the scheduler being given to the *new* manager, not the "
                            "calling thread's (checked: called only from fiber_manager_init with fiber_scheduler_for_thread(i))",
    "fiber_manager_thread_func": "the maintenance fiber is switched to by address and never queued, so it cannot migrate "
                                 "(checked: it is never put in to_schedule nor passed to a schedule call)",
}


def stale_uses(P, fn):
    """List of (var name, def node or 'entry', switch call, use node, witness)."""
    sw = switch_calls(P, fn)
    if not sw:
        return [], 0
    swp = nodeset(sw)
    out = []
    nvars = 0
    for did, info in fn.local_by_did.items():
        if not is_thread_bound_type(info.get("t")):
            continue
        nvars += 1
        evs = [e for e in fn.defs().get(did, []) if e[0] in ("init", "assign", "addr", "mod")]
        kills = nodeset([e[1] for e in evs])
        uses = [n for n in fn.nodes if n.d["k"] == "DeclRefExpr" and n.did == did
                and n.parent is not None and not (n.parent.k == "BinaryOperator" and n.parent.op == "=" and strip(n.parent.kids[0]) is n)]
        starts = [("entry", None)] if info.get("param") else []
        # only values that denote *this kernel thread's* object can go stale: obtained from the
        # per-thread getter or derived from another thread-bound local (a freshly allocated
        # manager in fiber_manager_create is not the running thread's manager)
        starts += [(e[1], e) for e in evs if e[0] in ("init", "assign") and thread_derived(fn, e[2])]
        for c in sw:
            # is some definition live at c ?
            for st, e in starts:
                if st != "entry" and st.contains(c):
                    continue
                if fn.find_path(st, lambda n: n is c, barrier=kills) is None:
                    continue
                for u in uses:
                    # (an argument of the switching call itself is evaluated before the call: the search
                    #  starts after the call, so such a use is only found again through a loop back edge)
                    w = fn.find_path(c, lambda n: n is u, barrier=kills)
                    if w is not None:
                        out.append((info["name"], st, c, u, w))
    # de-duplicate by (var, call, use)
    seen = set()
    res = []
    for r in out:
        k = (r[0], r[2].id, r[3].id)
        if k not in seen:
            seen.add(k)
            res.append(r)
    return res, nvars


def check_exemption(ctx, P, rule):
    tf = P.fn("fiber_manager_thread_func")
    o = ctx.ob(rule + ".exempt", tf,
               "the maintenance fiber never becomes schedulable: every switch away from it happens with its state "
               "set to a non-RUNNING value first (so switch_to does not put it in to_schedule) and no schedule call "
               "receives manager->maintenance_fiber",
               "if the maintenance fiber could be queued it could be stolen, and its `manager` parameter would be stale")
    bad = None
    for fn in P.unique_functions():
        for c in fn.calls(SCHEDULE_FUNCS + (PUSH,)):
            for a in fn.args(c):
                k = fn.key(a, resolve=True)
                from core import key_mentions
                if key_mentions(k, lambda x: x[0] == "f" and x[2] == "maintenance_fiber"):
                    bad = ("`%s` schedules the maintenance fiber" % c.text, c, None)
    sws = tf.calls("fiber_manager_switch_to")
    marks = [s.node for s in tf.stores_to("fiber", "state")
             if is_field(tf.target_key(s.target)[3][1] if tf.target_key(s.target)[3][0] == "*" else ("?",), "fiber_manager", "maintenance_fiber")
             and s.value is not None and strip(s.value).cv not in (None, 1)]
    marks += tf.calls("fiber_mark_completed")
    for c in sws:
        a = tf.args(c)
        if len(a) >= 2 and is_field(tf.key(a[1], resolve=True), "fiber_manager", "maintenance_fiber"):
            w = tf.dominated_by(c, nodeset(marks))
            if w is not None:
                bad = bad or ("switch away from the maintenance fiber at %s without marking it non-RUNNING first" % c.loc, c, w)
    if bad:
        o.fail(bad[0], site=bad[1], witness=bad[2], construct="maintenance fiber may be scheduled")
    else:
        o.ok("%d switch_to sites, all after a state mark" % len(sws), sws)
    # the other place where the maintenance fiber can be switched away from: the post-switch maintenance it performs itself when it is resumed
    mt = P.fn("fiber_manager_do_maintenance")
    o = ctx.ob(rule + ".exempt.maintenance", mt,
               "nothing fiber_manager_do_maintenance can reach yields while the current fiber is the kernel thread's maintenance fiber: every call of "
               "fiber_manager_yield / fiber_yield on a call chain from do_maintenance is guarded by current_fiber != maintenance_fiber",
               "do_maintenance also runs in the maintenance (idle-loop) fiber, right after the thread switched to it because nothing else was runnable; a yield "
               "there switches away from it in state RUNNING: switch_to marks it READY and its successor queues it like an ordinary fiber -- it can then "
               "be stolen, and another kernel thread executes this thread's idle loop on this thread's run queues")
    from core import key_mentions
    cg = P.callgraph()
    ms = may_switch(P)
    YIELDS = ("fiber_manager_yield", "fiber_yield")

    def guarded_site(fn, c):
        def cp(leaf, pol):
            l = strip(leaf)
            if l is None or l.k != "BinaryOperator" or l.op not in ("==", "!="):
                return False
            ks = [fn.key(x, resolve=True) for x in l.kids[:2]]
            cur = [key_mentions(k, lambda x: x[0] == "f" and x[2] == "current_fiber") for k in ks]
            mai = [key_mentions(k, lambda x: x[0] == "f" and x[2] == "maintenance_fiber") for k in ks]
            if not ((cur[0] and mai[1]) or (cur[1] and mai[0])):
                return False
            return (l.op == "!=") == pol
        return fn.guarded(c, cp) is None
    bad = None
    seen = set()
    stack = [(mt, [mt.name])]
    nsites = 0
    while stack:
        fn, chain = stack.pop()
        if fn.name in seen:
            continue
        seen.add(fn.name)
        for c in fn.calls():
            if not c.callee:
                continue
            if c.callee in YIELDS:
                nsites += 1
                if not guarded_site(fn, c):
                    bad = bad or ("`%s` in %s is reachable from do_maintenance (%s) while the maintenance fiber is current" % (c.text[:40], fn.name, " -> ".join(chain)), c, None)
                continue
            if c.callee in ms and P.has_fn(c.callee) and c.callee in cg and not guarded_site(fn, c):
                stack.append((P.fn(c.callee), chain + [c.callee]))
    if bad:
        o.fail(bad[0], site=bad[1], witness=bad[2], construct="yield from the maintenance fiber")
    else:
        o.ok("%d yield site(s) reachable from do_maintenance, all guarded" % nsites)


def check_create_exemption(ctx, P, rule):
    o = ctx.ob(rule + ".exempt", "fiber_manager_create",
               "fiber_manager_create is called only from fiber_manager_init, with fiber_scheduler_for_thread(...) as argument",
               "called from a running fiber with the caller's own scheduler, the value could go stale across the detach")
    bad = None
    cs = P.callers_of("fiber_manager_create")
    for fn, c in cs:
        a = strip(fn.args(c)[0]) if fn.args(c) else None
        if fn.name != "fiber_manager_init" or a is None or a.k != "CallExpr" or a.callee != "fiber_scheduler_for_thread":
            bad = bad or ("`%s` in %s" % (c.text, fn.name), c)
    ctx.expect_count("callers of fiber_manager_create", len(cs), 1)
    if bad:
        o.fail("unexpected call " + bad[0], site=bad[1], construct="fiber_manager_create caller")
    else:
        o.ok("%d call sites in fiber_manager_init" % len(cs), [c for _, c in cs])


def check_stale(ctx, P, rule="stale", why=""):
    n_fn = 0
    n_vars = 0
    for fn in P.unique_functions():
        res, nv = stale_uses(P, fn)
        if nv == 0:
            continue
        n_fn += 1
        n_vars += nv
        o = ctx.ob(rule, fn,
                   "no per-thread object (manager / scheduler / hazard record) held in a local is used after a call "
                   "that may context-switch without being re-fetched",
                   why or "after a switch the fiber may run on another kernel thread; the old manager belongs to a thread "
                          "that is concurrently using it")
        if fn.name in EXEMPT:
            o.ok("exempt: " + EXEMPT[fn.name])
            continue
        if res:
            name, st, c, u, w = res[0]
            o.fail("`%s` is used at %s after `%s` (may switch) without being re-fetched%s"
                   % (name, u.loc, c.text, "" if len(res) == 1 else " (+%d more uses)" % (len(res) - 1)),
                   site=u, witness=w, construct="%s stale after %s" % (name, c.callee or "indirect call"))
        else:
            o.ok("%d thread-bound local(s), %d may-switch call(s)" % (nv, len(switch_calls(P, fn))))
    ctx.expect_count("functions holding per-thread objects across calls", n_fn, 10)
    check_exemption(ctx, P, rule)
    check_create_exemption(ctx, P, rule)
    ctx.derived["may_switch"] = sorted(may_switch(P))
