"""Helpers shared by the per-property rule tables."""
import itertools

from core import (strip, strip_parens, is_field, key_str, key_mentions, norm_cond, order_ge,
                  atomic_kind)
from facts import AnalysisBroken


# --------------------------------------------------------------------------- predicates
def nodeset(nodes):
    ids = {n.id for n in nodes}
    return lambda n: n.id in ids


def callpred(*names):
    s = set(names)
    return lambda n: n.k == "CallExpr" and n.callee in s


def any_pred(*preds):
    return lambda n: any(p(n) for p in preds)


def one(items, what, fn=None):
    items = list(items)
    if len(items) != 1:
        raise AnalysisBroken("%s: expected exactly one %s, found %d" % (fn.name if fn else "?", what, len(items)))
    return items[0]


def some(items, what, fn=None, minimum=1):
    items = list(items)
    if len(items) < minimum:
        raise AnalysisBroken("%s: expected at least %d %s, found %d" % (fn.name if fn else "?", minimum, what, len(items)))
    return items


def lines(nodes):
    return ", ".join(sorted({n.loc for n in nodes}))


# --------------------------------------------------------------------------- tiny evaluator
class Unevaluable(Exception):
    pass


TYPES = {
    "char": (8, True), "signed char": (8, True), "unsigned char": (8, False), "uint8_t": (8, False), "int8_t": (8, True),
    "short": (16, True), "unsigned short": (16, False), "uint16_t": (16, False), "int16_t": (16, True),
    "int": (32, True), "unsigned int": (32, False), "unsigned": (32, False), "uint32_t": (32, False), "int32_t": (32, True),
    "useconds_t": (32, False), "socklen_t": (32, False), "fiber_state_t": (32, True), "_Bool": (1, False),
    "long": (64, True), "unsigned long": (64, False), "long long": (64, True), "unsigned long long": (64, False),
    "uint64_t": (64, False), "int64_t": (64, True), "size_t": (64, False), "ssize_t": (64, True),
    "intptr_t": (64, True), "uintptr_t": (64, False), "rlim_t": (64, False), "time_t": (64, True),
    "__syscall_slong_t": (64, True), "__time_t": (64, True), "nfds_t": (64, False),
}


def type_info(t):
    if t is None:
        return None
    t = t.replace("const ", "").replace("volatile ", "").replace("_Atomic ", "").strip()
    if t.startswith("_Atomic(") and t.endswith(")"):
        t = t[8:-1]
    t = t.replace(" const", "").replace(" volatile", "").strip()
    if t.endswith("*"):
        return (64, False)
    return TYPES.get(t)


def pointee_size(ptr_type):
    t = ptr_type.rstrip()
    t = t[:-1].rstrip() if t.endswith("*") else t
    t = t.replace("const", "").replace("volatile", "").strip()
    if t.endswith("*"):
        return 8
    if t in ("char", "void", "unsigned char", "signed char", "uint8_t", "int8_t"):
        return 1
    ti = TYPES.get(t)
    if ti:
        return max(1, ti[0] // 8)
    return 8


def wrap(v, t):
    ti = type_info(t)
    if ti is None:
        return v
    bits, signed = ti
    if bits == 1:
        return 1 if v else 0
    v &= (1 << bits) - 1
    if signed and v >= (1 << (bits - 1)):
        v -= (1 << bits)
    return v


def ev(fn, n, atom=None, depth=0):
    """Evaluate a side-effect-free integer expression.  `atom(node)` supplies values for the
    free inputs (return None to let the evaluator descend)."""
    if depth > 60:
        raise Unevaluable("too deep")
    if n is None:
        raise Unevaluable("null")
    k = n.k
    if atom is not None:
        v = atom(n)
        if v is not None:
            # an atom supplies a bit pattern: read it through the node's integer type (signedness!)
            if n.t and not n.t.rstrip().endswith("*") and type_info(n.t) is not None:
                return wrap(v, n.t)
            return v
        # a stripped branch condition is the bare lvalue: ask about the load that wraps it
        p = n.parent
        if n.lv and p is not None and p.k == "ImplicitCastExpr" and p.ck == "LValueToRValue":
            v = atom(p)
            if v is not None:
                return v
    if n.cv is not None and k != "DeclRefExpr":
        return n.cv  # constant-folded by clang (pointers constants such as (fiber_t*)-1 keep their signed value)
    if k in ("ParenExpr",):
        return ev(fn, n.kids[0], atom, depth + 1)
    if k == "CallExpr" and n.callee == "__builtin_expect":
        return ev(fn, n.kids[1], atom, depth + 1)
    if k in ("ImplicitCastExpr", "CStyleCastExpr"):
        v = ev(fn, n.kids[0], atom, depth + 1)
        ck = n.ck
        if ck in ("IntegralCast", "IntegralToBoolean", "PointerToIntegral", "IntegralToPointer"):
            if ck == "IntegralToBoolean":
                return 1 if v else 0
            return wrap(v, n.t)
        return v
    if k == "IntegerLiteral":
        return n.v if n.cv is None else n.cv
    if k == "UnaryOperator":
        if n.op in ("++", "--", "&", "*"):
            raise Unevaluable(n.text)
        v = ev(fn, n.kids[0], atom, depth + 1)
        if n.op == "-":
            return wrap(-v, n.t)
        if n.op == "+":
            return v
        if n.op == "!":
            return 0 if v else 1
        if n.op == "~":
            return wrap(~v, n.t)
        raise Unevaluable(n.op)
    if k == "BinaryOperator":
        op = n.op
        if op in ("&&", "||"):
            # three-valued: a conjunction with one operand known to be 0 is 0 whatever the unknown operands are (and dually for ||)
            decisive = 0 if op == "&&" else 1
            unknown = None
            for kid in n.kids[:2]:
                try:
                    v = 1 if ev(fn, kid, atom, depth + 1) else 0
                except Unevaluable as e:
                    unknown = e
                    continue
                if v == decisive:
                    return decisive
            if unknown is not None:
                raise unknown
            return 1 - decisive
        if op == "=":
            # value of an assignment expression: the converted right-hand side
            return wrap(ev(fn, n.kids[1], atom, depth + 1), n.t)
        if op == ",":
            return ev(fn, n.kids[1], atom, depth + 1)
        a = ev(fn, n.kids[0], atom, depth + 1)
        b = ev(fn, n.kids[1], atom, depth + 1)
        if op in ("<", ">", "<=", ">=", "==", "!="):
            ta, tb = (n.kids[0].t or "").rstrip(), (n.kids[1].t or "").rstrip()
            if ta.endswith("*") or tb.endswith("*"):
                # pointer comparison: compare the 64-bit patterns (constants like (T*)-1 fold to -1)
                a &= (1 << 64) - 1
                b &= (1 << 64) - 1
        if op in ("+", "-"):
            ta, tb = (n.kids[0].t or "").rstrip(), (n.kids[1].t or "").rstrip()
            if ta.endswith("*") and not tb.endswith("*"):
                b *= pointee_size(ta)          # pointer arithmetic is scaled by the pointee size
            elif tb.endswith("*") and not ta.endswith("*") and op == "+":
                a *= pointee_size(tb)
            elif ta.endswith("*") and tb.endswith("*") and op == "-":
                return (a - b) // max(1, pointee_size(ta))
        if op == "+":
            return wrap(a + b, n.t)
        if op == "-":
            return wrap(a - b, n.t)
        if op == "*":
            return wrap(a * b, n.t)
        if op == "/":
            if b == 0:
                raise Unevaluable("div0")
            q = abs(a) // abs(b)
            return wrap(q if (a >= 0) == (b >= 0) else -q, n.t)
        if op == "%":
            if b == 0:
                raise Unevaluable("div0")
            q = abs(a) // abs(b)
            q = q if (a >= 0) == (b >= 0) else -q
            return wrap(a - q * b, n.t)
        if op == "&":
            return wrap(a & b, n.t)
        if op == "|":
            return wrap(a | b, n.t)
        if op == "^":
            return wrap(a ^ b, n.t)
        if op == "<<":
            return wrap(a << b, n.t)
        if op == ">>":
            return wrap(a >> b, n.t)
        if op == "<":
            return int(a < b)
        if op == ">":
            return int(a > b)
        if op == "<=":
            return int(a <= b)
        if op == ">=":
            return int(a >= b)
        if op == "==":
            return int(a == b)
        if op == "!=":
            return int(a != b)
        raise Unevaluable(op)
    if k == "ConditionalOperator":
        c = ev(fn, n.kids[0], atom, depth + 1)
        return ev(fn, n.kids[1] if c else n.kids[2], atom, depth + 1)
    if k == "DeclRefExpr" and n.dk == "local" and n.did:
        v = fn.reaching_def(n)
        if v is not None:
            return ev(fn, v, atom, depth + 1)
    if n.cv is not None:
        return n.cv
    raise Unevaluable(n.text)


def truth_table(fn, cond, pol, atoms, domains):
    """Set of input tuples for which the normalised edge condition (cond, pol) holds.
    atoms: list of predicates over nodes identifying the free inputs; domains: list of iterables."""
    out = set()
    for vals in itertools.product(*domains):
        def atom(n, vals=vals):
            for p, v in zip(atoms, vals):
                if p(n):
                    return v
            return None
        v = ev(fn, cond, atom)
        if bool(v) == pol:
            out.add(vals)
    return out


def path_condition_table(fn, node, atoms, domains):
    """For every input tuple: can control reach `node` when each branch whose condition is
    evaluable under that tuple is forced to its evaluated outcome?  Returns the set of tuples
    under which `node` is reachable.  (Conditions that are not evaluable are left free.)"""
    out = set()
    for vals in itertools.product(*domains):
        def atom(n, vals=vals):
            for p, v in zip(atoms, vals):
                if p(n):
                    return v
            return None

        def edge_ok(b, idx, atom=atom):
            ec = fn.edge_cond(b, idx)
            if ec is None:
                return True
            try:
                v = ev(fn, ec[0], atom)
            except Unevaluable:
                return True
            return bool(v) == ec[1]
        if fn.find_path("entry", lambda n: n is node, edge_ok=edge_ok) is not None:
            out.add(vals)
    return out


# --------------------------------------------------------------------------- structural helpers
def field_of(fn, n, resolve=True):
    """(rec, field) if expression n denotes a struct field (after resolving single-def locals)."""
    k = fn.key(n, resolve=resolve)
    if k[0] == "&":
        k = k[1]
    if k[0] == "f":
        return (k[1], k[2])
    return None


def arg_key(fn, call, i, resolve=True):
    a = fn.args(call)
    if i >= len(a):
        raise AnalysisBroken("%s: call %s has no argument %d" % (fn.name, call.text, i))
    return fn.key(a[i], resolve=resolve)


def base_var(key):
    """The root variable of an access path."""
    while True:
        t = key[0]
        if t in ("var", "glob"):
            return key
        if t == "f":
            key = key[3]
        elif t in ("*", "&") or t.startswith("u"):
            key = key[1]
        elif t == "[]":
            key = key[1]
        else:
            return None


def is_const_value(n, value=None, macro=None):
    n2 = strip(n)
    if n2 is None or n2.cv is None:
        # ParenExpr carrying the macro is stripped; look at n itself too
        if n is not None and n.cv is not None:
            n2 = n
        else:
            return False
    if value is not None and n2.cv != value:
        return False
    return True


def macro_of(n):
    """Macro spelling of a constant (FIBER_STATE_WAITING ...) if any."""
    m = n
    for _ in range(4):
        if m is None:
            return None
        if m.m:
            return m.m
        ks = m.kids
        m = ks[0] if ks else None
    return None


def forced_edges(fn, atom, forbid=None):
    """edge_ok predicate: every branch whose condition is evaluable under `atom` is forced to its
    evaluated outcome; edges for which forbid(leaf, polarity) holds are removed."""
    cache = {}

    def edge_ok(b, idx):
        k = (b, idx)
        if k in cache:
            return cache[k]
        ec = fn.edge_cond(b, idx)
        ok = True
        sc = fn.switch_cond(b) if ec is None else None
        if sc is not None:
            try:
                ok = fn.switch_takes(b, idx, ev(fn, sc, atom))
            except Unevaluable:
                ok = True
        if ec is not None:
            rc = fn.edge_cond_resolved(b, idx) if forbid is not None else None
            if forbid is not None and (forbid(ec[0], ec[1]) or (rc is not None and rc[0] is not ec[0] and forbid(rc[0], rc[1]))):
                ok = False
            else:
                try:
                    v = ev(fn, ec[0], atom)
                    ok = bool(v) == ec[1]
                except Unevaluable:
                    ok = True
        cache[k] = ok
        return ok
    return edge_ok


def atom_from(pairs):
    """pairs: list of (predicate, value)"""
    def atom(n):
        for p, v in pairs:
            if p(n):
                return v
        return None
    return atom


def is_load_of(fn, rec, field):
    ids = {l.node.id for l in fn.loads_of(rec, field)}
    return lambda n: n.id in ids


def is_cas_on(fn, rec, field):
    ids = {s.node.id for s in fn.stores_to(rec, field) if s.aop == "cas"}
    return lambda n: n.id in ids


FULL_FENCE_CALLS = {"store_load_barrier", "__sync_synchronize"}
COMPILER_FENCE_CALLS = {"write_barrier", "load_load_barrier", "store_load_barrier", "cpu_relax", "__sync_synchronize"}


def is_full_fence(fn):
    """Elements that order an earlier store against a later load on x86: a locked RMW with
    acq_rel/seq_cst order, a seq_cst store (xchg), store_load_barrier(), seq_cst thread fence."""
    ids = set()
    for s in fn.stores():
        if s.kind in ("atomic", "sync"):
            if s.aop == "store":
                if s.order == "seq_cst":
                    ids.add(s.node.id)
            elif s.order in ("acq_rel", "seq_cst"):
                ids.add(s.node.id)
        elif s.kind in ("assign", "compound", "incdec") and s.order == "seq_cst":
            ids.add(s.node.id)
    for c in fn.calls():
        if c.callee in FULL_FENCE_CALLS:
            ids.add(c.id)
        if c.callee in ("__c11_atomic_thread_fence", "__atomic_thread_fence", "atomic_thread_fence"):
            a = fn.args(c)
            if a and a[0].cv == 5:
                ids.add(c.id)
    return lambda n: n.id in ids


def is_compiler_fence(fn):
    ids = set()
    for c in fn.calls():
        if c.callee in COMPILER_FENCE_CALLS:
            ids.add(c.id)
    for n in fn.all(k="GCCAsmStmt"):
        if "memory" in (n.clobbers or []):
            ids.add(n.id)
    full = is_full_fence(fn)
    return lambda n: n.id in ids or full(n)


def reachable_returns(fn, atom):
    """Return statements reachable from entry when evaluable branches are forced under `atom`."""
    e = forced_edges(fn, atom)
    return [r for r in fn.returns() if fn.find_path("entry", lambda n, r=r: n is r, edge_ok=e) is not None]


def summary_value(fn, atom):
    """The unique constant a function returns under `atom` (None when not unique / not constant)."""
    vals = set()
    for r in reachable_returns(fn, atom):
        if not r.kids:
            return None
        try:
            vals.add(ev(fn, r.kids[0], atom))
        except Unevaluable:
            return None
    if len(vals) == 1:
        return vals.pop()
    return None


def is_param_load(fn, name):
    did = None
    for p in fn.params:
        if p["name"] == name:
            did = p["did"]
    if did is None:
        return lambda n: False
    return lambda n: (n.k == "ImplicitCastExpr" and n.ck == "LValueToRValue" and strip(n) is not None
                      and strip(n).k == "DeclRefExpr" and strip(n).did == did)


def is_var_load(did):
    return lambda n: (n.k == "ImplicitCastExpr" and n.ck == "LValueToRValue" and strip(n) is not None
                      and strip(n).k == "DeclRefExpr" and strip(n).did == did)


def is_global_load(name):
    return lambda n: (n.k == "ImplicitCastExpr" and n.ck == "LValueToRValue" and strip(n) is not None
                      and strip(n).k == "DeclRefExpr" and strip(n).dk == "global" and strip(n).name == name)


def is_errno(n):
    """`errno`, i.e. *__errno_location(), as an rvalue."""
    if n.k == "ImplicitCastExpr" and n.ck == "LValueToRValue":
        m = strip(n)
        if m is not None and m.k == "UnaryOperator" and m.op == "*":
            c = strip(m.kids[0])
            return c is not None and c.k == "CallExpr" and c.callee == "__errno_location"
    return False


def reach(fn, target_nodes, atom, start="entry", barrier=None, forbid=None):
    """Is any of target_nodes reachable from start when evaluable branches are forced under atom?"""
    e = forced_edges(fn, atom, forbid=forbid)
    for t in target_nodes:
        if t == "exit":
            if fn.find_path(start, "exit", barrier=barrier, edge_ok=e) is not None:
                return True
        elif fn.find_path(start, lambda n, t=t: n is t, barrier=barrier, edge_ok=e) is not None:
            return True
    return False


def atomic_ops(fn, rec, field, kinds=None):
    """Atomic RMW / store events on a field."""
    out = []
    for s in fn.stores_to(rec, field):
        if s.kind in ("atomic", "sync") and (kinds is None or s.aop in kinds):
            out.append(s)
    return out


def ret_const(fn, r):
    if not r.kids:
        return None
    v = r.kids[0]
    if v.cv is not None:
        return v.cv
    v2 = fn.resolve(v)
    return v2.cv if v2 is not None else None


def through_local(fn, leaf):
    """A branch leaf that is a local holding the result of an expression (`won = cas(...); if (won)`) stands for
    that expression: returns the defining expression (stripped), else the stripped leaf itself."""
    l = strip(leaf)
    seen = 0
    while l is not None and l.k == "DeclRefExpr" and l.dk == "local" and l.did and seen < 4:
        v = fn.reaching_def(l)
        if v is None:
            break
        l = strip(v)
        seen += 1
    return l


def check_init(ctx, P, fname, fields, calls=(), rule="init", why="a primitive that starts from a wrong word behaves as if it had phantom holders / waiters / units from the first operation on"):
    """The initialiser stores the given starting values (constant or the named parameter) on its success path and initialises
    the listed sub-objects.  fields: [(record, field, value)] with value an int or "param:<name>"."""
    f = P.fn(fname)
    o = ctx.ob(rule, f, "%s sets %s%s" % (fname, ", ".join("%s = %s" % (fl, v) for _, fl, v in fields),
                                          (" and initialises " + ", ".join(c if isinstance(c, str) else c[0] for c in calls)) if calls else ""), why)
    bad = None
    for rec, fl, want in fields:
        sts = f.stores_to(rec, fl)
        if not sts:
            zeroed = [s for s in f.stores() if s.kind == "memset" and s.value is not None and strip(s.value).cv == 0] or zeroed_alloc_calls(f)
            if want == 0 and zeroed:
                continue
            bad = bad or "`%s` is never initialised" % fl
            continue
        for s in sts:
            v = strip(s.value) if s.value is not None else None
            if isinstance(want, str) and want.startswith("param:"):
                ok = v is not None and fn_param_name(f, v) == want[6:]
                if ok and s.kind == "assign":
                    # the field must be able to hold every value of the parameter: evaluate the stored (converted) value for the largest one
                    pt = [p["t"] for p in f.params if p["name"] == want[6:]]
                    ti = type_info(pt[0]) if pt else None
                    if ti and not pt[0].rstrip().endswith("*"):
                        big = (1 << (ti[0] - (1 if ti[1] else 0))) - 1
                        try:
                            got = ev(f, s.node, atom_from([(is_param_load(f, want[6:]), big)]))
                            if got != big:
                                ok = False
                                bad = bad or "`%s` cannot hold the parameter: %s = %d is stored as %d (field type `%s`)" % (fl, want[6:], big, got, s.node.t)
                        except Unevaluable:
                            pass
            else:
                ok = v is not None and (v.cv == want or (s.value.cv == want))
                if not ok and v is not None:
                    try:
                        ok = ev(f, s.value, None) == want
                    except Unevaluable:
                        ok = False
            if not ok:
                bad = bad or "`%s` starts as `%s`, expected %s" % (fl, s.value.text if s.value is not None else "?", want)
    for c in calls:
        name = c if isinstance(c, str) else c[0]
        cs = f.calls(name) if name != "calloc" else zeroed_alloc_calls(f)     # "calloc" stands for any zero-filled allocation
        need = 1 if isinstance(c, str) else c[1]
        if len(cs) < need:
            bad = bad or "%s is called %d time(s), expected %d" % (name, len(cs), need)
    o.check(bad is None, "initial values", bad, site=f.loc, construct="initial values of " + fname)


def fn_param_name(f, v):
    v = f.resolve(v)
    if v is not None and v.k == "DeclRefExpr" and v.dk == "param":
        return v.name
    return None


def possible_values(fn, expr, depth=4):
    """All expressions a value may stem from: a multiply-assigned local yields every definition's value, a conditional
    operator both arms.  Returns a list of (stripped) expression nodes."""
    e = strip(expr)
    if e is None or depth <= 0:
        return [e]
    if e.k == "ConditionalOperator":
        return possible_values(fn, e.kids[1], depth - 1) + possible_values(fn, e.kids[2], depth - 1)
    if e.k == "DeclRefExpr" and e.dk == "local" and e.did:
        ds = [d for d in fn.defs().get(e.did, []) if d[0] in ("init", "assign") and d[2] is not None]
        if ds and not any(d[0] in ("addr", "mod") for d in fn.defs().get(e.did, [])):
            out = []
            for d in ds:
                out += possible_values(fn, d[2], depth - 1)
            return out
    return [e]


def possible_fields(fn, expr):
    """Set of (record, field) the expression may denote; None if some possibility is not a field."""
    out = set()
    for v in possible_values(fn, expr):
        k = fn.key(v, resolve=False) if v is not None else ("?",)
        if k[0] == "&":
            k = k[1]
        if k[0] != "f":
            return None
        out.add((k[1], k[2]))
    return out


def may_flow_from(fn, expr, pred, depth=6, _seen=None):
    """May the value of `expr` come from a node satisfying pred, directly or through copies between locals
    (`a = grow(..)`, `r = a`, `x = r`; also through the locals an inlined helper introduces)?"""
    if expr is None or depth < 0:
        return False
    if any(pred(m) for m in expr.walk()):
        return True
    seen = _seen if _seen is not None else set()
    for m in expr.walk():
        if m.k == "DeclRefExpr" and m.did and m.dk in ("local", "param") and m.did not in seen:
            seen.add(m.did)
            for kind, node, val in fn.defs().get(m.did, []):
                if kind in ("assign", "init") and val is not None and may_flow_from(fn, val, pred, depth - 1, seen):
                    return True
    return False


def field_load(field, rec=None):
    """predicate: an rvalue read of member `field` -- the implicit lvalue-to-rvalue conversion of `x->field` / `x.field`, or an explicit
    atomic load through `&x->field` (atomic_load / atomic_load_explicit): the two spellings are the same access"""
    from core import atomic_kind, strip_parens
    def p(n):
        if n.k == "ImplicitCastExpr" and n.ck == "LValueToRValue":
            m = strip(n)
        elif n.k == "AtomicExpr" and atomic_kind(n.aop) == "load" and n.ptr is not None:
            m = strip(n.fn.nodes[n.ptr])
            if m is None or m.k != "UnaryOperator" or m.op != "&":
                return False
            m = strip(m.kids[0])
        else:
            return False
        return m is not None and m.k == "MemberExpr" and m.field == field and (rec is None or m.rec == rec)
    return p


def returned_local(fn):
    """declaration id of the local that every value-returning `return` of fn returns (role: the result accumulator), else None"""
    dids = set()
    for r in fn.returns():
        if not r.kids or r.kids[0] is None:
            continue
        v = strip(r.kids[0])
        if v is None or v.k != "DeclRefExpr" or v.dk != "local" or not v.did:
            return None
        dids.add(v.did)
    return dids.pop() if len(dids) == 1 else None


def locals_defined_by(fn, pred):
    """declaration ids of the locals that have a definition (initialiser or assignment) whose value contains a node satisfying pred"""
    out = []
    for did, evs in fn.defs().items():
        for kind, node, val in evs:
            if kind in ("init", "assign") and val is not None and any(pred(m) for m in val.walk()):
                if did not in out:
                    out.append(did)
    return out


def locals_addressed_in(fn, call):
    """declaration ids of the locals whose address is an argument of `call` (out-parameters)"""
    out = []
    for a in fn.args(call):
        m = strip(a)
        if m is not None and m.k == "UnaryOperator" and m.op == "&":
            t = strip(m.kids[0])
            if t is not None and t.k == "DeclRefExpr" and t.dk == "local" and t.did:
                out.append(t.did)
    return out


ALLOC_SIZE_ARG = {"malloc": [0], "memalign": [1], "aligned_alloc": [1], "posix_memalign": [2], "valloc": [0], "realloc": [1]}


def check_zeroed_alloc(ctx, P, fname, rule, what, why, file=None):
    """Every variable-sized allocation in `fname` (an object with a trailing array) is zero-filled over its whole size: it comes from
    calloc, or from malloc / memalign / posix_memalign followed -- on every path to a successful return -- by memset(p, 0, n) with n equal
    to the allocated size (compared as access paths and by evaluation at two sample points)."""
    fn = P.fn(fname, file) if file else P.fn(fname)
    o = ctx.ob(rule, fn, "%s are zero-filled: the variable-sized object is allocated by calloc, or memset to 0 over the full allocated size" % what, why)
    allocs = [c for c in fn.calls() if c.callee in ALLOC_SIZE_ARG or c.callee == "calloc"]
    var = []
    for a in allocs:
        args = fn.args(a)
        if a.callee == "calloc":
            if any(x.cv is None for x in args[:2]):
                var.append(a)
            continue
        sz = args[ALLOC_SIZE_ARG[a.callee][0]] if len(args) > ALLOC_SIZE_ARG[a.callee][0] else None
        if sz is not None and sz.cv is None:
            var.append(a)
    if not var:
        raise AnalysisBroken("%s: no variable-sized allocation found" % fname)
    bad = None
    params = {p["did"]: 3 + 4 * i for i, p in enumerate(fn.params)}

    def sample(k):
        def atom(n):
            if n.k == "ImplicitCastExpr" and n.ck == "LValueToRValue":
                m = strip(n)
                if m is not None and m.k == "DeclRefExpr" and m.dk == "param" and m.did in params:
                    return params[m.did] + k
            return None
        return atom
    for a in var:
        if a.callee == "calloc":
            continue
        sz = fn.args(a)[ALLOC_SIZE_ARG[a.callee][0]]
        ok = alloc_is_zeroed(fn, a)
        if not ok:
            bad = bad or ("the object allocated by `%s` is not zero-filled over its whole size (%s) before it is returned" % (a.text[:60], sz.text[:40]), a)
    o.check(bad is None, "%d variable-sized allocation(s), all zero-filled" % len(var), bad[0] if bad else None, site=bad[1] if bad else None,
            construct="trailing array not zero-initialised")


def zeroed_alloc_calls(fn):
    """the allocation calls of fn whose block is zero-filled over its whole size: calloc, or malloc-like followed by a full-size memset"""
    return [c for c in fn.calls() if (c.callee == "calloc") or (c.callee in ALLOC_SIZE_ARG and alloc_is_zeroed(fn, c))]


def alloc_is_zeroed(fn, a):
    """is the block returned by allocation call `a` zero-filled over its whole size on every path on which the allocation succeeded and
    the function goes on to use / return the block?"""
    if a.callee == "calloc":
        return True
    if a.callee not in ALLOC_SIZE_ARG:
        return False
    params = {p["did"]: 3 + 4 * i for i, p in enumerate(fn.params)}

    def sample(k):
        def atom(n):
            if n.k == "ImplicitCastExpr" and n.ck == "LValueToRValue":
                m = strip(n)
                if m is not None and m.k == "DeclRefExpr" and m.dk == "param" and m.did in params:
                    return params[m.did] + k
            return None
        return atom
    if True:
        rets = [r for r in fn.returns() if not r.kids or strip(r.kids[0]) is None or strip(r.kids[0]).cv != 0]
        sz = fn.args(a)[ALLOC_SIZE_ARG[a.callee][0]]
        ok = False
        for m in fn.calls(("memset", "__builtin_memset", "__builtin___memset_chk", "bzero")):
            margs = fn.args(m)
            if m.callee == "bzero":
                n2 = margs[1] if len(margs) > 1 else None
            else:
                if len(margs) < 3 or margs[1].cv != 0:
                    continue
                n2 = margs[2]
            if n2 is None:
                continue
            same = fn.key(sz, True) == fn.key(n2, True)
            if not same:
                try:
                    same = all(ev(fn, sz, sample(k)) == ev(fn, n2, sample(k)) for k in (0, 5))
                except Unevaluable:
                    same = False
            if not same:
                continue
            e_ok = forced_edges(fn, atom_from([(lambda x, a=a: x is a, 0 if a.callee == "posix_memalign" else 4096)]))     # the allocation succeeded
            if all(fn.find_path(a, lambda x, r=r: x is r, barrier=lambda x, m=m: x is m, edge_ok=e_ok) is None for r in rets):
                ok = True
        return ok


def check_alloc_size(ctx, P, fname, rec, rule, why, kparam=0, ks=(1, 2, 10, 16, 28, 29, 30, 31), slot_bytes=8):
    """`fname(k, ..)` creates an object of record `rec` followed by 2^k slots: for every k the API admits, the number of bytes it asks the
    allocator for is at least sizeof(rec) + 2^k * slot_bytes (computed as the code computes it, with its types -- a 32-bit intermediate wraps)."""
    fn = P.fn(fname)
    o = ctx.ob(rule, fn, "for every capacity 2^k (k = %s) the allocation is at least sizeof(%s) + 2^k * %d bytes" % (", ".join(map(str, ks)), rec, slot_bytes), why)
    allocs = [c for c in fn.calls() if c.callee in ALLOC_SIZE_ARG or c.callee == "calloc"]
    var = []
    for a in allocs:
        args = fn.args(a)
        idx = [0, 1] if a.callee == "calloc" else ALLOC_SIZE_ARG[a.callee]
        if any(args[i].cv is None for i in idx if i < len(args)):
            var.append((a, idx))
    if len(var) != 1:
        raise AnalysisBroken("%s: expected one variable-sized allocation, found %d" % (fname, len(var)))
    a, idx = var[0]
    hdr = P.record(rec)["size"]
    pname = fn.params[kparam]["name"]
    bad = None
    for k in ks:
        at = atom_from([(is_param_load(fn, pname), k)])
        try:
            total = 1
            for i in idx:
                total *= ev(fn, fn.args(a)[i], at) & ((1 << 64) - 1)
        except Unevaluable as e:
            raise AnalysisBroken("%s: cannot evaluate the allocation size (%s)" % (fname, e))
        need = hdr + (1 << k) * slot_bytes
        if total < need:
            bad = bad or ("k=%d: %s asks for %d bytes, %d slots need %d (the size is computed in `%s`)" % (k, a.callee, total, 1 << k, need, fn.args(a)[idx[-1]].t), a)
    o.check(bad is None, "%d capacities" % len(ks), bad[0] if bad else None, site=bad[1] if bad else None, construct="allocation smaller than the advertised capacity")


def macro_constant(P, name, required=True):
    """the value every expansion of the named constant has, provided it is the same compile-time integer constant everywhere;
    returns (value, problem, site): problem is a message when some expansion is not a constant (e.g. the address of an object) or the values differ"""
    vals, bad, site, n_exp = set(), None, None, 0
    for fn in P.unique_functions():
        for n in fn.nodes:
            if n.m != name or n.k == "ImplicitCastExpr":
                continue
            p = n.parent
            while p is not None and p.k == "ImplicitCastExpr":
                p = p.parent
            if p is not None and p.m == name:
                continue                      # not the outermost node of this expansion
            n_exp += 1
            if n.cv is None:
                refs = [m for m in n.walk() if m.k == "DeclRefExpr" and m.dk == "global"]
                if refs and refs[0].gstatic:
                    bad = bad or "%s expands to `%s`, the address of the `static` object `%s` (defined in %s): every translation unit gets its own copy, so the value differs between translation units" % (
                        name, n.text[:60], refs[0].name, P.rel(refs[0].gfile or "?"))
                else:
                    bad = bad or "%s expands to `%s`, which is not a compile-time constant" % (name, n.text[:60])
                site = site or n
            else:
                vals.add(n.cv)
    if n_exp == 0:
        if required:
            raise AnalysisBroken("constant %s is not used anywhere in the analysed units" % name)
        return None, None, None
    if bad is None and len(vals) != 1:
        bad = "%s has different values in different places: %s" % (name, sorted(vals))
    return (vals.pop() if len(vals) == 1 else None), bad, site


def writer_kind(s):
    """kind of a write for the writers tables: a plain assignment and an atomic store (of any order) are both "assign" -- what the tables
    separate is stores from read-modify-writes; orders are checked by the rules that need them"""
    if s.kind in ("atomic", "sync") and s.aop != "store":
        return s.aop
    return "assign"
