"""Check driver: obligations, known findings, evidence, replay files, exit-code contract.

exit 0  every obligation discharged (known findings are printed, not failed)
exit 1  + "VIOLATION property=<id> replay=<path>" for every failed obligation not in known_findings.json
exit 2  analysis broken (anchor vanished, unit does not parse, instance count below the frozen one)
"""
import importlib
import json
import os
import sys
import time
import traceback

sys.path.insert(0, os.path.dirname(os.path.abspath(__file__)))
import facts  # noqa: E402
import core  # noqa: E402
from facts import AnalysisBroken, VERIF, REPO  # noqa: E402


class Ob:
    def __init__(self, ctx, rule, fn, req, why, config):
        self.ctx = ctx
        self.rule = rule          # e.g. "pop.fence"
        self.fn = fn              # function name or "" for whole-program rules
        self.req = req            # what is required, in words
        self.why = why            # failure scenario: why this is a necessary condition
        self.config = config
        self.status = None        # ok | fail
        self.found = None
        self.sites = []
        self.witness = None
        self.construct = None

    def ok(self, found=None, sites=None):
        if self.status == "fail":
            return self
        self.status = "ok"
        if found is not None:
            self.found = found
        if sites:
            self.sites += [s if isinstance(s, str) else s.loc for s in sites]
        return self

    def fail(self, found, site=None, witness=None, construct=None):
        self.status = "fail"
        self.found = found
        if site is not None:
            self.sites = [site if isinstance(site, str) else site.loc]
        self.witness = witness
        # construct: stable, line-free identification of the offending construct
        self.construct = construct or found
        return self

    def check(self, cond, found_ok=None, found_fail=None, site=None, witness=None, construct=None):
        if cond:
            return self.ok(found_ok, [site] if site is not None else None)
        return self.fail(found_fail or ("not satisfied: " + self.req), site, witness, construct)

    @property
    def key(self):
        return "%s|%s|%s" % (self.rule, self.fn, self.construct or "")

    def as_dict(self):
        d = {"rule": self.rule, "function": self.fn, "requires": self.req, "why": self.why,
             "status": self.status, "config": self.config}
        if self.found is not None:
            d["found"] = self.found
        if self.sites:
            d["sites"] = self.sites
        if self.witness:
            d["witness_lines"] = self.witness
        if self.construct and self.status == "fail":
            d["construct"] = self.construct
        return d


class Ctx:
    def __init__(self, pid, tier, seed):
        self.pid = pid
        self.tier = tier
        self.seed = seed
        self.obs = []
        self.notes = []
        self.not_decided = []
        self.assumptions = []
        self.derived = {}
        self._progs = {}
        self.config = "pinned"
        self.selftest = []

    def prog(self, config=None, siblings=False, extra_units=()):
        config = config or (self.config if self.config in facts.CONFIGS else "pinned")
        k = (config, siblings, tuple(extra_units))
        if k not in self._progs:
            d, m = facts.generate(config, siblings=siblings, extra_units=extra_units)
            self._progs[k] = core.Program(d, m, REPO)
        return self._progs[k]

    def ob(self, rule, fn, req, why=""):
        name = fn if isinstance(fn, str) else fn.name
        o = Ob(self, rule, name, req, why, self.config)
        self.obs.append(o)
        return o

    def expect_count(self, what, found, minimum):
        """A rule that matches fewer sites than were confirmed by hand passes vacuously: exit 2."""
        if found < minimum:
            raise AnalysisBroken("%s: matched %d site(s), frozen minimum is %d — anchors moved; "
                                 "re-confirm the rule instances" % (what, found, minimum))


def load_known():
    p = os.path.join(VERIF, "known_findings.json")
    if not os.path.exists(p):
        return []
    return json.load(open(p))


def run_property(pid, tier, seed, progs=None):
    ctx = Ctx(pid, tier, seed)
    if progs:
        ctx._progs = progs
    mod = importlib.import_module("props." + pid.lower())
    try:
        mod.run(ctx)
    except AnalysisBroken as e:
        # a later rule could not be evaluated on this tree.  Obligations that were already decided as violated stand on their own:
        # they are reported (exit 1) together with the note; without any, the run is analysis-broken (exit 2)
        if not any(o.status == "fail" for o in ctx.obs):
            raise
        ctx.obs = [o for o in ctx.obs if o.status is not None]
        ctx.broken_note = str(e)
        print("NOTE property=%s analysis incomplete after the violations below: %s" % (pid, e))
        return ctx, mod
    for o in ctx.obs:
        if o.status is None:
            raise AnalysisBroken("obligation %s/%s left undecided" % (o.rule, o.fn))
    # a dependency (the obligations of another property evaluated here) that could not be analysed: the property's own rules have been
    # evaluated first; if they found nothing the run is still incomplete -> analysis broken
    if getattr(ctx, "deferred_broken", None) and not any(o.status == "fail" for o in ctx.obs):
        raise AnalysisBroken(ctx.deferred_broken)
    return ctx, mod


def selftest(pid, ctx):
    """Thorough tier: the checker tested both ways on scratch copies of the *current* tree: the property's mutant corpus
    (every mutant must be reported by an expected rule; equivalent mutants must stay silent) and the seeded changes of
    independent sub-agents.  Survivors are printed as SELFTEST-SURVIVOR lines; they are bugs of the checker and never
    change the verdict about /repo."""
    sys.path.insert(0, os.path.join(VERIF, "tools"))
    import mutants as mut
    out = {}
    res = mut.run(pid, jobs=12)
    if res:
        out["mutants"] = {"total": len(res), "killed_as_expected": sum(1 for r in res if r["result"] == "killed"),
                          "matrix": [{"id": r["id"], "result": r["result"], "fired": r.get("fired")} for r in res]}
        for r in res:
            if r["result"] != "killed":
                ctx.selftest.append("SELFTEST-SURVIVOR property=%s mutant=%s result=%s fired=%s" % (pid, r["id"], r["result"], r.get("fired")))
    sd = os.path.join(VERIF, "seeded")
    seeds = []
    if os.path.isdir(sd):
        for name in sorted(os.listdir(sd)):
            mp = os.path.join(sd, name, "meta.json")
            pp = os.path.join(sd, name, "patch.diff")
            if not (os.path.exists(mp) and os.path.exists(pp)):
                continue
            meta = json.load(open(mp))
            if meta.get("property") != pid or meta.get("rejected"):
                continue
            r = mut.run_patch(pid, pp)
            seeds.append({"seed": name, "result": r["result"], "fired": r.get("fired")})
            if r["result"] != "killed":
                ctx.selftest.append("SELFTEST-SURVIVOR property=%s seeded=%s result=%s" % (pid, name, r["result"]))
    if seeds:
        out["seeded_changes"] = seeds
    # behaviour-preserving refactorings written by independent sub-agents: every property's rules must stay silent on each
    rd = os.path.join(VERIF, "refactors")
    if os.path.isdir(rd):
        from concurrent.futures import ThreadPoolExecutor
        names = [n for n in sorted(os.listdir(rd)) if os.path.exists(os.path.join(rd, n, "patch.diff"))]
        with ThreadPoolExecutor(max_workers=10) as ex:
            futs = [ex.submit(mut.run_one, pid, {"id": n, "patch": os.path.join(rd, n, "patch.diff"), "equivalent": True, "expect": []}, 700 + i)
                    for i, n in enumerate(names)]
            rs = [f.result() for f in futs]
        out["refactorings"] = [{"refactoring": r["id"], "result": "silent" if r["result"] == "killed" else r["result"], "fired": r.get("fired")} for r in rs]
        for r in rs:
            if r["result"] != "killed":
                ctx.selftest.append("SELFTEST-FALSE-ALARM property=%s refactoring=%s result=%s fired=%s" % (pid, r["id"], r["result"], r.get("fired")))
    return out


def main(argv=None):
    argv = list(sys.argv[1:] if argv is None else argv)
    if not argv:
        print("usage: check.py <property id> [--tier quick|thorough] [--replay <file>]")
        return 2
    pid = argv[0].upper()
    tier = os.environ.get("VERIF_TIER", "quick")
    replay = None
    i = 1
    while i < len(argv):
        if argv[i] == "--tier":
            tier = argv[i + 1]
            i += 2
        elif argv[i] == "--replay":
            replay = argv[i + 1]
            i += 2
        else:
            i += 1
    if tier not in ("quick", "thorough"):
        tier = "quick"
    try:
        seed = int(os.environ.get("VERIF_SEED", "0"))
    except ValueError:
        seed = 0
    sys.path.insert(0, VERIF)
    t0 = time.time()
    OUT = os.environ.get("VERIF_OUT", VERIF)  # mutant self-tests redirect evidence / replays to a scratch dir
    ev_path = os.path.join(OUT, "evidence", pid + ".json")
    try:
        ctx, mod = run_property(pid, tier, seed)
        extra = {}
        if tier == "thorough":
            # the same rules on the other build configurations
            for cfg in getattr(mod, "THOROUGH_CONFIGS", ("debug", "malloc", "mmap", "ucontext")):
                ctx.config = cfg
                mod.run(ctx)
            ctx.config = "pinned"
            if hasattr(mod, "thorough"):
                extra = mod.thorough(ctx) or {}
            ctx.config = "pinned"
            for o in ctx.obs:
                if o.status is None:
                    raise AnalysisBroken("obligation %s/%s left undecided" % (o.rule, o.fn))
            if not os.environ.get("VERIF_NO_SELFTEST"):
                extra.update(selftest(pid, ctx))
    except AnalysisBroken as e:
        print("ANALYSIS-BROKEN property=%s %s" % (pid, e))
        return 2
    except Exception:
        traceback.print_exc()
        print("ANALYSIS-BROKEN property=%s internal error in the checker" % pid)
        return 2

    known = [k for k in load_known() if k.get("property") == pid]
    findings = {k["key"]: k for k in known if k.get("status") == "finding"}
    fails = [o for o in ctx.obs if o.status == "fail"]
    oks = [o for o in ctx.obs if o.status == "ok"]
    viol = []
    hit_known = []
    for o in fails:
        if o.key in findings:
            hit_known.append(o)
        else:
            viol.append(o)
    os.makedirs(os.path.join(OUT, "replays"), exist_ok=True)
    os.makedirs(os.path.join(OUT, "evidence"), exist_ok=True)

    if replay:
        want = json.load(open(replay))
        still = [o for o in fails if o.key == want.get("key")]
        if still:
            o = still[0]
            print("REPLAY property=%s rule=%s function=%s still fails: %s" % (pid, o.rule, o.fn, o.found))
            print("VIOLATION property=%s replay=%s" % (pid, replay))
            return 1
        print("REPLAY property=%s key=%s no longer fails on the current tree" % (pid, want.get("key")))
        return 0

    printed = set()
    for o in hit_known:
        k = findings[o.key]
        if o.key in printed:      # the same construct seen again in another build configuration (thorough tier)
            continue
        printed.add(o.key)
        print("KNOWN-FINDING: property=%s %s [%s in %s] %s" % (pid, k.get("id", ""), o.rule, o.fn, k.get("what", o.found)))
    n = 0
    for o in viol:
        n += 1
        rp = os.path.join(OUT, "replays", "%s-%d.json" % (pid, n))
        d = o.as_dict()
        d["property"] = pid
        d["key"] = o.key
        d["replay_cmd"] = "python3 bin/check.py %s --replay %s" % (pid, rp)
        json.dump(d, open(rp, "w"), indent=1)
        where = (o.sites[0] if o.sites else o.fn)
        print("FAIL %s.%s in %s at %s: %s" % (pid, o.rule, o.fn or "<program>", where, o.found))
        if o.witness:
            print("     path (source lines): %s" % " -> ".join(str(x) for x in o.witness))
        print("     required: %s" % o.req)
        if o.why:
            print("     because: %s" % o.why)
        print("VIOLATION property=%s replay=%s" % (pid, rp))
    for s in ctx.selftest:
        print(s)

    wall = time.time() - t0
    prog = ctx._progs.get(("pinned", False, ()))
    fnset = sorted({o.fn for o in ctx.obs if o.fn})
    samples = [o.as_dict() for o in (fails[:3] + oks[:6])]
    cov = {
        "obligations": len(ctx.obs),
        "discharged": len(oks),
        "evaluations": len(ctx.obs),
        "distinct_nontrivial": len({(o.rule, o.fn, o.config) for o in ctx.obs}),
        "rule": "one obligation = one rule instance (rule id, function, configuration) evaluated on the CFG/AST "
                "facts of /repo's current working tree; all are non-trivial (each names a construct that must "
                "exist, else exit 2); distinct = distinct (rule, function, configuration) triples",
        "samples": samples,
        "explanation": getattr(mod, "EXPLANATION", ""),
        "functions_analysed": fnset,
        "units_analysed": prog.units if prog else [],
        "configurations": sorted({o.config for o in ctx.obs}),
        "rules": sorted({o.rule for o in ctx.obs}),
        "not_decided": getattr(mod, "NOT_DECIDED", []) + ctx.not_decided,
        "known_findings_hit": [o.key for o in hit_known],
        "derived_sets": ctx.derived,
        "checker_cmd": "python3 bin/check.py %s --tier %s" % (pid, tier),
        "trusted_base": ["clang 14 parser / CFG builder / constant folder", "x86-TSO reading of DESIGN.md §3",
                         "rule tables in props/%s.py (each instance carries its reason)" % pid.lower()],
        "exhaustive": False,
    }
    cov.update(extra)
    ev = {
        "property_id": pid,
        "tier": tier,
        "seed": seed,
        "level": "other",
        "coverage": cov,
        "assumptions": getattr(mod, "ASSUMPTIONS", []) + ctx.assumptions,
        "wall_s": round(wall, 3),
        "violations": len(viol),
    }
    tmp = ev_path + ".tmp%d" % os.getpid()
    json.dump(ev, open(tmp, "w"), indent=1)
    os.replace(tmp, ev_path)
    print("%s %s: %d obligations, %d discharged, %d known finding(s), %d violation(s), %.2fs"
          % (pid, tier, len(ctx.obs), len(oks), len(hit_known), len(viol), wall))
    return 1 if viol else 0


if __name__ == "__main__":
    sys.exit(main())
