"""Hazard-pointer typestate shared by C13 and C14: loaded -> published(slot) -> validated -> dereferenced."""
from core import is_atomic_load, strip_to_load, atomic_load_order, strip, is_field, order_ge, key_str, key_mentions
from facts import AnalysisBroken
from rules import nodeset

USING = "hazard_pointer_using"


def protected_var(fn, call):
    a = strip(fn.args(call)[1])
    if a.k == "UnaryOperator" and a.op == "&":
        m = strip(a.kids[0])
        if m.k == "MemberExpr" and m.arrow:
            v = strip(m.kids[0])
            if v.k == "DeclRefExpr" and v.did:
                return v
    return None


def validation_edges(fn):
    """(block, succ index) pairs on which `local == atomic_load(shared field)` is known to hold."""
    out = []
    for b in fn.blocks:
        for idx, _ in fn.succ[b]:
            ec = fn.edge_cond(b, idx)
            if ec is None:
                continue
            leaf, pol = ec
            l = strip(leaf)
            if l.k == "BinaryOperator" and l.op in ("!=", "=="):
                a, c = strip(l.kids[0]), strip(l.kids[1])
                la, lc = strip_to_load(l.kids[0]), strip_to_load(l.kids[1])
                for x, y in ((a, lc), (c, la)):
                    if x.k == "DeclRefExpr" and x.did and is_atomic_load(y):
                        equal = (l.op == "==") == pol
                        if equal:
                            out.append((b, idx, x, y))
    return out


def derefs(fn, did):
    """Nodes that read or write memory through local `did` (x->f as a value / store target), not mere address computations."""
    out = []
    for n in fn.nodes:
        if n.k == "MemberExpr" and n.arrow:
            b = strip(n.kids[0])
            if b is not None and b.k == "DeclRefExpr" and b.did == did:
                p = n.parent
                while p is not None and p.k == "ParenExpr":
                    p = p.parent
                if p is not None and p.k == "UnaryOperator" and p.op == "&":
                    continue  # &x->hazard : address only
                out.append(n)
    return out


def check_site(ctx, P, fn, call, rule):
    v = protected_var(fn, call)
    o = ctx.ob(rule, fn, "at `%s`: the pointer is published in the hazard slot and then re-validated against a fresh (acquire) load of the shared "
               "location before its first dereference, on every path; a failed validation restarts from a fresh load" % call.text,
               "between loading the pointer and publishing it the node may have been retired and reclaimed; only a re-read that still returns "
               "the same pointer proves the publication was in time — dereferencing without it is a use-after-free")
    if v is None:
        o.fail("cannot identify the protected pointer in `%s`" % call.text, site=call, construct="hazard site shape")
        return
    ves = validation_edges(fn)
    bad = None
    # which validations count: a comparison of the variable the protected pointer was derived from
    src = fn.resolve(v) if False else None
    defs = [e for e in fn.defs().get(v.did, []) if e[0] in ("init", "assign")]
    roots = {v.did}
    for e in defs:
        val = strip(e[2])
        # prev = head->prev : validity of prev is tied to head still being the head
        if val.k == "MemberExpr" and val.arrow:
            b = strip(val.kids[0])
            if b.k == "DeclRefExpr" and b.did:
                roots.add(b.did)
                roots.discard(v.did)
    good = [(b, i) for (b, i, x, y) in ves if x.did in roots and order_ge(atomic_load_order(y), "acquire")]
    if not good:
        bad = ("no re-validation of `%s` against a fresh acquire load exists" % v.name, call, None)
    else:
        gs = set(good)
        edge_ok = lambda b, i: (b, i) not in gs
        for d in derefs(fn, v.did):
            w = fn.find_path("entry", lambda n: n is d, barrier=lambda n: n is call)
            w2 = None
            if w is None:
                w2 = fn.find_path(call, lambda n: n is d, edge_ok=edge_ok)
            # a deref that can only happen before the publication in program order is judged by the entry path
            if w is not None and fn.find_path(call, lambda n: n is d) is None and len(fn.calls(USING)) > 1:
                # protected by another publication site of the same variable? handled by that site
                continue
            if w is not None:
                bad = bad or ("`%s` is dereferenced (`%s`) without having been published in a hazard slot" % (v.name, d.text), d, w)
            elif w2 is not None:
                bad = bad or ("`%s` is dereferenced (`%s`) after publication but without re-validation" % (v.name, d.text), d, w2)
    if bad:
        o.fail(bad[0], site=bad[1], witness=bad[2], construct="hazard typestate of %s in %s" % (v.name, fn.name))
    else:
        o.ok("%d dereference(s) of `%s` all behind publish+validate" % (len(derefs(fn, v.did)), v.name), [call])


def check_all_sites(ctx, P, rule="hazard"):
    n = 0
    for fn in P.unique_functions():
        if fn.name == USING:
            continue
        for c in fn.calls(USING):
            n += 1
            check_site(ctx, P, fn, c, rule)
    ctx.expect_count("hazard_pointer_using call sites", n, 3)
    return n
