"""Program model over factgen's JSON: nodes, CFG queries, access paths, events, call graph."""
import json
import os
from collections import deque

from facts import AnalysisBroken

ORDER_RANK = {"relaxed": 0, "consume": 1, "acquire": 2, "release": 2, "acq_rel": 3, "seq_cst": 4}
ACQ = {"consume", "acquire", "acq_rel", "seq_cst"}
REL = {"release", "acq_rel", "seq_cst"}


def order_ge(order, minimum):
    """Is `order` at least `minimum` in relaxed < {acquire, release} < acq_rel < seq_cst ?"""
    if minimum == "relaxed":
        return order in ORDER_RANK
    if minimum == "acquire":
        return order in ACQ
    if minimum == "release":
        return order in REL
    if minimum == "acq_rel":
        return order in ("acq_rel", "seq_cst")
    if minimum == "seq_cst":
        return order == "seq_cst"
    raise ValueError(minimum)


class Node:
    __slots__ = ("fn", "id", "d", "parent")

    def __init__(self, fn, nid, d):
        self.fn = fn
        self.id = nid
        self.d = d
        self.parent = None

    def __getattr__(self, name):  # attribute access into the fact dict
        try:
            return object.__getattribute__(self, "d").get(name)
        except AttributeError:
            raise AttributeError(name)

    @property
    def kids(self):
        return [self.fn.nodes[c] if c >= 0 else None for c in self.d["c"]]

    @property
    def line(self):
        return self.d.get("l")

    @property
    def loc(self):
        f = self.d.get("ifile")
        return "%s:%s" % (self.fn.prog.rel(f) if f else self.fn.relfile, self.d.get("l"))

    @property
    def text(self):
        return self.d.get("src") or self.d.get("k")

    def walk(self):
        st = [self]
        while st:
            n = st.pop()
            yield n
            ib = n.d.get("ibody")
            if ib is not None:
                st.append(self.fn.nodes[ib])   # the body of the inlined helper this call stands for
            for c in reversed(n.kids):
                if c is not None:
                    st.append(c)

    def ancestors(self):
        p = self.parent
        while p is not None:
            yield p
            p = p.parent

    def contains(self, other):
        n = other
        while n is not None:
            if n is self:
                return True
            n = n.parent
        return False

    def __repr__(self):
        return "<%s#%d %s @%s>" % (self.d["k"], self.id, (self.text or "")[:50], self.d.get("l"))


def strip(n, casts=True):
    """Skip parentheses, implicit casts, C-style casts and __builtin_expect."""
    while n is not None:
        k = n.k
        if k == "ParenExpr":
            n = n.kids[0]
        elif k == "ImplicitCastExpr":
            n = n.kids[0]
        elif k == "CStyleCastExpr" and casts:
            n = n.kids[0]
        elif k == "CallExpr" and n.callee == "__builtin_expect":
            n = n.kids[1]
        else:
            return n
    return n


def strip_parens(n):
    while n is not None and n.k == "ParenExpr":
        n = n.kids[0]
    return n


class Store:
    __slots__ = ("node", "target", "value", "kind", "aop", "order", "order_fail", "expected")

    def __init__(self, node, target, value, kind, aop=None, order=None, order_fail=None, expected=None):
        self.node = node
        self.target = target
        self.value = value
        self.kind = kind      # assign | compound | incdec | atomic | sync | memset
        self.aop = aop
        self.order = order
        self.order_fail = order_fail
        self.expected = expected

    @property
    def is_rmw(self):
        return self.kind in ("atomic", "sync") and self.aop not in ("store",)

    def __repr__(self):
        return "<Store %s %s @%s>" % (self.kind, self.node.text, self.node.line)


class Load:
    __slots__ = ("node", "target", "order", "kind")

    def __init__(self, node, target, order, kind):
        self.node = node
        self.target = target
        self.order = order  # None for plain, "seq_cst" for implicit atomic, explicit otherwise
        self.kind = kind    # plain | atomic

    def __repr__(self):
        return "<Load %s @%s>" % (self.node.text, self.node.line)


def atomic_kind(aop):
    """Normalise clang's builtin name to load/store/exchange/cas/fetch_add/..."""
    a = aop
    for pre in ("__c11_atomic_", "__atomic_", "__opencl_atomic_"):
        if a.startswith(pre):
            a = a[len(pre):]
    if a.startswith("compare_exchange"):
        return "cas"
    if a in ("load", "load_n"):
        return "load"
    if a in ("store", "store_n"):
        return "store"
    if a in ("exchange", "exchange_n"):
        return "exchange"
    return a  # fetch_add, fetch_sub, fetch_or, fetch_and, add_fetch ...


def is_atomic_load(n):
    """an atomic load in either spelling: atomic_load*(p) with any order, or the plain read of an _Atomic object (sequentially consistent)"""
    if n is None:
        return False
    if n.k == "AtomicExpr":
        return atomic_kind(n.aop or "") == "load"
    if n.k == "ImplicitCastExpr" and n.ck == "LValueToRValue" and n.kids:
        t = strip_parens(n.kids[0])
        return bool(t is not None and t.tatomic)
    return False


def strip_to_load(n):
    """like strip(), but an atomic load (in either spelling) is kept: the node that *is* the load is returned"""
    while n is not None:
        if is_atomic_load(n):
            return n
        if n.k in ("ParenExpr", "ImplicitCastExpr", "CStyleCastExpr"):
            n = n.kids[0]
        elif n.k == "CallExpr" and n.callee == "__builtin_expect":
            n = n.kids[1]
        else:
            return n
    return n


def atomic_load_order(n):
    if n.k == "AtomicExpr":
        return n.order or "relaxed"
    return "seq_cst"


class Function:
    def __init__(self, prog, d, unit):
        self.prog = prog
        self.d = d
        self.unit = unit
        self.name = d["name"]
        self.file = d["file"]
        self.relfile = prog.rel(d["file"])
        self.line = d["line"]
        self.params = d["params"]
        self.nodes = [Node(self, i, nd) for i, nd in enumerate(d["nodes"])]
        for n in self.nodes:
            for c in n.d["c"]:
                if c >= 0:
                    self.nodes[c].parent = n
        for n in self.nodes:
            ip = n.d.get("iparent")
            if ip is not None:
                n.parent = self.nodes[ip]      # body of an inlined helper hangs below the call it replaces
        self.body = self.nodes[d["body"]]
        cfg = d["cfg"]
        self.entry = cfg["entry"]
        self.exit = cfg["exit"]
        self.blocks = {b["id"]: b for b in cfg["blocks"]}
        self.pos = {}
        for b in cfg["blocks"]:
            for i, e in enumerate(b["elems"]):
                # an element may in rare cases be listed twice; keep the first
                self.pos.setdefault(e, (b["id"], i))
        self.succ = {}
        self.pred = {b: [] for b in self.blocks}
        for bid, b in self.blocks.items():
            ss = []
            for i, s in enumerate(b["succs"]):
                if s is None or not s.get("r", True):
                    continue
                if b.get("noreturn"):
                    continue
                ss.append((i, s["b"]))
            self.succ[bid] = ss
            for i, t in ss:
                self.pred[t].append(bid)
        self._dom = None
        self._stores = None
        self._loads = None
        self._defs = None
        self._cache = {}
        self.local_by_did = {l["did"]: l for l in d.get("locals", [])}
        for p in self.params:
            self.local_by_did.setdefault(p["did"], {"name": p["name"], "did": p["did"], "t": p["t"], "param": True})
        # copies of a single-exit `return result;` (inline.split_returns): where the one definition that reaches a copy is a constant,
        # the copy returns that constant
        for n in self.nodes:
            if n.d["k"] == "ReturnStmt" and (n.d.get("split_of") is not None or n.d.get("split_root")) and n.kids and n.kids[0] is not None:
                v = strip(n.kids[0])
                if v is not None and v.k == "DeclRefExpr" and v.dk == "local" and v.did and v.d.get("cv") is None:
                    rd = self.reaching_def(v)
                    c = strip(rd).cv if rd is not None and strip(rd) is not None else None
                    if c is None and rd is not None:
                        c = rd.cv
                    if c is not None:
                        m = n.kids[0]
                        while m is not None:
                            m.d["cv"] = c
                            if m is v:
                                break
                            m = m.kids[0] if m.kids else None

    # ------------------------------------------------------------------ basics
    def __repr__(self):
        return "<fn %s %s:%s>" % (self.name, self.relfile, self.line)

    @property
    def loc(self):
        return "%s:%s" % (self.relfile, self.line)

    def all(self, pred=None, k=None):
        out = []
        for n in self.nodes:
            if k is not None and n.d["k"] != k:
                continue
            if pred is not None and not pred(n):
                continue
            out.append(n)
        return out

    def cfgpos(self, n):
        """Position (block, index) at which `n` is evaluated; for nodes the CFG does not list
        (parentheses, statements) the position of the last listed descendant."""
        p = self.pos.get(n.id)
        if p is not None:
            return p
        best = None
        for m in n.walk():
            q = self.pos.get(m.id)
            if q is not None:
                # the last evaluated descendant: prefer the shallowest (parents come after kids)
                if best is None:
                    best = q
                else:
                    # cannot order across blocks cheaply; keep the one that is an ancestor-most
                    pass
        # better: breadth-first: the first listed node found closest to n
        dq = deque([n])
        while dq:
            m = dq.popleft()
            q = self.pos.get(m.id)
            if q is not None:
                return q
            for c in m.kids:
                if c is not None:
                    dq.append(c)
        return best

    def in_cfg(self, n):
        return n.id in self.pos

    def reachable_blocks(self):
        seen = {self.entry}
        dq = deque([self.entry])
        while dq:
            b = dq.popleft()
            for _, t in self.succ[b]:
                if t not in seen:
                    seen.add(t)
                    dq.append(t)
        return seen

    def is_live(self, n):
        p = self.cfgpos(n)
        return p is not None and p[0] in self.reachable_blocks()

    # ------------------------------------------------------------------ conditions
    def block_cond(self, bid):
        """The leaf condition expression evaluated last in block `bid` (or None)."""
        b = self.blocks[bid]
        c = b.get("cond")
        if c is None or c < 0:
            return None
        n = self.nodes[c]
        n = strip_parens(n)
        # the value of `a && b` at the point the if-terminator is reached equals b -- unless the block
        # is the join of the short-circuit edges (loops: the && node itself is an element of the
        # block and its value, not the last operand's, is what the terminator tests)
        while n.k == "BinaryOperator" and n.op in ("&&", "||"):
            if n.id in b["elems"] and not (b.get("termk") == "BinaryOperator" and self.nodes[b["term"]] is n):
                return n
            if b.get("termk") == "BinaryOperator" and self.nodes[b["term"]] is n:
                n = strip_parens(n.kids[0])
            else:
                n = strip_parens(n.kids[1])
        return n

    def edge_cond(self, bid, succ_index):
        """(leaf node, polarity) that holds when control takes successor `succ_index` of `bid`."""
        b = self.blocks[bid]
        if len(b["succs"]) != 2 or b.get("termk") == "SwitchStmt":
            return None
        c = self.block_cond(bid)
        if c is None:
            return None
        return norm_cond(c, succ_index == 0)

    def switch_cond(self, bid):
        """the controlling expression of a switch that ends block `bid`, else None"""
        b = self.blocks[bid]
        if b.get("termk") != "SwitchStmt":
            return None
        c = b.get("cond")
        return self.nodes[c] if isinstance(c, int) and c >= 0 else None

    def switch_takes(self, bid, succ_index, value):
        """does a switch on `value` at the end of block `bid` take successor number `succ_index`?"""
        succs = self.blocks[bid]["succs"]
        def lab(i):
            s = succs[i]
            return self.blocks[s["b"]] if s is not None else {}
        match = [i for i in range(len(succs)) if any(lo <= value <= hi for lo, hi in lab(i).get("cases", []))]
        if match:
            return succ_index in match
        dflt = [i for i in range(len(succs)) if lab(i).get("default")]
        if dflt:
            return succ_index in dflt
        return succ_index in [i for i in range(len(succs)) if succs[i] is not None and not lab(i).get("cases")]

    def edge_cond_resolved(self, bid, succ_index):
        """edge_cond with a condition that is a single-definition local replaced by its defining expression:
        `const int r = <expr>; if (r)` (also the result variable of an inlined helper) tests <expr>"""
        ec = self.edge_cond(bid, succ_index)
        if ec is None:
            return None
        leaf, pol = ec
        for _ in range(4):
            if leaf is not None and leaf.k == "DeclRefExpr" and leaf.dk == "local" and leaf.did:
                v = self.reaching_def(leaf)
                if v is None:
                    break
                leaf, pol = norm_cond(v, pol)
                if leaf is strip(v):
                    leaf = v          # keep the conversion nodes around a plain value (rules recognise loads by their cast node)
                    if strip(v).k != "DeclRefExpr":
                        break
                    leaf = strip(v)
            else:
                break
        return (leaf, pol)

    # ------------------------------------------------------------------ path search
    def find_path(self, start, target, barrier=None, edge_ok=None):
        """Search a control-flow path.

        start   : 'entry' or a Node (search begins just *after* that node's evaluation)
        target  : 'exit' (normal function exit) or predicate(Node) -> bool
        barrier : predicate(Node) -> bool; a path may not pass such an element
        edge_ok : predicate(block_id, succ_index) -> bool; edges that may be taken
        Returns None when no such path exists, else a witness: list of source lines.
        """
        if start == "entry":
            sb, si = self.entry, 0
        else:
            p = self.cfgpos(start)
            if p is None:
                raise AnalysisBroken("%s: node %r has no CFG position" % (self.name, start))
            sb, si = p[0], p[1] + 1
        # state: (block, from_index) ; from_index is 0 except for the start block
        parent = {}
        first = (sb, si)
        dq = deque([first])
        seen = {first}
        while dq:
            st = dq.popleft()
            b, i = st
            elems = self.blocks[b]["elems"]
            blocked = False
            for j in range(i, len(elems)):
                n = self.nodes[elems[j]]
                if target != "exit" and target(n):
                    return self._witness(parent, st, n)
                if barrier is not None and barrier(n):
                    blocked = True
                    break
            if blocked:
                continue
            if b == self.exit:
                if target == "exit":
                    return self._witness(parent, st, None)
                continue
            for idx, t in self.succ[b]:
                if edge_ok is not None and not edge_ok(b, idx):
                    continue
                nx = (t, 0)
                if nx not in seen:
                    seen.add(nx)
                    parent[nx] = st
                    dq.append(nx)
        return None

    def _witness(self, parent, st, hit):
        chain = []
        cur = st
        while cur is not None:
            chain.append(cur)
            cur = parent.get(cur)
        chain.reverse()
        lines = []
        for b, i in chain:
            elems = self.blocks[b]["elems"]
            ln = None
            for e in elems[i:]:
                ln = self.nodes[e].line
                if ln:
                    break
            if ln is None:
                t = self.blocks[b].get("term")
                if t is not None and t >= 0:
                    ln = self.nodes[t].line
            if ln is not None and (not lines or lines[-1] != ln):
                lines.append(ln)
        if hit is not None and hit.line and (not lines or lines[-1] != hit.line):
            lines.append(hit.line)
        return lines or [self.line]

    def dominated_by(self, node, pred):
        """Every path from entry to `node` passes an element satisfying `pred` first.
        Returns None if so, else the witness path."""
        return self.find_path("entry", lambda n: n is node, barrier=pred)

    def always_followed_by(self, node, pred, until=None):
        """Every path from `node` to function exit passes an element satisfying `pred`
        (paths are also cut at `until` elements).  None if so, else witness."""
        bar = pred if until is None else (lambda n: pred(n) or until(n))
        return self.find_path(node, "exit", barrier=bar)

    def guarded(self, node, cond_pred):
        """Every path from entry to `node` takes an edge whose condition satisfies
        cond_pred(leaf, polarity).  None if so, else witness."""
        def edge_ok(b, idx):
            ec = self.edge_cond(b, idx)
            if ec is None:
                return True
            if cond_pred(ec[0], ec[1]):
                return False
            # the same condition with a result local replaced by the expression it holds
            rc = self.edge_cond_resolved(b, idx)
            if rc is not None and rc[0] is not ec[0] and cond_pred(rc[0], rc[1]):
                return False
            return True
        return self.find_path("entry", lambda n: n is node, edge_ok=edge_ok)

    def path_between(self, a, b_pred, barrier=None):
        return self.find_path(a, b_pred, barrier=barrier)

    def has_loop(self):
        # back edge detection via DFS colours
        color = {}
        def dfs(u):
            color[u] = 1
            for _, v in self.succ[u]:
                c = color.get(v, 0)
                if c == 1:
                    return True
                if c == 0 and dfs(v):
                    return True
            color[u] = 2
            return False
        import sys
        sys.setrecursionlimit(10000)
        return dfs(self.entry)

    # ------------------------------------------------------------------ defs / resolution
    def _root_var(self, n):
        """Root local/param of an lvalue like x, x.f, x.a[i] (not through pointers)."""
        n = strip(n, casts=False)
        while n is not None:
            if n.k == "DeclRefExpr":
                return n if n.did else None
            if n.k == "MemberExpr" and not n.arrow:
                n = strip(n.kids[0], casts=False)
            elif n.k == "ArraySubscriptExpr":
                b = strip(n.kids[0], casts=False)
                # arrays decay: only follow when the base is an array lvalue, not a pointer value
                if b is not None and b.t and b.t.endswith("]"):
                    n = b
                else:
                    return None
            else:
                return None
        return None

    def defs(self):
        """did -> list of (kind, node, value): kind in init|assign (whole-variable definition with a
        value), mod (partial or in-place modification), addr (address escapes: unknown afterwards)."""
        if self._defs is not None:
            return self._defs
        d = {}
        for n in self.nodes:
            k = n.d["k"]
            if k == "DeclStmt":
                for dc in n.d["decls"]:
                    if "init" in dc:
                        d.setdefault(dc["did"], []).append(("init", n, self.nodes[dc["init"]]))
                    else:
                        d.setdefault(dc["did"], []).append(("decl", n, None))
            elif k == "BinaryOperator" and n.op == "=":
                t = strip(n.kids[0], casts=False)
                if t.k == "DeclRefExpr" and t.did:
                    d.setdefault(t.did, []).append(("assign", n, n.kids[1]))
                else:
                    r = self._root_var(t)
                    if r is not None:
                        d.setdefault(r.did, []).append(("mod", n, None))
            elif k == "CompoundAssignOperator" or (k == "UnaryOperator" and n.op in ("++", "--")):
                r = self._root_var(n.kids[0])
                if r is not None:
                    d.setdefault(r.did, []).append(("mod", n, None))
            elif k == "UnaryOperator" and n.op == "&":
                r = self._root_var(n.kids[0])
                if r is not None:
                    # the address escapes at the enclosing call / atomic builtin (or here)
                    site = n
                    p = n.parent
                    while p is not None and p.k in ("ImplicitCastExpr", "CStyleCastExpr", "ParenExpr"):
                        p = p.parent
                    if p is not None and (p.k in ("CallExpr", "AtomicExpr") or (p.k == "DeclStmt" and p.synthetic == "param")):
                        site = p   # (a pointer parameter of an inlined helper: bound after all arguments were evaluated)
                    d.setdefault(r.did, []).append(("addr", site, None))
        # a store through a pointer local that only ever holds the address of one local (`T* const out = &x; ... *out = v;` -- the
        # out-parameter of an inlined helper) is an assignment to that local
        def sole_target(pdid):
            evs = [e for e in d.get(pdid, []) if e[0] != "decl"]
            if len(evs) != 1 or evs[0][0] not in ("init", "assign") or evs[0][2] is None:
                return None
            v = strip(evs[0][2])
            if v is not None and v.k == "UnaryOperator" and v.op == "&":
                t = strip(v.kids[0], casts=False)
                if t is not None and t.k == "DeclRefExpr" and t.did and t.dk in ("local", "param"):
                    return t.did
            return None
        extra = []
        for n in self.nodes:
            if n.d["k"] == "BinaryOperator" and n.op == "=":
                t = strip(n.kids[0], casts=False)
                if t is not None and t.k == "UnaryOperator" and t.op == "*":
                    p = strip(t.kids[0])
                    if p is not None and p.k == "DeclRefExpr" and p.did and p.dk == "local":
                        x = sole_target(p.did)
                        if x is not None:
                            extra.append((x, ("assign", n, n.kids[1])))
        for x, e in extra:
            d.setdefault(x, []).append(e)
        self._defs = d
        return d

    def single_def(self, did):
        """The unique defining value of a local that is assigned exactly once and whose address
        is never taken (so no other writer exists); None otherwise."""
        ds = [x for x in self.defs().get(did, []) if x[0] != "decl"]
        if len(ds) != 1:
            return None
        kind, node, val = ds[0]
        if kind in ("init", "assign"):
            return val
        return None

    def reaching_def(self, use):
        """Value expression that defines local `use` (a DeclRefExpr) on *every* path reaching it,
        or None when several definitions / an escaped address / a modification may reach."""
        ck = ("rd", use.id)
        if ck in self._cache:
            return self._cache[ck]
        res = None
        did = use.did
        evs = self.defs().get(did, [])
        v = self.single_def(did)
        if v is not None and len([e for e in evs if e[0] != "decl"]) == 1:
            res = v
        elif evs:
            kills = {e[1].id for e in evs}
            isuse = lambda n: n is use
            bar = lambda n: n.id in kills
            cands = []
            if self.in_cfg(use) or self.cfgpos(use) is not None:
                if self.find_path("entry", isuse, barrier=bar) is not None:
                    cands.append(("entry", None, None))
                for e in evs:
                    if self.cfgpos(e[1]) is None:
                        cands.append(("?", None, None))
                        continue
                    if e[1].contains(use):
                        continue  # the use is an operand of the defining event itself
                    if self.find_path(e[1], isuse, barrier=bar) is not None:
                        cands.append(e)
            if len(cands) == 1 and cands[0][0] in ("init", "assign"):
                res = cands[0][2]
        self._cache[ck] = res
        return res

    def resolve(self, n, depth=6):
        """Follow locals to the expression that defines them (flow-sensitive, unique reaching def)."""
        n = strip(n)
        while depth > 0 and n is not None and n.k == "DeclRefExpr" and n.did and n.dk == "local":
            v = self.reaching_def(n)
            if v is None:
                return n
            n = strip(v)
            depth -= 1
        return n

    # ------------------------------------------------------------------ access paths
    def key(self, n, resolve=False):
        """Canonical access path of an expression (nested tuples)."""
        n = strip(n)
        if n is None:
            return ("?",)
        if resolve:
            n = self.resolve(n)
        k = n.k
        if k == "DeclRefExpr":
            if n.dk in ("local", "param"):
                return ("var", n.name, n.did)
            if n.dk == "func":
                return ("func", n.name)
            return ("glob", n.name)
        if k == "MemberExpr":
            base = self.key(n.kids[0], resolve)
            if n.arrow and base[0] == "&":
                return ("f", n.rec, n.field, base[1])
            if n.arrow:
                return ("f", n.rec, n.field, ("*", base))
            return ("f", n.rec, n.field, base)
        if k == "UnaryOperator":
            sub = self.key(n.kids[0], resolve)
            if n.op == "*":
                if sub[0] == "&":
                    return sub[1]
                return ("*", sub)
            if n.op == "&":
                if sub[0] == "*":
                    return sub[1]
                return ("&", sub)
            return ("u" + n.op, sub)
        if k == "ArraySubscriptExpr":
            return ("[]", self.key(n.kids[0], resolve), self.key(n.kids[1], resolve))
        if n.cv is not None and k not in ("CallExpr",):
            return ("c", n.cv)
        if k == "CallExpr":
            return ("call", n.callee or "?") + tuple(self.key(a, resolve) for a in n.kids[1:])
        if k == "BinaryOperator":
            return ("b" + n.op, self.key(n.kids[0], resolve), self.key(n.kids[1], resolve))
        if k == "AtomicExpr":
            return ("atomic", atomic_kind(n.aop), self.key(self.nodes[n.ptr], resolve))
        return ("?", n.id)

    # ------------------------------------------------------------------ events
    def _deref_target(self, ptr):
        p = strip(ptr)
        if p.k == "UnaryOperator" and p.op == "&":
            return strip_parens(p.kids[0])
        return p  # pointer expression: target is *p; callers use key_of_target

    def target_key(self, t, resolve=False):
        """Key of the memory a Store/Load touches (t is an lvalue node or a pointer expr)."""
        if t.lv:
            return self.key(t, resolve)
        k = self.key(t, resolve)
        if k[0] == "&":
            return k[1]
        return ("*", k)

    def stores(self):
        if self._stores is not None:
            return self._stores
        out = []
        for n in self.nodes:
            k = n.d["k"]
            if k == "BinaryOperator" and n.op == "=":
                lhs = strip_parens(n.kids[0])
                order = "seq_cst" if lhs.tatomic else None
                out.append(Store(n, lhs, n.kids[1], "assign", order=order))
            elif k == "CompoundAssignOperator":
                lhs = strip_parens(n.kids[0])
                out.append(Store(n, lhs, n.kids[1], "compound", aop=n.op,
                                 order="seq_cst" if lhs.tatomic else None))
            elif k == "UnaryOperator" and n.op in ("++", "--"):
                lhs = strip_parens(n.kids[0])
                out.append(Store(n, lhs, None, "incdec", aop=n.op,
                                 order="seq_cst" if lhs.tatomic else None))
            elif k == "AtomicExpr":
                ak = atomic_kind(n.aop)
                if ak == "load":
                    continue
                tgt = self._deref_target(self.nodes[n.ptr])
                val = self.nodes[n.val1] if n.val1 is not None else None
                exp = None
                if ak == "cas":
                    exp = self.nodes[n.val1]
                    val = self.nodes[n.val2]
                out.append(Store(n, tgt, val, "atomic", aop=ak, order=n.order,
                                 order_fail=n.order_fail, expected=exp))
            elif k == "CallExpr" and n.callee and n.callee.startswith("__sync_"):
                args = n.kids[1:]
                if not args:
                    continue
                tgt = self._deref_target(args[0])
                name = n.callee[len("__sync_"):]
                if "compare_and_swap" in name:
                    out.append(Store(n, tgt, args[2], "sync", aop="cas", order="seq_cst",
                                     order_fail="seq_cst", expected=args[1]))
                elif name.startswith("lock_release"):
                    out.append(Store(n, tgt, None, "sync", aop="store", order="release"))
                elif name.startswith("synchronize"):
                    pass
                else:
                    out.append(Store(n, tgt, args[1] if len(args) > 1 else None, "sync",
                                     aop=name.rsplit("_", 0)[0], order="seq_cst"))
            elif k == "CallExpr" and n.callee in ("memset", "__builtin_memset") and len(n.kids) > 1:
                tgt = self._deref_target(n.kids[1])
                out.append(Store(n, tgt, n.kids[2], "memset"))
        self._stores = out
        return out

    def loads(self):
        if self._loads is not None:
            return self._loads
        out = []
        for n in self.nodes:
            k = n.d["k"]
            if k == "ImplicitCastExpr" and n.ck == "LValueToRValue":
                t = strip_parens(n.kids[0])
                out.append(Load(n, t, "seq_cst" if t.tatomic else None,
                                "atomic" if t.tatomic else "plain"))
            elif k == "AtomicExpr":
                ak = atomic_kind(n.aop)
                if ak == "store":
                    continue
                tgt = self._deref_target(self.nodes[n.ptr])
                out.append(Load(n, tgt, n.order if ak == "load" else n.order, "atomic"))
            elif k == "CallExpr" and n.callee and n.callee.startswith("__sync_") and len(n.kids) > 1:
                if "synchronize" in n.callee:
                    continue
                out.append(Load(n, self._deref_target(n.kids[1]), "seq_cst", "atomic"))
        self._loads = out
        return out

    def stores_to(self, rec, field):
        return [s for s in self.stores() if is_field(self.target_key(s.target), rec, field)]

    def loads_of(self, rec, field):
        return [l for l in self.loads() if is_field(self.target_key(l.target), rec, field)]

    def calls(self, name=None, pred=None):
        out = []
        for n in self.nodes:
            if n.d["k"] != "CallExpr":
                continue
            if name is not None:
                if isinstance(name, (set, frozenset, list, tuple)):
                    if n.callee not in name:
                        continue
                elif n.callee != name:
                    continue
            if pred is not None and not pred(n):
                continue
            out.append(n)
        return out

    def returns(self):
        return [n for n in self.nodes if n.d["k"] == "ReturnStmt"]

    def args(self, call):
        return call.kids[1:]


def is_field(key, rec, field):
    if key[0] != "f":
        return False
    if rec is not None and key[1] != rec:
        return False
    if isinstance(field, (set, frozenset, tuple, list)):
        return key[2] in field
    return key[2] == field


def key_base(key):
    return key[3] if key[0] == "f" else None


def key_str(key):
    t = key[0]
    if t == "var" or t == "glob" or t == "func":
        return key[1]
    if t == "f":
        b = key[3]
        if b[0] == "*":
            return "%s->%s" % (key_str(b[1]), key[2])
        return "%s.%s" % (key_str(b), key[2])
    if t == "*":
        return "*" + key_str(key[1])
    if t == "&":
        return "&" + key_str(key[1])
    if t == "[]":
        return "%s[%s]" % (key_str(key[1]), key_str(key[2]))
    if t == "c":
        return str(key[1])
    if t == "call":
        return "%s(%s)" % (key[1], ", ".join(key_str(a) for a in key[2:]))
    if t.startswith("b"):
        return "(%s %s %s)" % (key_str(key[1]), t[1:], key_str(key[2]))
    if t.startswith("u"):
        return "%s%s" % (t[1:], key_str(key[1]))
    if t == "atomic":
        return "atomic_%s(%s)" % (key[1], key_str(key[2]))
    return "?"


def deatomic(key):
    """the same access path with explicit atomic loads written as plain reads: atomic_load(&x->f) is x->f, atomic_load(p) is *p"""
    if not isinstance(key, tuple):
        return key
    if key and key[0] == "atomic" and key[1] == "load":
        k = deatomic(key[2])
        return k[1] if k[0] == "&" else ("*", k)
    return tuple(deatomic(x) for x in key)


def key_mentions(key, pred):
    """Does any sub-key satisfy pred?"""
    if pred(key):
        return True
    for x in key[1:]:
        if isinstance(x, tuple) and key_mentions(x, pred):
            return True
    return False


def _is_zero_literal(n):
    return n is not None and n.k == "IntegerLiteral" and n.cv == 0


def norm_cond(n, pol=True):
    """Normalise a branch condition to (leaf, polarity): strips !, `!= 0`, `== 0`, casts."""
    while True:
        n = strip(n)
        if n.k == "UnaryOperator" and n.op == "!":
            n = n.kids[0]
            pol = not pol
            continue
        if n.k == "BinaryOperator" and n.op == ",":
            n = n.kids[1]          # the value of a comma expression is its right operand
            continue
        if n.k == "BinaryOperator" and n.op in ("!=", "=="):
            a, b = strip(n.kids[0]), strip(n.kids[1])
            za, zb = _is_zero_literal(a), _is_zero_literal(b)
            if za != zb:
                if n.op == "==":
                    pol = not pol
                n = b if za else a
                continue
        return (n, pol)


class Program:
    def __init__(self, factdir, manifest, repo):
        self.repo = repo
        self.factdir = factdir
        self.manifest = manifest
        self.functions = {}
        self.fn_list = []
        self.records = {}
        self.globals = []
        self.units = []
        import inline
        census = inline.load_census()
        loaded = [(u, json.load(open(os.path.join(factdir, u["json"])))) for u in manifest["units"]]
        self.inlined = []
        inline.alias_fields([d for _, d in loaded], inline.load_records(), self.inlined)
        inline.alias_globals([d for _, d in loaded], self.rel, self.inlined)
        for _, d in loaded:
            for fd in d["functions"]:
                inline.canonical_atomics(fd)
                inline.split_returns(fd)
                inline.name_constants(fd)
        inline.alias_renamed([fd for _, d in loaded for fd in d["functions"]], self.rel, census, inline.load_signatures(), self.inlined)
        inline.alias_params([fd for _, d in loaded for fd in d["functions"]], inline.load_signatures(), self.inlined)
        taken = inline._addr_taken([fd for _, d in loaded for fd in d["functions"]])
        gone = inline.inline_program([d["functions"] for _, d in loaded], census, taken, self.inlined)
        for u, d in loaded:
            if gone:
                d["functions"] = [fd for fd in d["functions"] if fd["name"] not in gone]
        for u, d in loaded:
            self.units.append(u["unit"])
            for r in d["records"]:
                self.records.setdefault(r["name"], r)
            for g in d["globals"]:
                g["unit"] = u["unit"]
                self.globals.append(g)
            for fd in d["functions"]:
                f = Function(self, fd, u["unit"])
                self.fn_list.append(f)
                key = f.name
                if key in self.functions:
                    o = self.functions[key]
                    if (o.file, o.line) == (f.file, f.line):
                        continue
                    # two different static functions of one name: qualify both
                    self.functions.setdefault(o.relfile + ":" + o.name, o)
                    self.functions[f.relfile + ":" + f.name] = f
                    continue
                self.functions[key] = f
        self._cg = None
        self._addr_taken = None
        self._expanded = {}

    def rel(self, path):
        for root in (self.repo + os.sep, "/verif/"):
            if path.startswith(root):
                return path[len(root):]
        return path

    def fn(self, name, file=None):
        f = self.functions.get(name)
        if f is not None and file is not None and f.relfile != file:
            f = self.functions.get(file + ":" + name)
        if f is None:
            raise AnalysisBroken("anchor function `%s` not found in the analysed units" % name)
        return f

    def expanded(self, name, callees, file=None):
        """`name` with its direct calls to the (census) functions `callees` replaced by their bodies: for rules about a function that may
        delegate part of its work to a sibling API function (receive -> try_receive).  Returns the plain function when it calls none."""
        import copy
        import inline
        f = self.fn(name, file)
        if not any(c.callee in callees for c in f.calls()):
            return f
        key = ("expanded", name, tuple(sorted(callees)))
        if key in self._expanded:
            return self._expanded[key]
        fd = copy.deepcopy(f.d)
        serial = 9000
        for _ in range(4):
            todo = [i for i, n in enumerate(fd["nodes"]) if n["k"] == "CallExpr" and n.get("callee") in callees and not n.get("_inlined")]
            if not todo:
                break
            for cid in todo:
                g = self.fn(fd["nodes"][cid]["callee"])
                serial += 1
                if not inline.inline_one(fd, cid, g.d, serial):
                    fd["nodes"][cid]["_inlined"] = "skipped"
        nf = Function(self, fd, f.unit)
        self._expanded[key] = nf
        return nf

    def has_fn(self, name):
        return name in self.functions

    def record(self, name):
        r = self.records.get(name)
        if r is None:
            raise AnalysisBroken("anchor record `%s` not found" % name)
        return r

    def field(self, rec, name):
        for f in self.record(rec)["fields"]:
            if f["name"] == name:
                return f
        raise AnalysisBroken("anchor field `%s.%s` not found" % (rec, name))

    def unique_functions(self):
        seen = set()
        for f in self.fn_list:
            k = (f.file, f.line, f.name)
            if k in seen:
                continue
            seen.add(k)
            yield f

    # ------------------------------------------------------------------ call graph
    def callgraph(self):
        if self._cg is not None:
            return self._cg
        cg = {}
        taken = {}
        for f in self.unique_functions():
            outs = set()
            indirect = []
            for n in f.nodes:
                if n.d["k"] == "CallExpr":
                    if n.callee:
                        outs.add(n.callee)
                    else:
                        indirect.append(n)
                elif n.d["k"] == "DeclRefExpr" and n.dk == "func":
                    p = n.parent
                    # a function reference that is not the callee of a direct call
                    q = p
                    while q is not None and q.k in ("ImplicitCastExpr", "ParenExpr", "UnaryOperator", "CStyleCastExpr"):
                        q2 = q.parent
                        if q2 is not None and q2.k == "CallExpr" and q2.kids[0] is q:
                            break
                        q = q2
                    else:
                        taken.setdefault(n.name, []).append((f, n))
                        continue
                    if q is None:
                        taken.setdefault(n.name, []).append((f, n))
            cg[f.name] = {"fn": f, "calls": outs, "indirect": indirect}
        self._cg = cg
        self._addr_taken = taken
        return cg

    def addr_taken(self):
        self.callgraph()
        return self._addr_taken

    def reaches(self, targets, indirect_may=None):
        """Set of function names that can reach any of `targets` through direct calls.
        indirect_may(fn, callnode) -> iterable of callee names for indirect calls."""
        cg = self.callgraph()
        rev = {}
        for name, e in cg.items():
            outs = set(e["calls"])
            if indirect_may is not None:
                for c in e["indirect"]:
                    outs |= set(indirect_may(e["fn"], c))
            for o in outs:
                rev.setdefault(o, set()).add(name)
        seen = set(targets)
        dq = deque(targets)
        while dq:
            t = dq.popleft()
            for p in rev.get(t, ()):
                if p not in seen:
                    seen.add(p)
                    dq.append(p)
        return seen

    def callers_of(self, name):
        out = []
        for f in self.unique_functions():
            for c in f.calls(name):
                out.append((f, c))
        return out
