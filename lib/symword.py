"""A small interpreter for the *local scalar / packed-word* part of a function.

It walks one CFG path, keeping the values of locals (scalars, and unions/structs of at most 64 bits
as words with bit-fields located from the record layout), and asks `atom` for everything that
comes from memory or from calls.  It is used to enumerate transition tables of functions whose
whole logic is "snapshot a word, edit a private copy, CAS it back" (rwlock, spinlock trylock)
over a small finite set of snapshots.  This is constant folding over an enumerated domain; no
code of the library is executed.
"""
from core import strip, strip_parens
from facts import AnalysisBroken
from rules import ev, Unevaluable, wrap, type_info


class Layout:
    def __init__(self, P):
        self.P = P

    def field(self, rec, name):
        r = self.P.records.get(rec)
        if r is None:
            raise AnalysisBroken("record %s not found" % rec)
        for f in r["fields"]:
            if f["name"] == name:
                w = f.get("bits") or f.get("bits_size")
                return f["off_bits"], w, f
        raise AnalysisBroken("field %s.%s not found" % (rec, name))


class Machine:
    def __init__(self, fn, P, atom=None):
        self.fn = fn
        self.P = P
        self.lay = Layout(P)
        self.vals = {}      # did -> int
        self.ext = atom
        self.trace = []
        self.param_values = False
        self.depth = 0
        self.ptrs = {}      # pointer token -> (did, bit offset) for addresses of locals

    # ---- lvalues rooted at locals -------------------------------------------------------
    def locate(self, n):
        """(did, bit offset, width, type string) for an lvalue rooted at a local (dot accesses only), else None."""
        n = strip_parens(n)
        if n.k == "DeclRefExpr" and n.did and n.dk in ("local", "param"):
            ti = type_info(n.t)
            return (n.did, 0, ti[0] if ti else 64, n.t)
        if n.k == "MemberExpr" and not n.arrow:
            base = self.locate(n.kids[0])
            if base is None:
                return None
            off, w, f = self.lay.field(n.rec, n.field)
            if w is None:
                return None
            return (base[0], base[1] + off, w, n.t)
        if n.k in ("ImplicitCastExpr",) and n.ck in ("NoOp",):
            return self.locate(n.kids[0])
        if (n.k == "MemberExpr" and n.arrow) or (n.k == "UnaryOperator" and n.op == "*"):
            # through a pointer that holds the address of a local (`helper(&state)` after inlining: `p->f`, `*p`)
            base = self.pointee(n.kids[0])
            if base is None:
                return None
            if n.k == "UnaryOperator":
                ti = type_info(n.t)
                return (base[0], base[1], ti[0] if ti else 64, n.t)
            off, w, f = self.lay.field(n.rec, n.field)
            if w is None:
                return None
            return (base[0], base[1] + off, w, n.t)
        return None

    PTR_BASE = 0x6A00000000

    def pointee(self, p):
        """(did, bit offset) when pointer expression p evaluates to the address of (part of) a local, else None"""
        try:
            v = self.eval(p)
        except Unevaluable:
            return None
        return self.ptrs.get(v)

    def address_of(self, n):
        loc = self.locate(n)
        if loc is None:
            return None
        tok = self.PTR_BASE + 0x1000 * (loc[0] % 0x100000) + loc[1] // 8
        self.ptrs[tok] = (loc[0], loc[1])
        return tok

    def read(self, loc):
        did, off, w, t = loc
        if did not in self.vals:
            raise Unevaluable("local read before write")
        v = (self.vals[did] >> off) & ((1 << w) - 1)
        ti = type_info(t)
        if ti and ti[1] and w == ti[0] and v >= (1 << (w - 1)):
            v -= (1 << w)
        return v

    def write(self, loc, v):
        did, off, w, t = loc
        cur = self.vals.get(did, 0)
        mask = ((1 << w) - 1) << off
        self.vals[did] = (cur & ~mask) | ((v & ((1 << w) - 1)) << off)

    # ---- expressions ----------------------------------------------------------------------
    def atom(self, n):
        if n.k == "ImplicitCastExpr" and n.ck == "LValueToRValue":
            loc = self.locate(n.kids[0])
            if loc is not None and loc[0] in self.vals:
                return self.read(loc)
        if n.k == "ImplicitCastExpr" and n.ck == "AtomicToNonAtomic":
            return None
        if n.k == "UnaryOperator" and n.op == "&":
            tok = self.address_of(n.kids[0])
            if tok is not None:
                return tok
        if self.ext is not None:
            v = self.ext(n)
            if v is not None:
                return v
        if n.k == "CallExpr" and n.callee and self.depth < 2 and self.P.has_fn(n.callee) and n.callee not in self.NO_INLINE:
            v = self.call(n)
            if v is not None:
                return v
        if self.param_values and n.k == "ImplicitCastExpr" and n.ck == "LValueToRValue":
            m = strip_parens(n.kids[0])
            if m.k == "DeclRefExpr" and m.dk == "param" and m.did:
                return self.param_value(m.did)
        return None

    @staticmethod
    def opaque(node):
        """a distinct stand-in for a value that comes from memory the interpreter does not model"""
        return 0x7E000000 + 0x10 * node.id

    @staticmethod
    def param_value(did):
        """distinct, recognisable stand-in values for pointer parameters"""
        return 0x50000 + 0x100 * did

    def eval(self, n):
        return ev(self.fn, n, self.atom)

    NO_INLINE = ("fiber_manager_get", "fiber_manager_yield", "fiber_yield", "cpu_relax")

    def call(self, n):
        """value of a call to a small side-effect-free library helper: its body is interpreted with the arguments bound"""
        g = self.P.fn(n.callee)
        if g.has_loop() or any(c.callee and not c.callee.startswith("__builtin") and c.callee != "__assert_fail" for c in g.calls()) or g.stores() and \
                any(Machine(g, self.P).locate(s.target) is None for s in g.stores()):
            return None
        args = self.fn.args(n)
        if len(args) != len(g.params):
            return None
        sub = Machine(g, self.P, None)
        sub.depth = self.depth + 1
        for a, p in zip(args, g.params):
            loc = self.locate(strip_parens(a.kids[0])) if a.k == "ImplicitCastExpr" and a.ck == "LValueToRValue" else None
            try:
                sub.vals[p["did"]] = self.read(loc) if (loc is not None and loc[0] in self.vals) else self.eval(a)
            except Unevaluable:
                return None
        try:
            r = sub.run("entry", lambda m: m.k == "ReturnStmt")
            if r is None or not r.kids:
                return None
            return sub.eval(r.kids[0])
        except Unevaluable:
            return None

    # ---- statements -----------------------------------------------------------------------
    def exec_elem(self, n):
        k = n.k
        if k == "DeclStmt":
            for d in n.d["decls"]:
                if "init" in d:
                    init = self.fn.nodes[d["init"]]
                    if init.k == "InitListExpr":
                        self.vals[d["did"]] = 0
                        continue
                    try:
                        self.vals[d["did"]] = self.eval(init) & ((1 << 64) - 1) if type_info(d["t"]) is None else wrap(self.eval(init), d["t"])
                    except Unevaluable:
                        self.vals[d["did"]] = self.opaque(init)
            return
        if k == "BinaryOperator" and n.op == "=":
            loc = self.locate(n.kids[0])
            if loc is not None:
                try:
                    self.write(loc, self.eval(n.kids[1]))
                except Unevaluable:
                    self.write(loc, self.opaque(n.kids[1]))
            return
        if k == "CompoundAssignOperator":
            loc = self.locate(n.kids[0])
            if loc is not None:
                cur = self.read(loc)
                rhs = self.eval(n.kids[1])
                op = n.op[:-1]
                res = {"+": cur + rhs, "-": cur - rhs, "|": cur | rhs, "&": cur & rhs, "^": cur ^ rhs,
                       "<<": cur << rhs, ">>": cur >> rhs, "*": cur * rhs}.get(op)
                if res is None:
                    raise Unevaluable(n.op)
                self.write(loc, res)
            return
        if k == "UnaryOperator" and n.op in ("++", "--"):
            loc = self.locate(n.kids[0])
            if loc is not None:
                self.write(loc, self.read(loc) + (1 if n.op == "++" else -1))
            return

    def _dead_end(self, b, depth=3):
        """does block b lead only to a noreturn call (assertion failure)?"""
        fn = self.fn
        for _ in range(depth):
            blk = fn.blocks[b]
            if blk.get("noreturn"):
                return True
            ss = fn.succ[b]
            if len(ss) != 1:
                return False
            b = ss[0][1]
        return False

    def run(self, start, stop, max_blocks=200):
        """Walk from `start` ('entry' or a node: begins after it) until an element satisfies stop(node).
        Branches are decided by evaluating their condition in the current state.
        Returns the stop node, or None when the function exit is reached first."""
        fn = self.fn
        if start == "entry":
            b, i = fn.entry, 0
        else:
            p = fn.cfgpos(start)
            b, i = p[0], p[1] + 1
        steps = 0
        while True:
            steps += 1
            if steps > max_blocks:
                raise Unevaluable("path too long (loop?)")
            elems = fn.blocks[b]["elems"]
            for j in range(i, len(elems)):
                n = fn.nodes[elems[j]]
                if stop(n):
                    return n
                self.exec_elem(n)
                if n.k == "CallExpr":
                    self.trace.append(n)
            if b == fn.exit:
                return None
            succ = fn.succ[b]
            if not succ:
                return None
            if len(succ) == 1 and len(fn.blocks[b]["succs"]) <= 1:
                b, i = succ[0][1], 0
                continue
            sw = fn.switch_cond(b)
            if sw is not None:
                v = self.eval(sw)
                nxt = [t for idx, t in succ if fn.switch_takes(b, idx, v)]
                if len(nxt) != 1:
                    raise Unevaluable("switch target")
                b, i = nxt[0], 0
                continue
            c = fn.block_cond(b)
            if c is None:
                if len(succ) == 1:
                    b, i = succ[0][1], 0
                    continue
                raise Unevaluable("branch without condition")
            try:
                v = self.eval(c)
            except Unevaluable:
                # assert(x) in a debug configuration: one successor only reaches a noreturn call; take the other
                live = [(idx, t) for idx, t in succ if not self._dead_end(t)]
                if len(live) == 1:
                    b, i = live[0][1], 0
                    continue
                raise
            want = 0 if v else 1
            nxt = [t for idx, t in succ if idx == want]
            if not nxt:
                # the edge was pruned as unreachable (e.g. while(1)): take the remaining one
                if len(succ) == 1:
                    nxt = [succ[0][1]]
                else:
                    return None
            b, i = nxt[0], 0
