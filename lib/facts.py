"""Fact generation: compile DB from the *current* /repo, factgen per unit, content-hash cache.

Nothing of libfiber is built or run: cmake only *configures* a scratch directory to obtain the
compile commands the real build uses, and factgen parses each unit with clang's front end.
"""
import fcntl
import hashlib
import json
import os
import shlex
import shutil
import subprocess
import sys
import time
from concurrent.futures import ThreadPoolExecutor

VERIF = os.path.dirname(os.path.dirname(os.path.abspath(__file__)))
REPO = os.environ.get("VERIF_REPO", "/repo")
CACHE = os.environ.get("VERIF_CACHE", os.path.join(VERIF, ".cache"))
FACTGEN = os.path.join(VERIF, "bin", "factgen")
RESOURCE_DIR = "/usr/lib/llvm-14/lib/clang/14.0.6"


class AnalysisBroken(Exception):
    """The analysis itself cannot be carried out (exit 2): never a pass, never a violation."""


def sha(*parts):
    h = hashlib.sha256()
    for p in parts:
        if isinstance(p, str):
            p = p.encode()
        h.update(p)
        h.update(b"\0")
    return h.hexdigest()[:20]


def _lock(name):
    os.makedirs(CACHE, exist_ok=True)
    f = open(os.path.join(CACHE, name + ".lock"), "w")
    fcntl.flock(f, fcntl.LOCK_EX)
    return f


def ensure_factgen():
    src = os.path.join(VERIF, "factgen", "factgen.cc")
    if os.path.exists(FACTGEN) and os.path.getmtime(FACTGEN) >= os.path.getmtime(src):
        return
    lk = _lock("factgen-build")
    try:
        r = subprocess.run(["sh", os.path.join(VERIF, "factgen", "build.sh")],
                           capture_output=True, text=True)
        if r.returncode != 0 or not os.path.exists(FACTGEN):
            raise AnalysisBroken("cannot build factgen: " + r.stderr[-2000:])
    finally:
        lk.close()


def _cmake_options(repo):
    """Options of the pinned build, read from the existing build tree's cache when present."""
    opts = {"CMAKE_BUILD_TYPE": "RelWithDebInfo"}
    cache = os.path.join(repo, "_build", "CMakeCache.txt")
    if os.path.exists(cache):
        for line in open(cache, errors="replace"):
            line = line.strip()
            for key in ("CMAKE_BUILD_TYPE", "FIBER_USE_NATIVE_EVENTS", "FIBER_FAST_SWITCHING",
                        "FIBER_STACK_STRATEGY", "CMAKE_C_FLAGS"):
                if line.startswith(key + ":"):
                    val = line.split("=", 1)[1]
                    if val != "":
                        opts[key] = val
    opts["FIBER_RUN_TESTS_WITH_BUILD"] = "OFF"
    return opts


def compile_db(repo=None):
    """Return list of (file, flags[]) for the library units of the current CMakeLists.txt."""
    repo = repo or REPO
    src_repo = os.environ.get("VERIF_COMPDB_FROM")
    if src_repo and os.path.normpath(src_repo) != os.path.normpath(repo):
        # mutant self-tests: the scratch copy has no test/ directory, so the build description is the
        # one of the real tree (same CMakeLists.txt), with paths rewritten to the copy
        import re
        a_txt = open(os.path.join(src_repo, "CMakeLists.txt"), errors="replace").read()
        b_txt = open(os.path.join(repo, "CMakeLists.txt"), errors="replace").read()
        pat = re.compile(r"src/[A-Za-z0-9_]+\.c\b")
        if re.sub(r"\s+", " ", pat.sub("", a_txt)) != re.sub(r"\s+", " ", pat.sub("", b_txt)):
            raise AnalysisBroken("scratch copy has a different CMakeLists.txt (beyond its list of source files)")
        out = []
        for f, fl in compile_db(src_repo):
            out.append((repo + f[len(src_repo):], [a.replace(src_repo + "/", repo + "/") for a in fl]))
        # the copy may list other source files than the real tree (a refactoring that moved functions into a new file)
        want = set(pat.findall(b_txt))
        had = set(pat.findall(a_txt))
        base = out[0][1] if out else []
        for rel in sorted(want - had):
            p = os.path.join(repo, rel)
            if os.path.exists(p):
                out.append((p, list(base)))
        gone = {os.path.join(repo, rel) for rel in (had - want)}
        out = [(f, fl) for f, fl in out if f not in gone]
        return out
    cml = os.path.join(repo, "CMakeLists.txt")
    if not os.path.exists(cml):
        raise AnalysisBroken("no CMakeLists.txt in " + repo)
    opts = _cmake_options(repo)
    key = sha(open(cml, "rb").read(), json.dumps(opts, sort_keys=True), repo)
    out = os.path.join(CACHE, "compdb-" + key + ".json")
    if not os.path.exists(out):
        lk = _lock("compdb-" + key)
        try:
            if not os.path.exists(out):
                scratch = os.path.join(CACHE, "cmake-" + key + "-%d" % os.getpid())
                shutil.rmtree(scratch, ignore_errors=True)
                cmd = ["cmake", "-G", "Ninja", "-S", repo, "-B", scratch] + \
                      ["-D%s=%s" % kv for kv in sorted(opts.items())]
                r = subprocess.run(cmd, capture_output=True, text=True)
                cc = os.path.join(scratch, "compile_commands.json")
                if r.returncode != 0 or not os.path.exists(cc):
                    shutil.rmtree(scratch, ignore_errors=True)
                    raise AnalysisBroken("cmake configure failed: " + (r.stderr or r.stdout)[-2000:])
                db = json.load(open(cc))
                shutil.rmtree(scratch, ignore_errors=True)
                tmp = out + ".tmp%d" % os.getpid()
                json.dump(db, open(tmp, "w"))
                os.replace(tmp, out)
        finally:
            lk.close()
    db = json.load(open(out))
    units = []
    seen = set()
    for e in db:
        f = os.path.normpath(e["file"])
        if not f.startswith(os.path.join(repo, "src") + os.sep):
            continue  # tests etc. are not the library
        if f in seen:
            continue
        seen.add(f)
        args = shlex.split(e["command"]) if "command" in e else list(e["arguments"])
        flags = []
        skip = False
        for a in args[1:]:
            if skip:
                skip = False
                continue
            if a in ("-o", "-MF", "-MT", "-MQ"):
                skip = True
                continue
            if a in ("-c", "-MD", "-MMD") or a == e["file"] or os.path.normpath(a) == f:
                continue
            if a.startswith("-g") or a.startswith("-O") or a.startswith("-W"):
                continue
            flags.append(a)
        units.append((f, flags))
    if not units:
        raise AnalysisBroken("compile DB lists no library unit under src/")
    return units


# ---------------------------------------------------------------------------------------------
# configurations

def _subst(flags, remove=(), add=()):
    out = [f for f in flags if f not in remove]
    return out + list(add)


CONFIGS = {
    # the pinned build
    "pinned": lambda fl: fl,
    "malloc": lambda fl: _subst(fl, ("-DFIBER_STACK_SPLIT", "-fsplit-stack"), ("-DFIBER_STACK_MALLOC",)),
    "mmap": lambda fl: _subst(fl, ("-DFIBER_STACK_SPLIT", "-fsplit-stack"), ("-DFIBER_STACK_MMAP",)),
    "ucontext": lambda fl: _subst(fl, ("-DFIBER_FAST_SWITCHING",)),
    "debug": lambda fl: _subst(fl, ("-DNDEBUG",)),
}

# units that CMake does not build in the pinned configuration but the Makefile can: siblings
SIBLING_UNITS = ["src/fiber_scheduler_dist.c", "src/fiber_event_ev.c"]


def source_digest(repo):
    h = hashlib.sha256()
    for sub in ("src", "include"):
        d = os.path.join(repo, sub)
        if not os.path.isdir(d):
            raise AnalysisBroken("missing directory " + d)
        for name in sorted(os.listdir(d)):
            p = os.path.join(d, name)
            if os.path.isfile(p):
                h.update(name.encode())
                h.update(open(p, "rb").read())
    return h.hexdigest()[:20]


def _run_factgen(out, roots, path, flags):
    cmd = [FACTGEN, out, roots, path, "--"] + flags + ["-resource-dir", RESOURCE_DIR, "-w"]
    r = subprocess.run(cmd, capture_output=True, text=True)
    return r.returncode, r.stderr


def generate(config="pinned", repo=None, extra_units=(), siblings=False):
    """Return (dir, manifest) with one JSON per unit for the given configuration."""
    repo = repo or REPO
    ensure_factgen()
    units = compile_db(repo)
    base_flags = units[0][1]
    tr = CONFIGS[config]
    fg_hash = sha(open(FACTGEN, "rb").read())
    jobs = []  # (unit label, file to parse, funcroot, flags)
    # private headers next to the sources (src/*.h) have no unit of their own: every source unit also dumps the functions
    # it sees from them (duplicates across units are merged by file and line when the program is loaded)
    srcdir = os.path.join(repo, "src")
    private_hdrs = sorted(os.path.join(srcdir, n) for n in os.listdir(srcdir) if n.endswith(".h")) if os.path.isdir(srcdir) else []
    for f, fl in units:
        jobs.append((os.path.relpath(f, repo), f, ":".join([f] + private_hdrs), tr(fl)))
    if siblings:
        have = {j[0] for j in jobs}
        for s in SIBLING_UNITS:
            p = os.path.join(repo, s)
            if s not in have and os.path.exists(p):
                jobs.append((s, p, ":".join([p] + private_hdrs), tr(base_flags)))
    incdir = os.path.join(repo, "include")
    headers = sorted(n for n in os.listdir(incdir) if n.endswith(".h"))
    key = sha(fg_hash, source_digest(repo), config, json.dumps([j[3] for j in jobs]), json.dumps([j[2] for j in jobs]),
              json.dumps(sorted(extra_units)), str(siblings), repo)
    outdir = os.path.join(CACHE, "facts-" + key)
    done = os.path.join(outdir, "MANIFEST.json")
    if os.path.exists(done):
        return outdir, json.load(open(done))
    lk = _lock("facts-" + key)
    try:
        if os.path.exists(done):
            return outdir, json.load(open(done))
        os.makedirs(outdir, exist_ok=True)
        # synthetic TU per header: most lock-free structures are header-only static inline
        for h in headers:
            syn = os.path.join(outdir, "hdr_" + h[:-2] + ".c")
            with open(syn, "w") as fh:
                # fiber_signal.h uses fiber_manager_t without including fiber_manager.h
                if h not in ("machine_specific.h",):
                    fh.write('#include "fiber_manager.h"\n')
                fh.write('#include "%s"\n' % h)
            jobs.append(("include/" + h, syn, os.path.join(incdir, h), tr(base_flags)))
        for x in extra_units:
            jobs.append((os.path.relpath(x, VERIF), x, x, tr(base_flags) + ["-I" + incdir]))
        recroots = repo + os.sep + ":" + os.path.join(VERIF, "controls")

        def work(j):
            label, path, froot, flags = j
            out = os.path.join(outdir, label.replace("/", "__") + ".json")
            rc, err = _run_factgen(out, froot + "|" + recroots, path, flags)
            return label, out, rc, err

        t0 = time.time()
        with ThreadPoolExecutor(max_workers=min(16, os.cpu_count() or 4)) as ex:
            res = list(ex.map(work, jobs))
        bad = [(l, e) for l, o, rc, e in res if rc != 0]
        if bad:
            msg = "; ".join("%s: %s" % (l, e.strip()[-400:]) for l, e in bad[:4])
            shutil.rmtree(outdir, ignore_errors=True)
            raise AnalysisBroken("units do not parse (" + config + "): " + msg)
        man = {"config": config, "units": [{"unit": l, "json": os.path.basename(o)} for l, o, rc, e in res],
               "flags": tr(base_flags), "gen_s": round(time.time() - t0, 2)}
        tmp = done + ".tmp%d" % os.getpid()
        json.dump(man, open(tmp, "w"))
        os.replace(tmp, done)
        _gc_cache()
        return outdir, man
    finally:
        lk.close()


def _gc_cache(keep=12):
    """Bound disk use: keep only the most recent fact directories."""
    try:
        ds = [os.path.join(CACHE, d) for d in os.listdir(CACHE) if d.startswith("facts-")]
        ds = [d for d in ds if os.path.isdir(d)]
        ds.sort(key=lambda d: os.path.getmtime(d), reverse=True)
        for d in ds[keep:]:
            shutil.rmtree(d, ignore_errors=True)
    except OSError:
        pass


if __name__ == "__main__":
    cfg = sys.argv[1] if len(sys.argv) > 1 else "pinned"
    d, m = generate(cfg, siblings=(cfg != "pinned"))
    print(d, len(m["units"]), "units", m["gen_s"], "s")
