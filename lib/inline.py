"""Inlining of functions the rule tables do not know.

The rules are anchored on the functions of the library as it stood when they were written (lib/census.json: names only).
A function that is *not* in that census -- typically a helper extracted by a refactoring -- has no rule of its own; its meaning is
its body.  Every direct call to such a function is therefore replaced, in the fact representation, by the callee's CFG and nodes:

    caller block  B = [.. args .., CALL, rest..] -> succs
  becomes
    B  = [.. args .., p1 = arg1, .., pn = argn]  -> entry' of the cloned callee
    every `return e` of the clone becomes  `__ret = e`  and flows to  B2
    B2 = [__ret, CALL' (a load of __ret), rest..] -> succs

Locals of the clone get fresh declaration ids; parameters become locals initialised from the argument expressions (which stay
where they were evaluated).  When CALL is itself the leaf condition of B's two-way branch (`if (helper(x))`, `while (!helper())`)
each return of a *constant* is wired directly to the successor the branch would take (jump threading), so that the rules' path
queries stay as precise as they were on the un-extracted code.

Functions are inlined bottom-up (a new helper that calls another new helper), never recursively, and never when their address is
taken.  An inlined function disappears from the program's function list: it has no callers left and no rule speaks about it.
This is a semantics-preserving program transformation; nothing is executed.
"""
import copy
import json
import os

CENSUS = os.path.join(os.path.dirname(os.path.abspath(__file__)), "census.json")


def load_census():
    return set(json.load(open(CENSUS))["functions"])


def split_returns(fd):
    """Single-exit style (`result = X; goto out; ... out: return result;`): a block that does nothing but return a local which has several
    definitions is given one copy per predecessor, so that each copy returns the value its own path assigned.  The rules, which quantify
    over return statements, then see the same returns as in the multi-exit form.  Pure blocks only (no calls, no stores)."""
    nodes = fd["nodes"]
    cfg = fd["cfg"]
    ndefs = {}
    for n in nodes:
        if n["k"] == "DeclStmt":
            for d in n.get("decls", []):
                if "init" in d:
                    ndefs[d["did"]] = ndefs.get(d["did"], 0) + 1
        elif n["k"] == "BinaryOperator" and n.get("op") == "=" and n["c"] and n["c"][0] >= 0:
            x = n["c"][0]
            while nodes[x]["k"] == "ParenExpr":
                x = nodes[x]["c"][0]
            if nodes[x]["k"] == "DeclRefExpr" and nodes[x].get("did"):
                ndefs[nodes[x]["did"]] = ndefs.get(nodes[x]["did"], 0) + 1
    parent = None
    changed = False
    for R in list(cfg["blocks"]):
        el = R["elems"]
        if not el or nodes[el[-1]]["k"] != "ReturnStmt" or R.get("cond") is not None and R.get("cond", -1) >= 0:
            continue
        if any(nodes[e]["k"] not in ("DeclRefExpr", "ImplicitCastExpr", "ParenExpr", "CStyleCastExpr", "ReturnStmt") for e in el):
            continue
        r = nodes[el[-1]]
        if not r["c"] or r["c"][0] < 0:
            continue
        x = r["c"][0]
        while nodes[x]["k"] in ("ImplicitCastExpr", "ParenExpr", "CStyleCastExpr") and nodes[x]["c"]:
            x = nodes[x]["c"][0]
        v = nodes[x]
        if v["k"] != "DeclRefExpr" or v.get("dk") != "local" or ndefs.get(v.get("did"), 0) < 2:
            continue
        preds = [b for b in cfg["blocks"] if b is not R and any(s_ is not None and s_["b"] == R["id"] for s_ in b["succs"])]
        if len(preds) < 2:
            continue
        if parent is None:
            parent = {}
            for i, n in enumerate(nodes):
                for c in n["c"]:
                    if c >= 0:
                        parent[c] = i
        nodes[el[-1]]["split_root"] = True
        for P in preds[1:]:
            m = {}
            for e in el:
                nodes.append(dict(nodes[e]))
                m[e] = len(nodes) - 1
            for e in el:
                n = nodes[m[e]]
                n["c"] = [m.get(c, c) for c in n["c"]]
                n["split_of"] = e
            if el[-1] in parent:
                nodes[m[el[-1]]]["iparent"] = parent[el[-1]]
            nb = {"id": max(b["id"] for b in cfg["blocks"]) + 1, "elems": [m[e] for e in el], "succs": [None if s_ is None else dict(s_) for s_ in R["succs"]],
                  "split_of": R["id"]}
            cfg["blocks"].append(nb)
            for s_ in P["succs"]:
                if s_ is not None and s_["b"] == R["id"]:
                    s_["b"] = nb["id"]
            changed = True
    return changed


def name_constants(fd):
    """a named constant is known to the rules by its name whether it is spelled as a macro, an enum constant or a `static const`:
    enum-constant references and constant-folded reads of const globals get the macro-name attribute `m` when they have none"""
    nodes = fd["nodes"]
    for n in nodes:
        if n.get("m") or n.get("cv") is None:
            continue
        if n["k"] == "DeclRefExpr" and n.get("dk") == "enum":
            n["m"] = n.get("name")
        elif n["k"] == "ImplicitCastExpr" and n.get("ck") == "LValueToRValue" and n["c"] and n["c"][0] >= 0:
            c = nodes[n["c"][0]]
            if c["k"] == "DeclRefExpr" and c.get("dk") == "global":
                n["m"] = c.get("name")


def load_records():
    return json.load(open(CENSUS)).get("records", {})


def alias_fields(units, census_recs, log):
    """units: list of fact dicts (with "records" and "functions").  A field the rules know that is gone from its record while exactly one
    new field with the same type (and the same offset, or the only candidate of that type) appeared is a renamed field: it keeps the old name."""
    for d in units:
        ren = {}
        for r in d["records"]:
            known = census_recs.get(r["name"])
            if not known:
                continue
            have = {f["name"] for f in r["fields"]}
            known_names = {k[0] for k in known}
            missing = [k for k in known if k[0] not in have]
            fresh = [f for f in r["fields"] if f["name"] not in known_names]
            for name, t, off in missing:
                cands = [f for f in fresh if f.get("t") == t and f.get("off_bits") == off] or [f for f in fresh if f.get("t") == t]
                if len(cands) == 1:
                    ren[(r["name"], cands[0]["name"])] = name
                    fresh.remove(cands[0])
        if not ren:
            continue
        for r in d["records"]:
            for f in r["fields"]:
                k = (r["name"], f["name"])
                if k in ren:
                    f["renamed_from"] = f["name"]
                    f["name"] = ren[k]
        for fd in d["functions"]:
            for n in fd["nodes"]:
                if n["k"] == "MemberExpr" and (n.get("rec"), n.get("field")) in ren:
                    n["field"] = ren[(n["rec"], n["field"])]
        for k, v in ren.items():
            if ("<field>", "%s.%s -> %s" % (k[0], k[1], v)) not in log:
                log.append(("<field>", "%s.%s -> %s" % (k[0], k[1], v)))


def alias_globals(units, rel, log):
    """a global variable the rules know that is gone from its file while exactly one new global of the same type is defined there: renamed"""
    known = json.load(open(CENSUS)).get("globals", {})
    defs = {}
    for d in units:
        for g in d["globals"]:
            if g.get("def"):
                defs.setdefault(g["name"], (rel(g["file"]), g.get("t")))
    files = {f for f, _ in defs.values()}
    ren = {}
    for name, (f, t) in sorted(known.items()):
        if name in defs or f not in files:
            continue
        cands = [n for n, (f2, t2) in defs.items() if n not in known and f2 == f and t2 == t and n not in ren]
        if len(cands) == 1:
            ren[cands[0]] = name
    if not ren:
        return
    for d in units:
        for g in d["globals"]:
            if g["name"] in ren:
                g["name"] = ren[g["name"]]
        for fd in d["functions"]:
            for n in fd["nodes"]:
                if n["k"] == "DeclRefExpr" and n.get("dk") == "global" and n.get("name") in ren:
                    n["name"] = ren[n["name"]]
    for k, v in ren.items():
        log.append(("<global>", "%s -> %s" % (k, v)))


def canonical_atomics(fd):
    """`atomic_load(&x)` / `atomic_store(&x, v)` with sequentially consistent order are the plain read / assignment of the _Atomic object x
    spelled out: both spellings get the representation of the plain one (an lvalue-to-rvalue conversion / an assignment whose target is
    marked atomic), so that the rules see one form.  Orders other than seq_cst keep the explicit node."""
    nodes = fd["nodes"]
    for i, n in enumerate(nodes):
        if n["k"] != "AtomicExpr" or n.get("order") != "seq_cst":
            continue
        a = n.get("aop", "")
        for pre in ("__c11_atomic_", "__atomic_", "__opencl_atomic_"):
            if a.startswith(pre):
                a = a[len(pre):]
        if a not in ("load", "load_n", "store", "store_n"):
            continue
        p = n.get("ptr")
        if not isinstance(p, int) or p < 0:
            continue
        x = p
        while nodes[x]["k"] in ("ImplicitCastExpr", "ParenExpr", "CStyleCastExpr") and nodes[x]["c"]:
            x = nodes[x]["c"][0]
        if nodes[x]["k"] == "UnaryOperator" and nodes[x].get("op") == "&" and nodes[x]["c"]:
            lv = nodes[x]["c"][0]
            y = lv
            while nodes[y]["k"] == "ParenExpr":
                y = nodes[y]["c"][0]
            nodes[y]["tatomic"] = True
        else:
            nodes.append({"k": "UnaryOperator", "op": "*", "c": [p], "l": n.get("l"), "src": "*" + nodes[p].get("src", "?"), "t": n.get("t"),
                          "lv": True, "tatomic": True, "synthetic": "deref"})
            lv = len(nodes) - 1
        keep = {k: n.get(k) for k in ("l", "col", "src", "t", "m", "mtop", "inl", "ifile") if n.get(k) is not None}
        if a.startswith("load"):
            n.clear()
            n.update(keep)
            n.update({"k": "ImplicitCastExpr", "ck": "LValueToRValue", "c": [lv], "canon": "atomic_load"})
        else:
            v = n.get("val1")
            if not isinstance(v, int) or v < 0:
                continue
            n.clear()
            n.update(keep)
            n.update({"k": "BinaryOperator", "op": "=", "c": [lv, v], "canon": "atomic_store"})


def load_signatures():
    return json.load(open(CENSUS)).get("signatures", {})


def alias_renamed(allf, rel, census, sigs, log):
    """A census function that is gone from a file that was parsed, while exactly one new function with the same file, return type and
    parameter types appeared there, has been renamed: the new name is mapped back to the name the rules know."""
    present = {fd["name"] for fd in allf}
    files = {rel(fd["file"]) for fd in allf}
    import difflib
    missing = [(name, sg) for name, sg in sorted(sigs.items()) if name not in present and sg[0] in files]
    fresh = {}
    for fd in allf:
        if fd["name"] not in census:
            fresh.setdefault(fd["name"], fd)
    pairs = []
    for name, (f, ret, ptypes, _static, _pn) in missing:
        for new, fd in fresh.items():
            if rel(fd["file"]) == f and fd.get("ret") == ret and [p["t"] for p in fd["params"]] == ptypes:
                pairs.append([0.0, name, new])
    # similarity is judged on what distinguishes the names: the common prefix of a missing name and all its candidates is dropped
    for name in {p[1] for p in pairs}:
        grp = [p for p in pairs if p[1] == name]
        cp = os.path.commonprefix([name] + [p[2] for p in grp])
        for p in grp:
            a, b = name[len(cp):], p[2][len(cp):]
            p[0] = difflib.SequenceMatcher(None, a, b).ratio() + (0.5 if a and b and (a.startswith(b) or b.startswith(a)) else 0.0)
    pairs = [tuple(p) for p in pairs]
    # a unique candidate is taken as it is; among several, the most similar name wins when it is the mutual best match
    chosen = {}
    for name in {p[1] for p in pairs}:
        mine = sorted([p for p in pairs if p[1] == name], reverse=True)
        best = mine[0]
        if len(mine) > 1 and (best[0] < 0.4 or best[0] - mine[1][0] < 0.1):
            continue
        rivals = sorted([p for p in pairs if p[2] == best[2]], reverse=True)
        if rivals[0][1] != name:
            continue
        chosen[name] = best[2]
    for name, new in sorted(chosen.items()):
        for fd in allf:
            if fd["name"] == new:
                fd["name"] = name
                fd["renamed_from"] = new
            for n in fd["nodes"]:
                if n.get("callee") == new:
                    n["callee"] = name
                if n["k"] == "DeclRefExpr" and n.get("dk") == "func" and n.get("name") == new:
                    n["name"] = name
        log.append(("<renamed>", "%s -> %s" % (new, name)))


def alias_params(allf, sigs, log):
    """Parameters of a census function keep the names the rules know them by, whatever they are called now (matched by position;
    only when the number of parameters is unchanged)."""
    for fd in allf:
        sg = sigs.get(fd["name"])
        if not sg or len(sg[4]) != len(fd["params"]):
            continue
        ren = {}
        taken = {l["name"] for l in fd.get("locals", [])} | {p["name"] for p in fd["params"]}
        for p, want in zip(fd["params"], sg[4]):
            if p["name"] != want and want and want not in taken:
                ren[p["did"]] = (p["name"], want)
                p["name"] = want
        if not ren:
            continue
        for l in fd.get("locals", []):
            if l.get("did") in ren:
                l["name"] = ren[l["did"]][1]
        for n in fd["nodes"]:
            if n["k"] == "DeclRefExpr" and n.get("did") in ren and n.get("dk") in ("param", "local"):
                n["name"] = ren[n["did"]][1]
        log.append(("<params>", "%s: %s" % (fd["name"], ", ".join("%s -> %s" % v for v in ren.values()))))


def _addr_taken(fds):
    taken = set()
    for fd in fds:
        nodes = fd["nodes"]
        callee_slots = set()
        for n in nodes:
            if n["k"] == "CallExpr" and n["c"]:
                # the callee expression: DeclRefExpr under implicit casts / parens
                x = n["c"][0]
                while x >= 0 and nodes[x]["k"] in ("ImplicitCastExpr", "ParenExpr"):
                    x = nodes[x]["c"][0]
                if x >= 0:
                    callee_slots.add(x)
        for i, n in enumerate(nodes):
            if n["k"] == "DeclRefExpr" and n.get("dk") == "func" and i not in callee_slots:
                taken.add(n.get("name"))
    return taken


def _calls(fd, names):
    return [i for i, n in enumerate(fd["nodes"]) if n["k"] == "CallExpr" and n.get("callee") in names and not n.get("_inlined")]


def _maxdid(fd):
    m = 0
    for p in fd["params"]:
        m = max(m, p["did"])
    for l in fd.get("locals", []):
        m = max(m, l["did"])
    for n in fd["nodes"]:
        if n.get("did"):
            m = max(m, n["did"])
    return m


def _branch_outcome(nodes, cond, call_id, value):
    """value of the branch condition `cond` when the call node evaluates to `value`, if cond is a chain of
    !, parentheses, casts, `== const`, `!= const`, __builtin_expect over the call; else None"""
    def go(i):
        if i == call_id:
            return value
        n = nodes[i]
        k = n["k"]
        if k in ("ParenExpr", "ImplicitCastExpr", "CStyleCastExpr"):
            v = go(n["c"][0])
            if v is None:
                return None
            if n.get("ck") == "IntegralToBoolean" or n.get("ck") == "PointerToBoolean":
                return 1 if v else 0
            return v
        if k == "UnaryOperator" and n.get("op") == "!":
            v = go(n["c"][0])
            return None if v is None else (0 if v else 1)
        if k == "CallExpr" and n.get("callee") == "__builtin_expect":
            return go(n["c"][1])
        if k == "BinaryOperator" and n.get("op") in ("==", "!="):
            a, b = n["c"]
            for x, y in ((a, b), (b, a)):
                cv = nodes[y].get("cv")
                if cv is not None and nodes[y]["k"] != "DeclRefExpr":
                    v = go(x)
                    if v is None:
                        continue
                    return int((v == cv) if n["op"] == "==" else (v != cv))
            return None
        return None
    return go(cond)


def _subtree(nodes, root):
    out, st = set(), [root]
    while st:
        i = st.pop()
        if i < 0 or i in out:
            continue
        out.add(i)
        st.extend(nodes[i]["c"])
    return out


def inline_one(F, cid, G, serial):
    nodes = F["nodes"]
    call = nodes[cid]
    cfg = F["cfg"]
    blocks = {b["id"]: b for b in cfg["blocks"]}
    B = None
    for b in cfg["blocks"]:
        if cid in b["elems"]:
            B = b
            break
    if B is None:
        return False                       # the call is not in the CFG (dead code): leave it
    idx = B["elems"].index(cid)
    args = call["c"][1:]
    if len(args) != len(G["params"]) or G.get("variadic"):
        return False
    off = len(nodes)
    dbase = _maxdid(F) + 1
    boff = max(blocks) + 1
    gfile = G["file"]

    def nid(x):
        return x + off if isinstance(x, int) and x >= 0 else x

    def did(x):
        return dbase + x

    # ---- clone nodes
    for gn in G["nodes"]:
        n = dict(gn)
        n["c"] = [nid(x) for x in gn["c"]]
        for key in ("ptr", "val1", "val2"):
            if key in n and n[key] is not None:
                n[key] = nid(n[key])
        if "decls" in n:
            ds = []
            for d in n["decls"]:
                d = dict(d)
                if "init" in d:
                    d["init"] = nid(d["init"])
                if "did" in d:
                    d["did"] = did(d["did"])
                ds.append(d)
            n["decls"] = ds
        for key in ("outs", "ins"):
            if key in n:
                n[key] = [dict(x, e=nid(x["e"])) for x in n[key]]
        if n["k"] == "DeclRefExpr" and n.get("dk") in ("local", "param") and n.get("did"):
            n["did"] = did(n["did"])
            n["dk"] = "local"
        n["inl"] = G["name"]
        n["ifile"] = gfile
        if G.get("noinline"):
            n["inl_noinline"] = True      # the compiler keeps this code in a separate, opaque function
        nodes.append(n)
    # a parameter that is only ever read, bound to a constant argument: its reads are that constant
    for p, a in zip(G["params"], args):
        acv = nodes[a].get("cv")
        if acv is None or nodes[a]["k"] == "DeclRefExpr":
            continue
        refs = [i for i, gn in enumerate(G["nodes"]) if gn["k"] == "DeclRefExpr" and gn.get("did") == p["did"] and gn.get("dk") == "param"]
        reads = {gn["c"][0] for gn in G["nodes"] if gn["k"] == "ImplicitCastExpr" and gn.get("ck") == "LValueToRValue" and gn["c"]}
        if refs and all(i in reads for i in refs):
            for i, gn in enumerate(G["nodes"]):
                if gn["k"] == "ImplicitCastExpr" and gn.get("ck") == "LValueToRValue" and gn["c"] and gn["c"][0] in refs:
                    nodes[off + i]["cv"] = acv
    line = call.get("l")
    for l in G.get("locals", []):
        F.setdefault("locals", []).append(dict(l, did=did(l["did"]), inl=G["name"]))
    # ---- parameters become initialised locals
    pre = []
    for p, a in zip(G["params"], args):
        F.setdefault("locals", []).append({"name": p["name"], "did": did(p["did"]), "t": p["t"], "line": line, "inl": G["name"]})
        nodes.append({"k": "DeclStmt", "c": [a], "l": line, "src": "%s = %s" % (p["name"], nodes[a].get("src", "?")),
                      "decls": [{"name": p["name"], "did": did(p["did"]), "t": p["t"], "init": a}], "inl": G["name"], "synthetic": "param"})
        pre.append(len(nodes) - 1)
    # ---- return variable
    void = G.get("ret", "void").strip() == "void"
    retdid = dbase + _maxdid(G) + 1
    retname = "__ret_%s_%d" % (G["name"], serial)
    if not void:
        F.setdefault("locals", []).append({"name": retname, "did": retdid, "t": G["ret"], "line": line, "inl": G["name"]})

    def retref():
        nodes.append({"k": "DeclRefExpr", "c": [], "l": line, "src": retname, "t": G["ret"], "lv": True, "dk": "local",
                      "did": retdid, "name": retname, "inl": G["name"], "synthetic": "ret"})
        return len(nodes) - 1

    # ---- clone blocks
    gexit = G["cfg"]["exit"] + boff
    gentry = G["cfg"]["entry"] + boff
    newblocks = []
    ret_blocks = []            # (block, constant or None)
    my_returns = set()         # node ids of this clone's own `return` statements (not those of helpers nested in it)
    for gb in G["cfg"]["blocks"]:
        b = dict(gb)
        b["id"] = gb["id"] + boff
        b["elems"] = [nid(e) for e in gb["elems"]]
        b["succs"] = [None if s is None else dict(s, b=s["b"] + boff) for s in gb["succs"]]
        for key in ("cond", "term", "looptarget"):
            if key in b and isinstance(b[key], int):
                b[key] = nid(b[key])
        b["inl"] = G["name"]
        newblocks.append(b)
    for b in newblocks:
        el = []
        for e in b["elems"]:
            n = nodes[e]
            if n["k"] == "ReturnStmt" and n.get("inl") == G["name"] and e >= off:
                my_returns.add(e)
                kid = n["c"][0] if n["c"] and n["c"][0] >= 0 else None
                if void or kid is None:
                    n["k"] = "NullStmt"
                    n["c"] = []
                    n["synthetic"] = "return"
                    ret_blocks.append((b, None))
                else:
                    r = retref()
                    el.append(r)
                    cv = nodes[kid].get("cv")
                    n["k"] = "BinaryOperator"
                    n["op"] = "="
                    n["c"] = [r, kid]
                    n["t"] = G["ret"]
                    n["synthetic"] = "return"
                    n.pop("cv", None)
                    ret_blocks.append((b, cv if nodes[kid]["k"] != "DeclRefExpr" else None))
            el.append(e)
        b["elems"] = el
    # ---- split the caller's block
    B2 = {"id": boff + len(G["cfg"]["blocks"]) + 0, "elems": [], "succs": B["succs"]}
    while B2["id"] in blocks or any(nb["id"] == B2["id"] for nb in newblocks):
        B2["id"] += 1
    for key in ("term", "termk", "cond", "looptarget", "noreturn"):
        if key in B:
            B2[key] = B.pop(key)
    rest = B["elems"][idx + 1:]
    B["elems"] = B["elems"][:idx] + pre
    B["succs"] = [{"b": gentry, "r": True}]
    orig = dict(call)
    body_root = nid(G["body"]) if isinstance(G.get("body"), int) and G["body"] >= 0 else None
    if body_root is not None:
        nodes[body_root]["iparent"] = cid
    if void:
        call.clear()
        call.update({"k": "NullStmt", "c": [], "l": orig.get("l"), "src": orig.get("src"), "t": orig.get("t"), "_inlined": G["name"], "synthetic": "call", "ibody": body_root})
        B2["elems"] = [cid] + rest
    else:
        r = retref()
        call.clear()
        call.update({"k": "ImplicitCastExpr", "ck": "LValueToRValue", "c": [r], "l": orig.get("l"), "src": orig.get("src"),
                     "t": orig.get("t"), "_inlined": G["name"], "synthetic": "call", "ibody": body_root})
        B2["elems"] = [r, cid] + rest
    for b in newblocks:
        if b["id"] == gexit:
            b["succs"] = [{"b": B2["id"], "r": True}]
    # ---- tail position: `return helper(..);` -- every return of the clone becomes a return of the caller
    if not void and not B2.get("cond") and len([x for x in B2["succs"] if x is not None]) == 1:
        rs = [e for e in B2["elems"] if nodes[e]["k"] == "ReturnStmt"]
        if len(rs) == 1 and rs[0] == B2["elems"][-1]:
            chain = _subtree(nodes, rs[0])
            x = nodes[rs[0]]["c"][0] if nodes[rs[0]]["c"] else -1
            while x >= 0 and x != cid and nodes[x]["k"] in ("ImplicitCastExpr", "ParenExpr", "CStyleCastExpr") and nodes[x].get("ck") in (None, "NoOp", "BitCast", "LValueToRValue"):
                x = nodes[x]["c"][0]
            if x == cid and all(e in chain for e in B2["elems"]):
                exit_succ = [dict(x_) for x_ in B2["succs"] if x_ is not None]
                for b in newblocks:
                    for e in b["elems"]:
                        n = nodes[e]
                        if e in my_returns and n.get("synthetic") == "return" and n["k"] == "BinaryOperator":
                            # turn `__ret = e` back into `return e`
                            n["k"] = "ReturnStmt"
                            n["c"] = [n["c"][1]]
                            n.pop("op", None)
                            n["synthetic"] = "tail-return"
                            b["succs"] = exit_succ
                            b["tail"] = True
    # ---- jump threading for `if (helper(..))`
    if not void and len(B2["succs"]) == 2 and isinstance(B2.get("cond"), int) and B2["cond"] >= 0 and all(s is not None for s in B2["succs"]):
        chain = _subtree(nodes, B2["cond"])
        pure = all(e in chain or nodes[e]["k"] in ("IntegerLiteral",) for e in B2["elems"]) and cid in chain
        # the branch tests exactly this condition (not a later operand of && / ||)
        if pure:
            for b, cv in ret_blocks:
                if cv is None:
                    continue
                out = _branch_outcome(nodes, B2["cond"], cid, cv)
                if out is None:
                    continue
                tgt = B2["succs"][0 if out else 1]
                b["succs"] = [dict(tgt)]
                b["threaded"] = True
    cfg["blocks"].extend(newblocks)
    cfg["blocks"].append(B2)
    F.setdefault("inlined", []).append({"callee": G["name"], "line": line})
    return True


def inline_program(units, census, taken, log):
    """units: list of lists of function dicts (one list per unit; mutated).  A callee is looked up in the caller's own unit first
    (static functions), then in any unit (helpers in headers are dumped once, in the header's own unit).
    Returns the set of names that were inlined at every call site (to be dropped from the program)."""
    allf = [fd for fds in units for fd in fds]
    glob = {}
    for fd in allf:
        glob.setdefault(fd["name"], fd)
    cand = {n for n, fd in glob.items() if n not in census and n not in taken and not fd.get("variadic")}
    if not cand:
        return set()
    local = [{fd["name"]: fd for fd in fds} for fds in units]

    def lookup(ui, name):
        return local[ui].get(name) or glob[name]

    def reach(n, seen):
        for i in _calls(glob[n], cand):
            c = glob[n]["nodes"][i]["callee"]
            if c in seen or reach(c, seen | {c}):
                return True
        return False
    cand = {n for n in cand if not reach(n, {n})}
    serial = [0]
    for _ in range(12):
        ready = {n for n in cand if not any(_calls(fd, cand) for fd in allf if fd["name"] == n)}
        progress = False
        for ui, fds in enumerate(units):
            for fd in fds:
                for cidx in _calls(fd, ready):
                    g = lookup(ui, fd["nodes"][cidx]["callee"])
                    if g is fd or g["name"] == fd["name"]:
                        continue
                    serial[0] += 1
                    if inline_one(fd, cidx, g, serial[0]):
                        progress = True
                        log.append((fd["name"], g["name"]))
                    else:
                        fd["nodes"][cidx]["_inlined"] = "skipped"
        if not progress:
            break
    done = set()
    for n in cand:
        if not any(nn["k"] == "CallExpr" and nn.get("callee") == n for fd in allf if fd["name"] not in cand for nn in fd["nodes"]):
            done.add(n)
    return done
